"""fork-based parallel map over function names: workers inherit the loaded program (copy-on-write) through a module global"""
import os
import multiprocessing as mp

_CTX = {}


def _call(args):
    fn_name, item = args
    return item, _CTX[fn_name](item)


def pmap(fn, items, shared_name, jobs=None):
    """run fn(item) for every item in a fork pool; fn must be a top-level function that reads what it needs from module
    globals set by the caller *before* this call.  Returns {item: result}.  Falls back to a serial loop for few items or
    when H4_JOBS=1."""
    items = list(items)
    jobs = jobs or int(os.environ.get("H4_JOBS", "0")) or min(16, os.cpu_count() or 1)
    if jobs <= 1 or len(items) < 8:
        return {it: fn(it) for it in items}
    _CTX[shared_name] = fn
    ctx = mp.get_context("fork")
    with ctx.Pool(jobs) as pool:
        out = dict(pool.imap_unordered(_call, [(shared_name, it) for it in items], chunksize=4))
    return out
