"""Loop-shaped rules: what one iteration hands to the next.

LENPAIR      the amount a transfer loop books (remaining -= n, done += n) is the amount it handed to the transferring call
LOOPRESET    per-input latch flags of a tool's file loop are cleared at the top of every iteration
ARRAYRESET   a routine that clears a fixed-size file-scope table clears every slot of it
CONSUMEBOUND the loop that consumes a buffer filled by a bulk read runs over the number of records that read asked for
ENDSCAN      the end-of-file estimate built while the DD blocks are read takes every block and every element into account
BLOCKADV     after the bit buffer is flushed its file offset is advanced before the offset is used again
COUNTPROD    the element count of a strip-mined request is the product of the edges handed to SDreaddata/SDwritedata
"""
import re

from .facts import kind, strip, walk, render, calls_in, is_int, int_val, mem_field, base_var, path, is_null
from .codec import ast_walk
from .flow import PathAnalysis, fail_values, classify_ret


def loop_body(lp):
    return lp[4] if lp[0] == "for" else (lp[2] if lp[0] == "while" else lp[1])


def loops_of(func):
    """every loop of the function, inner loops after the loops that contain them"""
    ast = func.raw.get("ast")
    out = []
    if not ast:
        return out

    def f(n, st):
        if n[0] in ("for", "while", "do"):
            out.append((n, list(st)))
        return True

    ast_walk(ast, f)
    return out


def seq_of(body):
    """(expression, node) of every statement and condition under `body`, in source order"""
    out = []

    def f(n, st):
        k = n[0]
        if k == "s":
            out.append((n[1], n))
        elif k in ("if", "while", "switch") and n[1] is not None:
            out.append((n[1], n))
        elif k == "for":
            for x in n[1:4]:
                if x is not None:
                    out.append((x, n))
        elif k == "do":
            pass
        return True

    ast_walk(body, f)
    # conditions of do-loops come after their bodies; they never matter for the rules here
    return out


def node_line(n):
    for x in n[::-1]:
        if isinstance(x, int):
            pass
    # AST nodes end with (line, col, macro-chain)
    try:
        return n[-3] if isinstance(n[-3], int) else 0
    except Exception:
        return 0


def redefines(e, var):
    """does expression e give `var` a new value (assignment, ++/--, or &var handed to a call)?"""
    for x in walk(e, True):
        if x[0] == "asg":
            t = strip(x[2])
            if kind(t) == "var" and t[1] == var:
                return True
        elif x[0] == "incdec":
            t = strip(x[3])
            if kind(t) == "var" and t[1] == var:
                return True
        elif x[0] == "call":
            for a in x[3]:
                a = strip(a)
                if kind(a) == "addr" and kind(strip(a[1])) == "var" and strip(a[1])[1] == var:
                    return True
    return False


# ---------------------------------------------------------------------------------------------------------------------
TRANSFER = {"Hread", "Hwrite", "HPread", "HPwrite", "HP_read", "HP_write", "memcpy", "memset", "memmove", "VSread", "VSwrite",
            "DFKconvert", "fread", "fwrite", "Hbitread", "Hbitwrite", "DFCIunimcomp", "DFCIunrle", "DFCIrle", "HCPread", "HCPwrite",
            "biowrite", "bioread", "read", "write"}


def rule_len_pair(ctx, files=None, floor=30):
    """LENPAIR: a transfer loop moves `n` units with a call and books them (`remaining -= n`, `done += n`, `ptr += n`).  Both must
    see the same value of n: a statement between the two (in one iteration) that gives n a new value makes the loop book an
    amount it did not transfer, so the element ends short, long, or with a gap."""
    prog = ctx.prog
    n = 0
    seen = set()
    occ = {}
    for f in prog.funcs:
        if files and not f.rel.endswith(tuple(files)):
            continue
        for lp, _st in reversed(loops_of(f)):
            seq = seq_of(loop_body(lp))
            books = []
            for i, (e, nd) in enumerate(seq):
                for x in walk(e, True):
                    if x[0] == "asg" and x[1] in ("-=", "+=") and kind(strip(x[3])) == "var" and kind(strip(x[2])) == "var":
                        books.append((i, strip(x[2])[1], strip(x[3])[1], x[1], x[4] if len(x) > 4 and isinstance(x[4], int) else 0))
                    elif x[0] == "asg" and x[1] == "=" and kind(strip(x[2])) == "var" and kind(strip(x[3])) == "bin" and strip(x[3])[1] in ("+", "-"):
                        # the spelled-out form `p = p + n`
                        b_ = strip(x[3])
                        if kind(strip(b_[2])) == "var" and strip(b_[2])[1] == strip(x[2])[1] and kind(strip(b_[3])) == "var":
                            books.append((i, strip(x[2])[1], strip(b_[3])[1], b_[1] + "=", x[4] if len(x) > 4 and isinstance(x[4], int) else 0))
            for i, R, L, op, bl in books:
                for j, (e, nd) in enumerate(seq):
                    for c in calls_in(e, True):
                        if c[1] not in TRANSFER:
                            continue
                        if not any(kind(strip(a)) == "var" and strip(a)[1] == L for a in c[3]):
                            continue
                        cl = c[5] if len(c) > 5 and isinstance(c[5], int) else 0
                        k = (f.name, R, L, c[1], min(i, j), max(i, j))
                        k2 = (f.rel, f.name, R, L, c[1], bl, cl)
                        if k2 in seen:
                            continue
                        seen.add(k2)
                        lo, hi = (i, j) if i < j else (j, i)
                        bad = [seq[m][1] for m in range(lo + 1, hi) if redefines(seq[m][0], L)]
                        # the call's own statement may assign n from the call's result *after* the call (n = Hread(.., n, ..)):
                        # then a later booking sees the transferred amount, which is the point; an assignment in the booking
                        # statement itself cannot come between
                        n += 1
                        key = "LENPAIR:%s:%s%s%s:%s" % (f.name, R, op, L, c[1])
                        occ[key] = occ.get(key, 0) + 1
                        if occ[key] > 1:
                            key += "#%d" % occ[key]
                        if bad:
                            ctx.violated("LENPAIR", key, f.where(node_line(bad[0]) or None),
                                         "`%s` is handed to %s() and booked with `%s %s %s`, but line %d gives it a new value between the two: "
                                         "the loop books an amount it did not transfer" % (L, c[1], R, op, L, node_line(bad[0])))
                        else:
                            ctx.holds("LENPAIR", key, f.where(), "`%s %s %s` books the value of `%s` that %s() was called with" % (R, op, L, L, c[1]), nontrivial=True)
    ctx.floor("LENPAIR", floor, n, "(transfer call / booking pairs)")
    return n


# ---------------------------------------------------------------------------------------------------------------------
def _latch_fields(prog, funcs):
    """record fields that are only ever assigned integer constants, at least once a non-zero one: (record, field) -> set of
    functions that store the non-zero constant through a pointer parameter"""
    allc = {}
    setters = {}
    for f in funcs:
        params = {q[0] for q in f.params}
        for _b, _i, _s, x in f.nodes(True):
            if x[0] == "asg":
                mf = mem_field(x[2])
                if not mf:
                    continue
                if x[1] == "=" and is_int(x[3]):
                    allc.setdefault(mf, True)
                    if int_val(x[3]) != 0 and base_var(x[2]) in params and strip(x[2])[5]:
                        setters.setdefault(mf, set()).add(f.name)
                else:
                    allc[mf] = False
            elif x[0] == "incdec" and mem_field(x[3]):
                allc[mem_field(x[3])] = False
            elif x[0] == "addr" and mem_field(x[1]):
                allc[mem_field(x[1])] = False
    return {mf: s for mf, s in setters.items() if allc.get(mf)}


def _latch_outparams(funcs):
    """function -> set of parameter positions p where every store through p is `*p = <non-zero constant>`"""
    out = {}
    for f in funcs:
        pos = {q[0]: i for i, q in enumerate(f.params)}
        st = {}
        for _b, _i, _s, x in f.nodes(True):
            if x[0] == "asg" and kind(strip(x[2])) == "deref":
                v = strip(strip(x[2])[1])
                if kind(v) == "var" and v[1] in pos:
                    ok = x[1] == "=" and is_int(x[3]) and int_val(x[3]) != 0
                    st[v[1]] = st.get(v[1], True) and ok
        ps = {pos[v] for v, ok in st.items() if ok}
        if ps:
            out[f.name] = ps
    return out


def rule_loop_reset(ctx, dirs=("mfhdf/hdfimport/",)):
    """LOOPRESET: a tool that handles its inputs one per loop iteration keeps per-input facts in latch flags: a flag is only ever
    stored as a constant, and the routines the loop calls set it (to TRUE) when they recognise something in the current input.
    Such a flag says something about *this* input only if the loop clears it at the top of every iteration, before the call
    that may set it; a flag cleared once before the loop makes the second input inherit what the first one was.

    Scope: hdfimport's loop over input files (the flags select how the numbers of the input are parsed, so a stale one changes
    the values produced).  The same shape in hdp (`index_error` of dumpsds/dumpgr/dumpvd/dumpvg, set once and never cleared
    between files) was read: it only selects between two diagnostics when nothing was chosen, not a printed value, so it is
    not an instance of C19 and hdp is deliberately outside this rule."""
    prog = ctx.prog
    funcs = [f for f in prog.funcs if f.rel.startswith(tuple(dirs))]
    latch = _latch_fields(prog, funcs)
    outp = _latch_outparams(funcs)
    by_setter = {}
    for (rec, fld), fs in latch.items():
        for fn in fs:
            by_setter.setdefault(fn, set()).add((rec, fld))
    n = 0
    for f in funcs:
        for lp, _st in loops_of(f):
            body = loop_body(lp)
            kids = body[1] if body and body[0] == "block" else [body]
            # top-level clears of this body, with their position among the children
            for ci, kid in enumerate(kids):
                exprs = [e for e, _n in seq_of(kid)]
                for e in exprs:
                    for c in calls_in(e, True):
                        need = []
                        for ai, a in enumerate(c[3]):
                            a = strip(a)
                            if kind(a) != "addr" or kind(strip(a[1])) != "var":
                                continue
                            v = strip(a[1])[1]
                            for (rec, fld) in sorted(by_setter.get(c[1], ())):
                                if rec in (strip(a[1])[3] if len(strip(a[1])) > 3 else ""):
                                    need.append((v, fld, "%s.%s" % (v, fld)))
                            if ai in outp.get(c[1], ()):
                                need.append((v, None, v))
                        for v, fld, shown in need:
                            cleared = False
                            for kid2 in kids[:ci]:
                                if kid2[0] != "s":
                                    continue
                                if kind(kid2[1]) == "decl":
                                    for d in kid2[1][1]:
                                        if fld is None and d[0] == v and d[2] is not None and is_int(d[2], 0):
                                            cleared = True
                                    continue
                                # a helper called at the top of the body that clears the flag through its parameter counts as well
                                for c2 in calls_in(kid2[1], True):
                                    g = prog.func(c2[1], f.tu)
                                    if g is None or c2[1] == c[1]:
                                        continue
                                    gp = [q[0] for q in g.params]
                                    for ai2, a2 in enumerate(c2[3]):
                                        a2 = strip(a2)
                                        if kind(a2) == "addr" and kind(strip(a2[1])) == "var" and strip(a2[1])[1] == v and ai2 < len(gp):
                                            for _b9, _i9, _s9, y in g.nodes(True):
                                                if y[0] == "asg" and y[1] == "=" and is_int(y[3], 0) and base_var(y[2]) == gp[ai2]:
                                                    t9 = strip(y[2])
                                                    if (fld is None and kind(t9) == "deref") or (fld is not None and kind(t9) == "mem" and t9[2] == fld):
                                                        cleared = True
                                for x in walk(kid2[1], True):
                                    if x[0] == "asg" and x[1] == "=" and is_int(x[3], 0):
                                        t = strip(x[2])
                                        if fld is None and kind(t) == "var" and t[1] == v:
                                            cleared = True
                                        elif fld is not None and kind(t) == "mem" and t[2] == fld and base_var(t) == v:
                                            cleared = True
                            key = "LOOPRESET:%s:%s" % (f.name, shown)
                            if key in {i.key for i in ctx.instances}:
                                continue
                            n += 1
                            if cleared:
                                ctx.holds("LOOPRESET", key, f.where(node_line(lp)), "`%s` is cleared at the top of every iteration before %s() may set it" % (shown, c[1]), nontrivial=True)
                            else:
                                ctx.violated("LOOPRESET", key, f.where(node_line(lp)), "%s() sets the latch flag `%s` for the input of the current iteration, but the loop body does not clear it "
                                             "before that call: the flag of an earlier input is still set when the next one is processed" % (c[1], shown))
    ctx.floor("LOOPRESET", 4, n, "(latch flags set by routines called from an input loop)")
    return n


# ---------------------------------------------------------------------------------------------------------------------
def _const_range(forn):
    """(var, lo, hi) when a for-header is `v = c0; v < c1 | v <= c1; v++`, else None"""
    init, cond, inc = forn[1], forn[2], forn[3]
    if init is None or cond is None:
        return None
    i = strip(init)
    if kind(i) == "comma":
        i = strip(i[1]) if len(i) > 1 else i
    if not (kind(i) == "asg" and i[1] == "=" and kind(strip(i[2])) == "var" and is_int(i[3])):
        return None
    v = strip(i[2])[1]
    c = strip(cond)
    if not (kind(c) == "bin" and c[1] in ("<", "<=") and kind(strip(c[2])) == "var" and strip(c[2])[1] == v and is_int(c[3])):
        return None
    hi = int_val(c[3]) - (1 if c[1] == "<" else 0)
    return v, int_val(i[3]), hi


def rule_array_reset(ctx, files=None):
    """ARRAYRESET: a file-scope table `T *G[N]` with a constant number of slots caches one list per kind of object.  A routine
    that clears slots of G (stores NULL into them) because the cached state no longer describes the file must clear all N; a
    slot that is left keeps a directory of the previous file, and lookups of that kind answer from it."""
    prog = ctx.prog
    n = 0
    tables = {}
    for name, gs in prog.globals.items():
        for g in gs:
            m = re.match(r"^(.*\*)\s*\[(\d+)\]$", g.get("type") or "")
            if m and g.get("def"):
                tables[name] = int(m.group(2))
    for f in prog.lib_funcs():
        if files and not f.rel.endswith(tuple(files)):
            continue
        ast = f.raw.get("ast")
        if not ast:
            continue
        cover = {}

        def vis(nd, st):
            if nd[0] != "s":
                return True
            rng = {}
            for s_ in st:
                if s_[0] == "for":
                    r = _const_range(s_)
                    if r:
                        rng[r[0]] = (r[1], r[2])
            for x in walk(nd[1], True):
                if x[0] == "asg" and x[1] == "=" and (is_null(x[3]) or (kind(strip(x[3])) == "asg" and _chain_null(x[3]))):
                    t = strip(x[2])
                    if kind(t) == "idx" and kind(strip(t[1])) == "var" and strip(t[1])[1] in tables:
                        g = strip(t[1])[1]
                        ix = strip(t[2])
                        if is_int(ix):
                            cover.setdefault(g, set()).add(int_val(ix))
                        elif kind(ix) == "var" and ix[1] in rng:
                            lo, hi = rng[ix[1]]
                            cover.setdefault(g, set()).update(range(lo, hi + 1))
                        else:
                            cover.setdefault(g, set()).add("?")
            return True

        ast_walk(ast, vis)
        for g, got in sorted(cover.items()):
            if "?" in got:
                continue
            n += 1
            want = set(range(tables[g]))
            key = "ARRAYRESET:%s:%s" % (f.name, g)
            if want <= got:
                ctx.holds("ARRAYRESET", key, f.where(), "all %d slots of %s are cleared" % (tables[g], g), nontrivial=True)
            else:
                ctx.violated("ARRAYRESET", key, f.where(), "%s clears slot(s) %s of the %d-slot table %s but not slot(s) %s: what those slots cache still describes the previous state" %
                             (f.name, sorted(got), tables[g], g, sorted(want - got)))
    ctx.floor("ARRAYRESET", 1, n, "(routines that clear slots of a fixed-size file-scope table)")
    return n


def _chain_null(e):
    e = strip(e)
    while kind(e) == "asg" and e[1] == "=":
        e = strip(e[3])
    return is_null(e)


# ---------------------------------------------------------------------------------------------------------------------
BULK_READ = {"VSread": (1, 2)}  # callee -> (buffer argument, record-count argument)


def rule_consume_bound(ctx, dirs=("mfhdf/hdp/", "mfhdf/hdiff/", "mfhdf/hrepack/", "hdf/util/")):
    """CONSUMEBOUND: a tool reads records in pieces — `VSread(vd, buf, n, ..)` — and then walks the buffer record by record.  The
    walk directly behind the read (a `for` loop over a counter, in the same block, whose body advances a pointer into that
    buffer) must run over exactly the n records the read was asked for: a different bound prints records that were not read in
    this piece, or drops records that were."""
    prog = ctx.prog
    n = 0
    for f in prog.funcs:
        if not f.rel.startswith(tuple(dirs)):
            continue
        ast = f.raw.get("ast")
        if not ast:
            continue
        blocks = []
        ast_walk(ast, lambda nd, st: (blocks.append(nd) if nd[0] == "block" else None, True)[1])
        k = 0
        for b in blocks:
            kids = b[1]
            for i, kid in enumerate(kids):
                if kid[0] not in ("s", "if"):
                    continue
                head = kid[1]
                rd = [c for c in calls_in(head, True) if c[1] in BULK_READ]
                if not rd:
                    continue
                c = rd[0]
                bi, ci = BULK_READ[c[1]]
                cnt = strip(c[3][ci])
                buf = base_var(c[3][bi])
                if kind(cnt) != "var" or buf is None:
                    continue
                # pointers that are set to the buffer after the read
                ptrs = {buf}
                for kid2 in kids[i + 1:]:
                    if kid2[0] == "s":
                        for x in walk(kid2[1], True):
                            if x[0] == "asg" and x[1] == "=" and kind(strip(x[2])) == "var" and base_var(x[3]) in ptrs and kind(strip(x[3])) == "var":
                                ptrs.add(strip(x[2])[1])
                    if kid2[0] != "for" or kid2[2] is None:
                        continue
                    cond = strip(kid2[2])
                    if not (kind(cond) == "bin" and cond[1] in ("<", "<=", "!=")):
                        continue
                    adv = False
                    for e, _n in seq_of(kid2[4]):
                        for x in walk(e, True):
                            if (x[0] == "asg" and x[1] == "+=" and kind(strip(x[2])) == "var" and strip(x[2])[1] in ptrs) or \
                               (x[0] == "incdec" and kind(strip(x[3])) == "var" and strip(x[3])[1] in ptrs):
                                adv = True
                    if not adv:
                        continue
                    k += 1
                    n += 1
                    key = "CONSUMEBOUND:%s#%d" % (f.name, k)
                    bound = strip(cond[3])
                    if kind(bound) == "var" and bound[1] == cnt[1] and cond[1] in ("<", "!="):
                        ctx.holds("CONSUMEBOUND", key, f.where(node_line(kid2)), "the walk over `%s` runs over the `%s` records %s() was asked for" % (buf, cnt[1], c[1]), nontrivial=True)
                    else:
                        ctx.violated("CONSUMEBOUND", key, f.where(node_line(kid2)), "%s() reads `%s` records into `%s`, but the loop that walks the buffer runs while `%s`: "
                                     "it consumes a different number of records than were read" % (c[1], cnt[1], buf, render(cond)))
                    break
    ctx.floor("CONSUMEBOUND", 2, n, "(record walks behind a bulk read)")
    return n


# ---------------------------------------------------------------------------------------------------------------------
def rule_end_scan(ctx):
    """ENDSCAN (C17, C02): when a file is opened the library does not trust its length: it rebuilds the end-of-file offset as the
    maximum extent of everything it meets while it walks the chain of DD blocks — every block's own extent and every element
    a descriptor points at — and allocates new space from there.  Each `if (x > end) end = x` that feeds `f_end_off` must
    therefore sit inside the walk and measure the walk's *current* block or descriptor (a pointer the loop itself advances);
    taken outside the loop, or from the head of the chain, the last block or element is missed and the first new object is
    written over it."""
    prog = ctx.prog
    n = 0
    for f in prog.lib_funcs():
        if not f.rel.endswith("hfiledd.c"):
            continue
        ast = f.raw.get("ast")
        if not ast:
            continue
        # locals that are stored into f_end_off
        ends = set()
        for _b, _i, _s, x in f.nodes(True):
            if x[0] == "asg" and x[1] == "=" and mem_field(x[2]) == ("filerec_t", "f_end_off") and kind(strip(x[3])) == "var":
                ends.add(strip(x[3])[1])
        if not ends:
            continue
        ups = []

        def vis(nd, st):
            if nd[0] == "if":
                c = strip(nd[1])
                if kind(c) == "bin" and c[1] == ">" and kind(strip(c[3])) == "var" and strip(c[3])[1] in ends:
                    ups.append((nd, list(st)))
            return True

        ast_walk(ast, vis)
        k = 0
        for nd, st in ups:
            k += 1
            n += 1
            key = "ENDSCAN:%s#%d" % (f.name, k)
            loops = [s_ for s_ in st if s_[0] in ("for", "while", "do")]
            measured = {base_var(x) for x in walk(nd[1], True) if x[0] == "mem" and x[2] in ("myoffset", "offset", "length", "ndds")}
            measured.discard(None)
            advanced = set()
            for lp in loops:
                for e, _n in seq_of(lp) + ([(lp[3], lp)] if lp[0] == "for" and lp[3] is not None else []):
                    for x in walk(e, True):
                        if x[0] == "asg" and kind(strip(x[2])) == "var":
                            advanced.add(strip(x[2])[1])
                        elif x[0] == "incdec" and kind(strip(x[3])) == "var":
                            advanced.add(strip(x[3])[1])
            if not loops:
                ctx.violated("ENDSCAN", key, f.where(node_line(nd)), "`%s` raises the end-of-file estimate outside the walk over the DD blocks: only one block/element is taken into account" % render(nd[1])[:90])
            elif not measured or not (measured <= advanced):
                ctx.violated("ENDSCAN", key, f.where(node_line(nd)), "`%s` raises the end-of-file estimate from `%s`, which the enclosing walk does not advance: the extent of the block/element the walk is at is not counted" %
                             (render(nd[1])[:90], ", ".join(sorted(measured - advanced)) or "nothing"))
            else:
                ctx.holds("ENDSCAN", key, f.where(node_line(nd)), "the end-of-file estimate is raised inside the walk from the walk's current `%s`" % ", ".join(sorted(measured)), nontrivial=True)
        # completeness: both kinds of extent are measured - the block's own (its offset and its number of descriptors) and the
        # element's (a descriptor's offset and length)
        fields = set()
        for nd, st in ups:
            fields |= {x[2] for x in walk(nd[1], True) if x[0] == "mem"}
        n += 1
        key = "ENDSCAN:%s:kinds" % f.name
        if "myoffset" in fields and {"offset", "length"} <= fields:
            ctx.holds("ENDSCAN", key, f.where(), "the walk measures the extent of each DD block and of each element", nontrivial=True)
        else:
            ctx.violated("ENDSCAN", key, f.where(), "the end-of-file estimate does not take %s into account: when that is the last thing in the file, the next allocation is placed on top of it" % ("the DD blocks' own extent" if "myoffset" not in fields else "the elements' extent"))
    ctx.floor("ENDSCAN", 2, n, "(max-updates of the end-of-file estimate while the DD blocks are read)")
    return n


# ---------------------------------------------------------------------------------------------------------------------
class _BlockAdv(PathAnalysis):
    """user: True while the bit buffer has been written out with Hwrite and `block_offset` has not been advanced since"""

    def __init__(self, prog):
        super().__init__(prog)
        self.exits = []
        self.flushes = 0
        self.bad_seek = []

    def init_user(self, func):
        return False

    def on_stmt(self, func, bid, idx, stmt, env, user):
        u = user
        for x in walk(stmt["e"]):
            if x[0] == "call" and x[3] and (mem_field(x[3][0]) or (0, 0))[1] == "acc_id":
                if x[1] == "Hwrite" and len(x[3]) > 2 and (mem_field(x[3][2]) or (0, 0))[1] == "bytea":
                    u = True
                    self.flushes += 1
                elif x[1] == "Hseek" and u and any((mem_field(y) or (0, 0))[1] == "block_offset" for y in walk(x[3][1], True)):
                    self.bad_seek.append(stmt.get("l", 0))
            elif x[0] == "asg" and (mem_field(x[2]) or (0, 0))[1] == "block_offset":
                u = False
        return u

    def on_exit(self, func, bid, retval, env, user):
        self.exits.append((classify_ret(retval, self.fails), user))


def rule_block_advance(ctx):
    """BLOCKADV (C05): a bit file in write mode buffers one block of the element; `block_offset` is the element offset the buffer
    maps.  When the full buffer has been written out (Hwrite of `bytea`) the buffer maps the *next* block, so block_offset must be
    advanced before it is used again — before the seek that repositions the element after a pre-read, and before the routine
    returns — or the next flush is aimed at the block that was just written."""
    prog = ctx.prog
    n = 0
    for f in prog.lib_funcs():
        if not f.rel.endswith("hbitio.c"):
            continue
        # only routines that keep the file in write mode after the flush (a final flush before close/mode switch is not one)
        if not any(x[0] == "asg" and (mem_field(x[2]) or (0, 0))[1] == "block_offset" and x[1] == "+=" for _b, _i, _s, x in f.nodes(True)):
            continue
        a = _BlockAdv(prog)
        a.fails = fail_values(f, prog)
        try:
            a.run(f)
        except Exception:
            continue
        if not a.flushes:
            continue
        n += 1
        key = "BLOCKADV:%s" % f.name
        stale_exit = [u for cls, u in a.exits if cls != "fail" and u]
        if a.bad_seek:
            ctx.violated("BLOCKADV", key, f.where(a.bad_seek[0]), "after the buffer is written out the element is repositioned to `block_offset` before block_offset has been advanced: "
                         "the next flush overwrites the block just written")
        elif stale_exit:
            ctx.violated("BLOCKADV", key, f.where(), "%s can return after writing the buffer out without advancing `block_offset`" % f.name)
        else:
            ctx.holds("BLOCKADV", key, f.where(), "every flush of the bit buffer is followed by an advance of block_offset before the offset is used or the routine returns", nontrivial=True)
    ctx.floor("BLOCKADV", 1, n, "(bit-I/O routines that flush the buffer and stay in write mode)")
    return n


# ---------------------------------------------------------------------------------------------------------------------
SLAB_IO = {"SDreaddata": 3, "SDwritedata": 3}


def rule_count_product(ctx, dirs=("mfhdf/hrepack/", "mfhdf/hdiff/", "mfhdf/hdp/")):
    """COUNTPROD: a tool that moves a big dataset in strips computes the number of elements of a strip as a product over the
    rank and advances its element counter by it.  The factors must be the edges it hands to SDreaddata/SDwritedata for that
    strip: a product over another array (the nominal strip size) counts elements that a clipped last strip does not have, so
    the loop stops early or compares/copies elements that were not read."""
    prog = ctx.prog
    n = 0
    for f in prog.funcs:
        if not f.rel.startswith(tuple(dirs)):
            continue
        for lp, _st in loops_of(f):
            if lp[0] != "for" or lp[3] is None:
                continue
            step = strip(lp[3])
            if not (kind(step) == "asg" and step[1] == "+=" and kind(strip(step[3])) == "var"):
                continue
            N = strip(step[3])[1]
            seq = seq_of(lp[4])
            edges = set()
            for e, _n in seq:
                for c in calls_in(e, True):
                    if c[1] in SLAB_IO and len(c[3]) > SLAB_IO[c[1]]:
                        b = base_var(c[3][SLAB_IO[c[1]]])
                        if b:
                            edges.add((c[1], b))
            if not edges:
                continue
            facs = []
            for e, _n in seq:
                for x in walk(e, True):
                    if x[0] == "asg" and x[1] == "*=" and kind(strip(x[2])) == "var" and strip(x[2])[1] == N:
                        facs.append(x)
            if not facs:
                continue
            n += 1
            key = "COUNTPROD:%s:%s" % (f.name, N)
            names = {b for _c, b in edges}
            bad = [x for x in facs if base_var(x[3]) not in names or kind(strip(x[3])) not in ("idx",)]
            if bad:
                ctx.violated("COUNTPROD", key, f.where(node_line(lp)), "the strip's element count `%s` is multiplied by `%s`, but the edges handed to %s are `%s`: "
                             "a clipped strip is counted with elements it does not have" % (N, render(bad[0][3]), "/".join(sorted({c for c, _b in edges})), ", ".join(sorted(names))))
            else:
                ctx.holds("COUNTPROD", key, f.where(node_line(lp)), "`%s` is the product of the edges `%s` handed to %s" % (N, ", ".join(sorted(names)), "/".join(sorted({c for c, _b in edges}))), nontrivial=True)
    ctx.floor("COUNTPROD", 2, n, "(strip-mined dataset loops)")
    return n


# ---------------------------------------------------------------------------------------------------------------------
def rule_old_length_before_overwrite(ctx):
    """OLDLEN (C07): renaming a Vdata (name, class) may make its stored header longer; VSdetach then has to write the header to a
    new, larger element instead of over the old one, and it learns that from `new_h_sz`.  The routines decide by comparing the
    length of the *current* string with the new one, so the current length must be measured before the new string is copied over
    it.  Measured afterwards, the two lengths are equal, new_h_sz stays clear, and VSdetach fails to write the longer header:
    everything appended in that attachment is lost with it."""
    prog = ctx.prog
    n = 0
    COPY = {"strcpy", "strncpy", "HIstrncpy", "memcpy", "strcat"}
    for f in prog.lib_funcs():
        if not f.rel.endswith(("hdf/src/vg.c", "hdf/src/vgp.c", "hdf/src/vsfld.c")):
            continue
        ast = f.raw.get("ast")
        if not ast:
            continue
        if not any(x[0] == "asg" and (mem_field(x[2]) or (0, 0))[1] == "new_h_sz" for _b, _i, _s, x in f.nodes(True)):
            continue
        seq = seq_of(ast)
        measures = []  # (index, local, field)
        copies = []  # (index, field)
        for i, (e, nd) in enumerate(seq):
            for x in walk(e, True):
                if x[0] == "asg" and x[1] == "=" and kind(strip(x[2])) == "var":
                    r = strip(x[3])
                    if kind(r) == "call" and r[1] in ("strlen", "strnlen") and r[3] and mem_field(r[3][0]):
                        measures.append((i, strip(x[2])[1], mem_field(r[3][0]), nd))
                elif x[0] == "call" and x[1] in COPY and x[3] and mem_field(x[3][0]):
                    copies.append((i, mem_field(x[3][0])))
        for i, loc, fld, nd in measures:
            # only measurements that decide new_h_sz: the local is compared in a condition
            used = any(kind(e2) and any(y[0] == "var" and y[1] == loc for y in walk(e2, True)) and n2[0] == "if" for e2, n2 in seq)
            if not used:
                continue
            n += 1
            key = "OLDLEN:%s:%s" % (f.name, fld[1])
            early = [j for j, fl in copies if fl == fld and j < i]
            if early:
                ctx.violated("OLDLEN", key, f.where(node_line(nd)), "`%s` measures %s after the new string has been copied into it: it equals the new length, `new_h_sz` is never set for a longer string, and the longer header cannot be written at detach" % (loc, fld[1]))
            else:
                ctx.holds("OLDLEN", key, f.where(node_line(nd)), "the current length of %s is measured before the new string is copied over it" % fld[1], nontrivial=True)
    ctx.floor("OLDLEN", 2, n, "(current-length measurements that decide new_h_sz)")
    return n


# ---------------------------------------------------------------------------------------------------------------------
def rule_redefinition_replaces(ctx):
    """REDEFINE (C07): VSfdefine keeps user field definitions in a table that every later lookup scans from the front.  A second
    definition of a name must therefore *replace* the stored one whenever it differs from it in any attribute — type or order;
    appended behind it, the new definition is never found and the caller's records are packed with the old layout.  The guard
    of `replacesym = 1` is evaluated for 'only the type differs' and 'only the order differs': it must hold in both."""
    from .rules_coders import _eval_guard
    prog = ctx.prog
    f = prog.func("VSfdefine")
    if f is None or not f.raw.get("ast"):
        ctx.unrecognised("REDEFINE", "REDEFINE:VSfdefine", "-", "VSfdefine not found")
        return 0
    guards = []

    def vis(nd, st):
        if nd[0] == "if":
            for e, _n in seq_of(nd[2]):
                for x in walk(e, True):
                    if x[0] == "asg" and x[1] == "=" and kind(strip(x[2])) == "var" and strip(x[2])[1].startswith("replace") and is_int(x[3], 1):
                        if not any(g is nd for g in guards) and all(s_[0] != "if" or s_ is nd or "strcmp" in render(s_[1]) for s_ in st):
                            guards.append(nd)
        return True

    ast_walk(f.raw["ast"], vis)
    guards = [g for g in guards if "strcmp" not in render(g[1])]
    n = 0
    for g in guards:
        n += 1
        key = "REDEFINE:VSfdefine#%d" % n
        line = node_line(g)
        res = []
        for what, tv, ov in (("only the type differs", (1, 2), (5, 5)), ("only the order differs", (1, 1), (5, 6))):
            def val(leaf, tv=tv, ov=ov):
                if kind(leaf) == "var":
                    if "type" in leaf[1]:
                        return tv[0]
                    if "order" in leaf[1]:
                        return ov[0]
                if kind(leaf) == "mem":
                    if leaf[2] == "type":
                        return tv[1]
                    if leaf[2] == "order":
                        return ov[1]
                return None
            res.append((what, _eval_guard(g[1], val)))
        bad = [w for w, v in res if v != 1]
        if bad:
            ctx.violated("REDEFINE", key, f.where(line), "the stored definition is not replaced when %s (`%s`): the new definition is appended behind it and never found" % (" or when ".join(bad), render(g[1])[:80]))
        else:
            ctx.holds("REDEFINE", key, f.where(line), "a definition of the same name is replaced when the type or the order differs", nontrivial=True)
    ctx.floor("REDEFINE", 1, n, "(replacement tests in VSfdefine)")
    return n


# ---------------------------------------------------------------------------------------------------------------------
def rule_search_flag_reset(ctx, dirs=None, floor=8):
    """SEARCHFLAG: the nested-search idiom — for every item of an outer loop an inner loop looks the item up and sets a flag on a
    match, and behind the inner loop the outer body tests the flag ("not found: add it").  The flag describes the *current* item
    only if the outer body (or the inner loop's header) gives it its start value before the inner loop; initialised once before
    the outer loop, the first match makes every later item count as found, and what should have been done for them is skipped."""
    prog = ctx.prog
    n = 0
    occ = {}

    def reads(e):
        return {x[1] for x in walk(e, True) if x[0] == "var"}

    for f in prog.funcs:
        if dirs and not f.rel.startswith(tuple(dirs)):
            continue
        for lp, _st in loops_of(f):
            body = loop_body(lp)
            kids = body[1] if body and body[0] == "block" else [body]
            for ki, kid in enumerate(kids):
                if kid[0] not in ("for", "while", "do"):
                    continue
                flags = set()
                for e, _n in seq_of(loop_body(kid)):
                    for x in walk(e, True):
                        if x[0] == "asg" and x[1] == "=" and kind(strip(x[2])) == "var" and is_int(x[3]) and int_val(x[3]) != 0:
                            flags.add(strip(x[2])[1])
                for v in sorted(flags):
                    later = [k2 for k2 in kids[ki + 1:] if k2[0] == "if" and v in reads(k2[1])]
                    if not later:
                        continue
                    reset = False
                    for k0 in kids[:ki]:
                        if k0[0] == "s":
                            if kind(k0[1]) == "decl":
                                reset = reset or any(d[0] == v and d[2] is not None for d in k0[1][1])
                            else:
                                reset = reset or any(x[0] == "asg" and x[1] == "=" and kind(strip(x[2])) == "var" and strip(x[2])[1] == v for x in walk(k0[1], True))
                    if kid[0] == "for" and kid[1] is not None:
                        reset = reset or any(x[0] == "asg" and x[1] == "=" and kind(strip(x[2])) == "var" and strip(x[2])[1] == v for x in walk(kid[1], True))
                    n += 1
                    key = "SEARCHFLAG:%s:%s" % (f.name, v)
                    occ[key] = occ.get(key, 0) + 1
                    if occ[key] > 1:
                        key += "#%d" % occ[key]
                    if reset:
                        ctx.holds("SEARCHFLAG", key, f.where(node_line(kid)), "`%s` gets its start value in every pass of the outer loop before the inner search" % v, nontrivial=True)
                    else:
                        ctx.violated("SEARCHFLAG", key, f.where(node_line(kid)), "the inner search sets `%s` on a match and the outer loop tests it afterwards, but no pass of the outer loop gives `%s` its start value: after the first match every later item counts as found" % (v, v))
    ctx.floor("SEARCHFLAG", floor, n, "(nested searches with a found-flag tested behind the inner loop)")
    return n


# ---------------------------------------------------------------------------------------------------------------------
FILE_UNIT_FIELDS = {"isize", "ivsize", "off"}
USER_UNIT_FIELDS = {"esize"}


def rule_buffer_units(ctx, funcs=("VSread", "VSwrite")):
    """UNITS (C07): VSread/VSwrite move records between two buffers measured in different units: the caller's buffer holds machine
    values (field size `esize`), the transfer buffer holds file values (field size `isize`, record size `ivsize`, field offset
    `off`).  The two sizes differ whenever a field's machine type is wider than its file type.  Every advance of a pointer into
    the caller's buffer must therefore be computed from machine sizes only, and every advance of a pointer into the transfer
    buffer from file sizes only; an advance in the other buffer's unit walks off the records as soon as the sizes differ.
    (Provenance is flow-insensitive over the routine's locals; a local that receives both units is 'mixed' and decides nothing.)"""
    prog = ctx.prog
    n = 0
    for fn in funcs:
        f = prog.func(fn)
        if f is None:
            ctx.unrecognised("UNITS", "UNITS:%s" % fn, "-", "%s not found" % fn)
            continue
        params = [q[0] for q in f.params]
        user_roots = {q[0] for q in f.params if "*" in (q[1] if len(q) > 1 else "") and q[0] not in ("fields",)}
        file_roots = {"Vtbuf"}
        asg = []
        for _b, _i, s, x in f.nodes(True):
            if x[0] == "asg" and kind(strip(x[2])) == "var":
                asg.append((strip(x[2])[1], x[1], x[3], s.get("l", f.line)))
            elif x[0] == "decl":
                for d in x[1]:
                    if d[2] is not None:
                        asg.append((d[0], "=", d[2], s.get("l", f.line)))

        def units_of(e, prov):
            """unit provenance with one piece of dimension algebra: bytes / record-size is a count"""
            e = strip(e)
            k = kind(e)
            if k == "var":
                return set(prov.get(e[1], ()))
            if k == "mem":
                if e[2] in FILE_UNIT_FIELDS:
                    return {"file"}
                if e[2] in USER_UNIT_FIELDS:
                    return {"user"}
                return set()
            if k == "idx":
                return units_of(e[1], prov)
            if k == "bin":
                if e[1] == "/":
                    return set() if units_of(e[3], prov) else units_of(e[2], prov)
                if e[1] in ("+", "-", "*"):
                    return units_of(e[2], prov) | units_of(e[3], prov)
                return set()
            if k == "call":
                u = set()
                for a in e[3]:
                    u |= units_of(a, prov)
                return u
            if k == "cond":
                u = set()
                for a in e[1:]:
                    if isinstance(a, list):
                        u |= units_of(a, prov) if kind(a) else set()
                return u
            if k == "asg":
                return units_of(e[3], prov)
            return set()

        # fixpoint: unit provenance of integer locals, root buffer of pointer locals
        prov, root = {}, {}
        for v in user_roots:
            root[v] = {"user"}
        for v in file_roots:
            root[v] = {"file"}
        for _ in range(6):
            for v, op, rhs, _l in asg:
                b = base_var(rhs) if kind(strip(rhs)) in ("var", "bin", "cast", "idx", "addr") else None
                # pointer locals: take the buffer of the pointer operand
                ptrs = {y[1] for y in walk(rhs, True) if y[0] == "var" and y[1] in root}
                if ptrs and op == "=":
                    for p_ in ptrs:
                        root.setdefault(v, set()).update(root[p_])
                    continue
                if v in root:
                    continue
                u = units_of(rhs, prov)
                if u:
                    prov.setdefault(v, set()).update(u)
        occ = {}
        for v, op, rhs, line in asg:
            if v not in root or len(root[v]) != 1:
                continue
            want = next(iter(root[v]))
            if op == "+=":
                amount = rhs
            elif op == "=" and kind(strip(rhs)) == "bin" and strip(rhs)[1] == "+":
                r = strip(rhs)
                sides = [r[2], r[3]]
                ptr_side = [s_ for s_ in sides if any(y[0] == "var" and y[1] in root for y in walk(s_, True))]
                if len(ptr_side) != 1:
                    continue
                amount = sides[1] if ptr_side[0] is sides[0] else sides[0]
            else:
                continue
            u = units_of(amount, prov)
            if not u:
                continue  # a pure count or constant
            n += 1
            key = "UNITS:%s:%s" % (fn, v)
            occ[key] = occ.get(key, 0) + 1
            if occ[key] > 1:
                key += "#%d" % occ[key]
            other = "file" if want == "user" else "user"
            if u == {want}:
                ctx.holds("UNITS", key, f.where(line), "`%s` (into the %s buffer) advances by `%s`, a %s-unit amount" % (v, "caller's" if want == "user" else "transfer", render(amount)[:50], want), nontrivial=True)
            elif u == {other}:
                ctx.violated("UNITS", key, f.where(line), "`%s` points into the %s buffer but is advanced by `%s`, which is computed from %s sizes: the two differ whenever a field's machine size is not its file size" %
                             (v, "caller's" if want == "user" else "transfer", render(amount)[:60], "file" if other == "file" else "machine"))
            else:
                ctx.excepted("UNITS", key, f.where(line), "`%s` mixes both units in this routine (flow-insensitive provenance): not decided" % render(amount)[:50])
    ctx.floor("UNITS", 10, n, "(pointer advances in VSread/VSwrite with a unit)")
    return n


def _size_name(f, e):
    """a size operand by what it measures: a local that is only ever loaded from one record field is named by that field, so
    that `esize` and `(int)w->esize[j]` are the same quantity"""
    e = strip(e)
    if kind(e) in ("mem", "idx") and mem_field(e if kind(e) == "mem" else e[1]):
        return (mem_field(e if kind(e) == "mem" else e[1]))[1]
    if kind(e) == "var":
        flds = set()
        other = False
        for _b, _i, _s, x in f.nodes(True):
            if x[0] == "asg" and x[1] == "=" and kind(strip(x[2])) == "var" and strip(x[2])[1] == e[1]:
                r = strip(x[3])
                r = r[1] if kind(r) == "idx" else r
                if mem_field(r):
                    flds.add(mem_field(r)[1])
                else:
                    other = True
        if len(flds) == 1 and not other:
            return next(iter(flds))
    return render(e)


def rule_record_skip_siblings(ctx, funcs=("VSread", "VSwrite")):
    """SKIPSIB (C07): when one side of a Vdata transfer is field-major (NO_INTERLACE) the routines copy one component of a field for
    all records and then step to the next component: inside the per-record loop the field-major pointer advances by one component,
    and after the loop it is moved on by `(nelt - 1) * <size of the whole field>` to reach the next component's first record.
    VSread and VSwrite contain this re-positioning four times, for the same buffer layout; all copies must skip by the same
    quantity.  A copy that skips by another amount interleaves the components of multi-order fields wrongly."""
    prog = ctx.prog
    sites = []
    for fn in funcs:
        f = prog.func(fn)
        if f is None:
            ctx.unrecognised("SKIPSIB", "SKIPSIB:%s" % fn, "-", "%s not found" % fn)
            continue
        k = 0
        for _b, _i, s, x in sorted(f.nodes(True), key=lambda t: t[2].get("l", 0)):
            if x[0] == "asg" and x[1] == "+=" and kind(strip(x[2])) == "var":
                a = strip(x[3])
                if kind(a) == "bin" and a[1] == "*":
                    for cnt, sz in ((strip(a[2]), a[3]), (strip(a[3]), a[2])):
                        if kind(cnt) == "bin" and cnt[1] == "-" and is_int(cnt[3], 1) and kind(strip(cnt[2])) == "var":
                            k += 1
                            sites.append((fn, k, f, s.get("l", f.line), strip(x[2])[1], _size_name(f, sz)))
    by = {}
    for fn, k, f, line, ptr, sz in sites:
        by.setdefault(sz, []).append((fn, k, f, line, ptr))
    major = max(by.items(), key=lambda kv: len(kv[1]))[0] if by else None
    # a sibling that re-positions by the full record count (`ptr += nelt * size`) instead of (count - 1): the same step with the
    # wrong multiplier
    cntvars = set()
    for fn in funcs:
        f = prog.func(fn)
        if f is None:
            continue
        for _b, _i, s, x in f.nodes(True):
            if x[0] == "asg" and x[1] == "+=" and kind(strip(x[3])) == "bin" and strip(x[3])[1] == "*":
                a = strip(x[3])
                for cnt, sz in ((strip(a[2]), a[3]), (strip(a[3]), a[2])):
                    if kind(cnt) == "bin" and cnt[1] == "-" and is_int(cnt[3], 1) and kind(strip(cnt[2])) == "var":
                        cntvars.add(strip(cnt[2])[1])
    extra = 0
    for fn in funcs:
        f = prog.func(fn)
        if f is None:
            continue
        for _b, _i, s, x in sorted(f.nodes(True), key=lambda t: t[2].get("l", 0)):
            if x[0] == "asg" and x[1] == "+=" and kind(strip(x[2])) == "var" and kind(strip(x[3])) == "bin" and strip(x[3])[1] == "*":
                a = strip(x[3])
                for cnt, sz in ((strip(a[2]), a[3]), (strip(a[3]), a[2])):
                    if kind(cnt) == "var" and cnt[1] in cntvars and _size_name(f, sz) == major and any(p_ == strip(x[2])[1] for _fn, _k, _f, _l, p_ in by.get(major, [])):
                        extra += 1
                        ctx.violated("SKIPSIB", "SKIPSIB:%s:full#%d" % (fn, extra), f.where(s.get("l", f.line)), "`%s` is re-positioned by `%s` x `%s`; its sibling copies skip (%s - 1) x `%s`: the next component starts one whole field too far" % (strip(x[2])[1], cnt[1], major, cnt[1], major))
    for fn, k, f, line, ptr, sz in sites:
        key = "SKIPSIB:%s#%d" % (fn, k)
        if sz == major:
            ctx.holds("SKIPSIB", key, f.where(line), "`%s` skips (records - 1) x `%s` like the other copies" % (ptr, sz), nontrivial=True)
        else:
            ctx.violated("SKIPSIB", key, f.where(line), "`%s` skips (records - 1) x `%s`; the %d sibling copies of this re-positioning skip by `%s`" % (ptr, sz, len(by[major]), major))
    ctx.floor("SKIPSIB", 4, len(sites) + extra, "(field-major re-positioning steps in VSread/VSwrite)")
    return len(sites) + extra


def rule_cursor_advances_with_use(ctx):
    """USEADV (C15): the old-style SDS group stores the scales of a data set in one record: a presence byte per dimension, then the
    values of those dimensions that have any.  hdf_read_ndgs walks that record with a cursor: for a dimension with values it
    records the cursor as the coordinate variable's `data_offset` and moves the cursor over the values.  Use and advance belong
    to the same guarded arm — a dimension without values occupies no bytes, so a cursor advanced for it as well points every
    later scale at the wrong bytes (and a cursor not advanced after a use makes two scales overlap)."""
    prog = ctx.prog
    f = prog.func("hdf_read_ndgs")
    if f is None or not f.raw.get("ast"):
        ctx.unrecognised("USEADV", "USEADV:hdf_read_ndgs", "-", "hdf_read_ndgs not found")
        return 0
    uses, advs = [], []

    def vis(nd, st):
        if nd[0] != "s":
            return True
        inner = [s_ for s_ in st if s_[0] == "if"]
        arm = None
        if inner:
            i = max(k for k, s_ in enumerate(st) if s_[0] == "if")
            chain = st + [nd]
            arm = (id(st[i]), chain[i + 1] is st[i][2])
        for x in walk(nd[1], True):
            if x[0] == "asg" and x[1] == "=" and (mem_field(x[2]) or (0, 0))[1] == "data_offset" and kind(strip(x[3])) == "var":
                uses.append((strip(x[3])[1], arm, node_line(nd)))
            elif x[0] == "asg" and x[1] == "+=" and kind(strip(x[2])) == "var":
                advs.append((strip(x[2])[1], arm, node_line(nd)))
        return True

    ast_walk(f.raw["ast"], vis)
    cursors = {v for v, _a, _l in uses}
    n = 0
    for v in sorted(cursors):
        u_arms = {a for vv, a, _l in uses if vv == v}
        a_list = [(a, l) for vv, a, l in advs if vv == v]
        n += 1
        key = "USEADV:hdf_read_ndgs:%s" % v
        if not a_list:
            ctx.violated("USEADV", key, f.where(), "the cursor `%s` is recorded as a data offset but never advanced: all scales would start at the same byte" % v)
            continue
        stray = [(a, l) for a, l in a_list if a not in u_arms]
        missing = [a for a in u_arms if a not in {a2 for a2, _l in a_list}]
        if stray:
            ctx.violated("USEADV", key, f.where(stray[0][1]), "the cursor `%s` is advanced outside the guarded arm that records it as a data offset: it also moves for dimensions that have no values in the record" % v)
        elif missing:
            ctx.violated("USEADV", key, f.where(), "the cursor `%s` is recorded as a data offset in an arm that does not advance it: the next scale overlaps this one" % v)
        else:
            ctx.holds("USEADV", key, f.where(a_list[0][1]), "`%s` is advanced exactly in the arm(s) that record it as a data offset" % v, nontrivial=True)
    ctx.floor("USEADV", 1, n, "(record cursors stored as data offsets)")
    return n


# ---------------------------------------------------------------------------------------------------------------------
def rule_cursor_advanced_by_copy(ctx):
    """CURSORADV (C05, C01): decoders and the buffered element keep a cursor into their buffer in a record field and copy with
    `memcpy(dst, &buffer[cursor], n)` (or the other way round).  Behind each such copy, in the same block, the cursor is moved on
    by exactly the n bytes that were copied — `cursor += n`.  A cursor that is *set* to n instead is right only for the first copy
    out of a buffer; the third piecewise read of one buffered stretch returns bytes that were already delivered."""
    prog = ctx.prog
    n = 0
    for f in prog.lib_funcs():
        ast = f.raw.get("ast")
        if not ast:
            continue
        written = {mem_field(x[2]) for _b, _i, _s, x in f.nodes(True) if x[0] == "asg" and mem_field(x[2])}
        blocks = []
        ast_walk(ast, lambda nd, st: (blocks.append(nd) if nd[0] == "block" else None, True)[1])
        for b in blocks:
            kids = b[1]
            for i, k in enumerate(kids):
                if k[0] != "s":
                    continue
                for c in calls_in(k[1], True):
                    if c[1] not in ("memcpy", "memmove") or len(c[3]) < 3:
                        continue
                    for a in c[3][:2]:
                        a = strip(a)
                        cur = None
                        if kind(a) == "addr" and kind(strip(a[1])) == "idx":
                            cur = strip(strip(a[1])[2])
                        elif kind(a) == "bin" and a[1] == "+":
                            cur = strip(a[3])
                        if cur is None or kind(cur) != "mem" or mem_field(cur) not in written:
                            continue
                        ln = render(strip(c[3][2]))
                        n += 1
                        key = "CURSORADV:%s:%s" % (f.name, cur[2])
                        ok = False
                        wrong = None
                        for k2 in kids[i + 1:]:
                            if k2[0] != "s":
                                continue
                            for x in walk(k2[1], True):
                                if x[0] == "asg" and mem_field(x[2]) == mem_field(cur):
                                    if x[1] == "+=" and render(strip(x[3])) == ln:
                                        ok = True
                                    elif x[1] == "=" and kind(strip(x[3])) == "bin" and strip(x[3])[1] == "+" and \
                                            {render(strip(strip(x[3])[2])), render(strip(strip(x[3])[3]))} == {render(cur), ln}:
                                        ok = True  # cursor = cursor + n
                                    elif wrong is None:
                                        wrong = render(x)
                            if ok or wrong:
                                break
                        if ok:
                            ctx.holds("CURSORADV", key, f.where(node_line(k)), "`%s` is advanced by the `%s` bytes just copied" % (render(cur), ln), nontrivial=True)
                        else:
                            ctx.violated("CURSORADV", key, f.where(node_line(k)), "after copying `%s` bytes through `%s` the cursor is %s: the next copy out of this buffer does not start behind the bytes already delivered" %
                                         (ln, render(cur), ("changed by `%s`" % wrong[:60]) if wrong else "not advanced"))
    ctx.floor("CURSORADV", 4, n, "(copies through a cursor field)")
    return n


# ---------------------------------------------------------------------------------------------------------------------
def rule_last_block_needs_no_successor(ctx):
    """LASTBLOCK (C02): HLgetdatainfo reports offset and length of every data block of a linked-block element.  All blocks are full
    except the last one of the *element*, whose real length is `total_length - <length accumulated so far>`.  A block is the last
    of the element only if its block table has no successor table (`nextref == 0`); the last slot of a table that has a successor
    is an ordinary full block.  The statement that replaces a block's length by `total - accumulated` must therefore sit under a
    test of the table's `nextref`; without it every table's last block of a multi-table element gets a wrong (even negative)
    length."""
    prog = ctx.prog
    f = prog.func("HLgetdatainfo")
    if f is None or not f.raw.get("ast"):
        ctx.unrecognised("LASTBLOCK", "LASTBLOCK:HLgetdatainfo", "-", "HLgetdatainfo not found")
        return 0
    # locals loaded from the `nextref` field
    nxt = set()
    for _b, _i, _s, x in f.nodes(True):
        if x[0] == "decl":
            for d in x[1]:
                if d[2] is not None and (mem_field(d[2]) or (0, 0))[1] == "nextref":
                    nxt.add(d[0])
        elif x[0] == "asg" and x[1] == "=" and kind(strip(x[2])) == "var" and (mem_field(x[3]) or (0, 0))[1] == "nextref":
            nxt.add(strip(x[2])[1])
    accum = set()
    for _b, _i, _s, x in f.nodes(True):
        if x[0] == "asg" and kind(strip(x[2])) == "var":
            v = strip(x[2])[1]
            if x[1] == "+=" or (x[1] == "=" and kind(strip(x[3])) == "bin" and strip(x[3])[1] == "+" and any(y[0] == "var" and y[1] == v for y in walk(x[3], True))):
                accum.add(v)
    sites = []

    def vis(nd, st):
        if nd[0] == "s":
            for x in walk(nd[1], True):
                if x[0] == "asg" and x[1] == "=" and kind(strip(x[3])) == "bin" and strip(x[3])[1] == "-" and kind(strip(strip(x[3])[3])) == "var" and strip(strip(x[3])[3])[1] in accum:
                    sites.append((nd, list(st)))
        return True

    ast_walk(f.raw["ast"], vis)
    n = 0
    for nd, st in sites:
        n += 1
        key = "LASTBLOCK:HLgetdatainfo#%d" % n
        ok = False
        for s_ in st:
            if s_[0] == "if":
                for y in walk(s_[1], True):
                    if (y[0] == "var" and y[1] in nxt) or (y[0] == "mem" and y[2] == "nextref"):
                        ok = True
        if ok:
            ctx.holds("LASTBLOCK", key, f.where(node_line(nd)), "the 'total - accumulated' length is used only under a test of the table's successor link", nontrivial=True)
        else:
            ctx.violated("LASTBLOCK", key, f.where(node_line(nd)), "a block's length is replaced by `total - accumulated` without a test of the table's `nextref`: the last slot of every table that has a successor is taken for the last block of the element")
    ctx.floor("LASTBLOCK", 1, n, "(corrections of a block length from the element total)")
    return n


# ---------------------------------------------------------------------------------------------------------------------
def rule_member_refs_reset_per_group(ctx):
    """ITEMREF (C15): hdf_read_ndgs turns every old-style data group into a variable.  For each group it walks the members (DFdiget) and
    notes the references of the optional ones — label, unit, format strings, scales, data — in locals that are used after the
    walk.  A group that lacks a member must not see the previous group's reference: every local that receives a member
    reference inside the walk is given its start value in the per-group loop, before the walk.  Cleared once before that loop
    instead, the second data set inherits the first one's label, unit and format."""
    prog = ctx.prog
    f = prog.func("hdf_read_ndgs")
    if f is None or not f.raw.get("ast"):
        ctx.unrecognised("ITEMREF", "ITEMREF:hdf_read_ndgs", "-", "hdf_read_ndgs not found")
        return 0
    n = 0
    for lp, st in loops_of(f):
        body = loop_body(lp)
        # is this the member walk?  its condition or body calls DFdiget(.., &T, &R)
        R = None
        exprs = [e for e, _n in seq_of(body)]
        if lp[0] in ("while",) and lp[1] is not None:
            exprs.append(lp[1])
        for e in exprs:
            for c in calls_in(e, True):
                if c[1] == "DFdiget" and len(c[3]) > 2 and kind(strip(c[3][2])) == "addr" and kind(strip(strip(c[3][2])[1])) == "var":
                    R = strip(strip(c[3][2])[1])[1]
        if R is None:
            continue
        inner_has = any(any(c[1] == "DFdiget" for e, _n in seq_of(loop_body(l2)) for c in calls_in(e, True)) or (l2[0] == "while" and l2[1] is not None and any(c[1] == "DFdiget" for c in calls_in(l2[1], True)))
                        for l2, s2 in loops_of(f) if any(s is lp for s in s2))
        if inner_has:
            continue  # an enclosing loop: handled as the outer loop of the walk below
        refs = set()
        for e, _n in seq_of(body):
            for x in walk(e, True):
                if x[0] == "asg" and x[1] == "=" and kind(strip(x[2])) == "var" and kind(strip(x[3])) == "var" and strip(x[3])[1] == R:
                    refs.add(strip(x[2])[1])
        outer = [s_ for s_ in st if s_[0] in ("for", "while", "do")]
        if not refs or not outer:
            continue
        ob = loop_body(outer[-1])
        kids = ob[1] if ob and ob[0] == "block" else [ob]
        # the child of the outer body that contains the walk
        pos = None
        for i, k in enumerate(kids):
            hit = []
            ast_walk(k, lambda nd, s9: (hit.append(1) if nd is lp else None, True)[1])
            if hit:
                pos = i
        if pos is None:
            continue
        for v in sorted(refs):
            n += 1
            key = "ITEMREF:hdf_read_ndgs:%s" % v
            reset = False
            for k0 in kids[:pos]:
                if k0[0] == "s":
                    for x in walk(k0[1], True):
                        if x[0] == "asg" and x[1] == "=" and kind(strip(x[2])) == "var" and strip(x[2])[1] == v:
                            reset = True
            if reset:
                ctx.holds("ITEMREF", key, f.where(node_line(lp)), "`%s` gets its start value for every group before the member walk" % v, nontrivial=True)
            else:
                ctx.violated("ITEMREF", key, f.where(node_line(lp)), "`%s` receives a member reference inside the walk over a group's members and is used afterwards, but the per-group loop does not give it a start value: a group without that member inherits the previous group's reference" % v)
    ctx.floor("ITEMREF", 4, n, "(locals that receive a member reference in the group walk)")
    return n


# ---------------------------------------------------------------------------------------------------------------------
def rule_read_list_required(ctx):
    """READLIST (C07): VSread copies, for each field of the *read list* (`rlist`, filled by VSsetfields on a read attachment), the
    values of that field into the caller's buffer; all its multi-field loops run `j < r->n`.  With an empty read list — VSsetfields
    was only called while the vdata was attached for writing — the loops do nothing, and the routine would return the record
    count with the caller's buffer untouched.  VSread therefore tests the read list's field count and fails before it reads."""
    prog = ctx.prog
    f = prog.func("VSread")
    if f is None:
        ctx.unrecognised("READLIST", "READLIST:VSread", "-", "VSread not found")
        return 0
    loops = 0
    for b in f.blocks.values():
        t = b.get("term")
        if t and t.get("cond") is not None:
            c = strip(t["cond"])
            if kind(c) == "bin" and c[1] == "<" and (mem_field(c[3]) or (0, 0))[1] == "n" and base_var(c[3]) == "r":
                loops += 1
    tested = False
    for b in f.blocks.values():
        t = b.get("term")
        if t and t.get("cond") is not None:
            for c in walk(t["cond"], True):
                if c[0] == "bin" and c[1] in ("<=", "==", "<") and (mem_field(c[2]) or (0, 0))[1] == "n" and "rlist" in render(c[2]) and is_int(c[3]):
                    tested = True
    key = "READLIST:VSread"
    if tested:
        ctx.holds("READLIST", key, f.where(), "the read list's field count is tested before the %d loops that run over it" % loops, nontrivial=True)
    else:
        ctx.violated("READLIST", key, f.where(), "VSread runs %d loops over the read list (`j < r->n`) and never tests that the list is non-empty: with no fields selected for reading it copies nothing and reports success" % loops)
    ctx.floor("READLIST", 3, loops, "(loops of VSread over the read list)")
    return 1


# ---------------------------------------------------------------------------------------------------------------------
def rule_read_list_indirection(ctx, files=("hdf/src/vrw.c",)):
    """IDXMAP (C07): the fields selected for reading are kept as a list of indices into the stored field table: `r->item[j]`, j < r->n,
    names the j-th requested field among the stored ones (`w->esize[]`, `w->isize[]`, `w->off[]`, `w->type[]`, `w->order[]`).  In a loop
    over the read list (`j < r->n`) the stored-field tables are therefore indexed through `r->item[j]` (directly or via a local
    loaded from it) — never with the bare position j, which names the j-th *stored* field: that is the same field only when the
    request is a prefix of the stored fields in stored order."""
    prog = ctx.prog
    n = 0
    for f in prog.lib_funcs():
        if not f.rel.endswith(tuple(files)) or not f.raw.get("ast"):
            continue
        k = 0
        for lp, _st in loops_of(f):
            if lp[0] != "for" or lp[2] is None:
                continue
            c = strip(lp[2])
            if not (kind(c) == "bin" and c[1] == "<" and kind(strip(c[2])) == "var" and kind(strip(c[3])) == "mem" and strip(c[3])[2] == "n" and base_var(c[3]) == "r"):
                continue
            jv = strip(c[2])[1]
            exprs = [e for e, _n in seq_of(lp[4])] + [x for x in (lp[1], lp[3]) if x is not None]
            bad = []
            uses = 0
            for e in exprs:
                for x in walk(e, True):
                    if x[0] == "idx" and kind(strip(x[1])) == "mem" and base_var(x[1]) == "w":
                        uses += 1
                        ix = strip(x[2])
                        if kind(ix) == "var" and ix[1] == jv:
                            bad.append(render(x))
            if not uses:
                continue
            k += 1
            n += 1
            key = "IDXMAP:%s#%d" % (f.name, k)
            if bad:
                ctx.violated("IDXMAP", key, f.where(node_line(lp)), "in a loop over the read list (`%s < r->n`) the stored-field table is indexed with the list position: `%s` — the size/offset of the wrong field is used unless the request is a prefix of the stored fields" % (jv, bad[0]))
            else:
                ctx.holds("IDXMAP", key, f.where(node_line(lp)), "stored-field tables are indexed through r->item[%s] in this loop over the read list" % jv, nontrivial=True)
    ctx.floor("IDXMAP", 4, n, "(loops over the read list that use the stored-field tables)")
    return n


def rule_matched_index_used(ctx, files=("hdf/src/vg.c", "hdf/src/vsfld.c", "hdf/src/vrw.c", "hdf/src/vio.c")):
    """MATCHIDX (C07): looking a field up by name is a scan `for (j ..) if (!strcmp(wanted, table.name[j]))`; what is then taken from
    the sibling tables of `table` (esize, isize, type, order, off) is the entry of the *matched* position j.  Inside the arm of
    such a match every index into a sibling table of the matched one is the index the match used, not the position in the
    caller's list of wanted names."""
    prog = ctx.prog
    n = 0
    occ = {}
    for f in prog.lib_funcs():
        if not f.rel.endswith(tuple(files)) or not f.raw.get("ast"):
            continue
        sites = []

        def vis(nd, st):
            if nd[0] == "if":
                for c in calls_in(nd[1], True):
                    if c[1] in ("strcmp", "strncmp", "HDstrcmp") and len(c[3]) >= 2:
                        for a in c[3][:2]:
                            a = strip(a)
                            if kind(a) == "idx" and kind(strip(a[1])) == "mem" and strip(a[1])[2] == "name" and kind(strip(a[2])) == "var":
                                sites.append((nd, strip(a[1])[1], strip(a[2])[1]))
                            elif kind(a) == "mem" and a[2] == "name" and kind(strip(a[1])) == "idx" and kind(strip(strip(a[1])[2])) == "var":
                                sites.append((nd, ("AOS", strip(strip(a[1])[1])), strip(strip(a[1])[2])[1]))
            return True

        ast_walk(f.raw["ast"], vis)
        for nd, rec, jv in sites:
            aos = isinstance(rec, tuple)
            recr = render(strip(rec[1] if aos else rec))
            uses, bad = 0, []
            for e, _n in seq_of(nd[2]):
                for x in walk(e, True):
                    if not aos and x[0] == "idx" and kind(strip(x[1])) == "mem" and render(strip(strip(x[1])[1])) == recr and strip(x[1])[2] != "name":
                        uses += 1
                        ix = strip(x[2])
                        if not (kind(ix) == "var" and ix[1] == jv):
                            bad.append(render(x))
                    elif aos and x[0] == "mem" and x[2] != "name" and kind(strip(x[1])) == "idx" and render(strip(strip(x[1])[1])) == recr:
                        uses += 1
                        ix = strip(strip(x[1])[2])
                        if not (kind(ix) == "var" and ix[1] == jv):
                            bad.append(render(x))
            if not uses:
                continue
            n += 1
            key = "MATCHIDX:%s:%s" % (f.name, recr[:20])
            occ[key] = occ.get(key, 0) + 1
            if occ[key] > 1:
                key += "#%d" % occ[key]
            if bad:
                ctx.violated("MATCHIDX", key, f.where(node_line(nd)), "the name matched at `%s.name[%s]`, but `%s` is taken at another index: the attribute of a different field is used" % (recr, jv, bad[0]))
            else:
                ctx.holds("MATCHIDX", key, f.where(node_line(nd)), "sibling tables of `%s` are read at the matched index `%s`" % (recr, jv), nontrivial=True)
    ctx.floor("MATCHIDX", 2, n, "(name matches that read sibling tables)")
    return n


# ---------------------------------------------------------------------------------------------------------------------
def _excludes_zero(cond, var, positive):
    """does `cond` being true establish var > 0 (positive=True: `var > 0`, `var != 0`, `var`, as a conjunct), or does cond
    being true cover var == 0 (positive=False: `var == 0`, `var <= 0`, `var < 1`, `!var`, as a disjunct)?"""
    c = strip(cond)
    if kind(c) == "bin" and c[1] == ("&&" if positive else "||"):
        return _excludes_zero(c[2], var, positive) or _excludes_zero(c[3], var, positive)

    def isv(e):
        e = strip(e)
        return kind(e) == "var" and e[1] == var

    if positive:
        if isv(c):
            return True
        if kind(c) == "bin":
            if isv(c[2]) and ((c[1] in (">", "!=") and is_int(c[3], 0)) or (c[1] == ">=" and is_int(c[3], 1))):
                return True
            if isv(c[3]) and ((c[1] in ("<", "!=") and is_int(c[2], 0)) or (c[1] == "<=" and is_int(c[2], 1))):
                return True
        return False
    if kind(c) == "un" and c[1] == "!" and isv(c[2]):
        return True
    if kind(c) == "bin":
        if isv(c[2]) and ((c[1] in ("==", "<=") and is_int(c[3], 0)) or (c[1] == "<" and is_int(c[3], 1))):
            return True
        if isv(c[3]) and ((c[1] in ("==", ">=") and is_int(c[2], 0)) or (c[1] == ">" and is_int(c[2], 1))):
            return True
    return False


def _terminates(nd):
    """does the statement (or block) always leave by return or goto?"""
    if nd is None:
        return False
    if nd[0] == "block":
        return bool(nd[1]) and _terminates(nd[1][-1])
    if nd[0] == "goto":
        return True
    if nd[0] == "do" and is_int(nd[2], 0):    # the do { .. } while (0) of the error macros
        return _terminates(nd[1])
    if nd[0] == "s":
        return kind(nd[1]) == "ret"
    if nd[0] == "if":
        return nd[3] is not None and _terminates(nd[2]) and _terminates(nd[3])
    return False


def rule_do_loop_entry(ctx, floor=4):
    """DOENTRY (C01, C03): `do { transfer(min(n, left)); left -= n; } while (left > 0)` runs its body once whatever `left` is.
    With left == 0 the body hands a length of 0 to the transferring call - and for Hread 0 means "everything up to the end of
    the element", so a read positioned at the end of a linked-block element copies a whole block into a buffer that was not
    sized for it.  Every do-loop that continues on `left > 0` is entered only where left is known to be positive: inside an
    `if (left > 0 ...)`, or after an `if (left == 0 / <= 0 ...)` that leaves the function, with no new value for left in
    between (a local freshly initialised from another variable inherits that variable's guard)."""
    prog = ctx.prog
    n = 0
    for f in prog.lib_funcs():
        occ = 0
        for lp, st in loops_of(f):
            if lp[0] != "do":
                continue
            c = strip(lp[2])
            if not (kind(c) == "bin" and c[1] == ">" and kind(strip(c[2])) == "var" and is_int(c[3], 0)):
                continue
            var = strip(c[2])[1]
            occ += 1
            n += 1
            key = "DOENTRY:%s:%s#%d" % (f.name, var, occ)
            line = node_line(lp)
            chain = st + [lp]
            names = {var}
            ok = None
            # walk outwards: statements before the loop, nearest first
            for lvl in range(len(chain) - 2, -1, -1):
                anc, child = chain[lvl], chain[lvl + 1]
                if anc[0] == "if":
                    if child is anc[2] and any(_excludes_zero(anc[1], v, True) for v in names):
                        ok = "inside `if (%s)`" % render(strip(anc[1]))[:60]
                        break
                    continue
                if anc[0] in ("for", "while", "do"):
                    break                     # the loop is re-entered from an enclosing loop: guards outside it say nothing
                if anc[0] != "block":
                    continue
                kids = anc[1]
                idx = next((i for i, k in enumerate(kids) if k is child), None)
                if idx is None:
                    continue
                stop = False
                for k in reversed(kids[:idx]):
                    if k[0] == "if" and _terminates(k[2]) and any(_excludes_zero(k[1], v, False) for v in names):
                        ok = "after `if (%s)` has left the function" % render(strip(k[1]))[:60]
                        break
                    # a new value for the variable: follow a plain copy, stop at anything else
                    for e, _nd in reversed(seq_of(k)):
                        for v in list(names):
                            if not redefines(e, v):
                                continue
                            src = None
                            for x in walk(e, True):
                                if x[0] == "asg" and x[1] == "=" and kind(strip(x[2])) == "var" and strip(x[2])[1] == v and kind(strip(x[3])) == "var":
                                    src = strip(x[3])[1]
                            if src and k[0] == "s":
                                names.discard(v)
                                names.add(src)
                            else:
                                stop = True
                        if kind(e) == "decl":
                            for d in e[1]:
                                if d[0] in names:
                                    if d[2] is not None and kind(strip(d[2])) == "var":
                                        names.discard(d[0])
                                        names.add(strip(d[2])[1])
                                    else:
                                        stop = True
                    if stop:
                        break
                if ok or stop:
                    break
            if ok:
                ctx.holds("DOENTRY", key, f.where(line), "`do .. while (%s > 0)` is entered %s" % (var, ok), nontrivial=True)
            else:
                ctx.violated("DOENTRY", key, f.where(line), "`do .. while (%s > 0)` is entered without `%s` being known positive: with 0 left its body still runs once and hands a length of 0 to the transfer (for Hread: the rest of the element)" % (var, var))
    ctx.floor("DOENTRY", floor, n, "(do-loops that continue while a remaining count is positive)")
    return n


def rule_member_scan_bound(ctx):
    """MEMBERSCAN (C17, C08): a Vgroup's members are numbered 0 .. Vntagrefs-1 and are visited with
    `for (i = 0; i < n; i++) Vgettagref(vg, i, ..)`.  The loop that indexes Vgettagref with its own counter runs to the member
    count itself - `i < n` with n a variable (or the Vntagrefs call), not `i < n - 1`, not `<=`: the clean-up of a Vgroup that
    leaves its last member standing keeps the old object's record in the file, and the rewrite that follows lands on it in
    place, ahead of the flush."""
    prog = ctx.prog
    n = 0
    for f in prog.funcs:
        k = 0
        for lp, st in loops_of(f):
            if lp[0] != "for" or lp[2] is None:
                continue
            idxs = set()
            for e, nd in seq_of(loop_body(lp)):
                for c in calls_in(e, True):
                    if c[1] == "Vgettagref" and len(c[3]) > 1 and kind(strip(c[3][1])) == "var":
                        idxs.add(strip(c[3][1])[1])
            if not idxs:
                continue
            # the loop's own counter: the variable its condition compares
            cmp_ = None
            for x in walk(lp[2], True):
                if x[0] == "bin" and x[1] in ("<", "<=", ">", ">=", "!=") and kind(strip(x[2])) == "var" and strip(x[2])[1] in idxs:
                    cmp_ = x
            if cmp_ is None:
                continue
            k += 1
            n += 1
            key = "MEMBERSCAN:%s#%d" % (f.name, k)
            line = node_line(lp)
            b = strip(cmp_[3])
            plain = kind(b) == "var" or (kind(b) == "call" and b[1] == "Vntagrefs") or kind(b) == "mem"
            if cmp_[1] == "<" and plain:
                ctx.holds("MEMBERSCAN", key, f.where(line), "members are visited while `%s`" % render(cmp_)[:50], nontrivial=True)
            else:
                ctx.violated("MEMBERSCAN", key, f.where(line), "the member loop runs while `%s`: its bound is not the member count itself, so the scan stops short of (or runs past) the last member" % render(cmp_)[:60])
    ctx.floor("MEMBERSCAN", 10, n, "(loops that index Vgettagref with their counter)")
    return n


def rule_member_search_forward(ctx):
    """FIRSTHIT (C08): a Vgroup's member list is ordered and may hold the same tag/ref more than once.  The routines that look
    for a pair and act on "the" match (delete it, report its position) mean the *first* one, as the comments say, so their
    search loop over `vg->tag[i]` / `vg->ref[i]` counts up from 0.  A loop that counts down acts on the last occurrence: the
    multiset of members stays right, their order does not."""
    prog = ctx.prog
    n = 0
    for f in prog.lib_funcs():
        if not f.rel.endswith(("hdf/src/vgp.c", "hdf/src/vg.c")):
            continue
        k = 0
        for lp, st in loops_of(f):
            if lp[0] != "for":
                continue
            # the loop compares both member arrays at its counter
            idx = {}
            for e, nd in seq_of(loop_body(lp)):
                for x in walk(e, True):
                    if x[0] == "bin" and x[1] == "==":
                        for s_ in (strip(x[2]), strip(x[3])):
                            if kind(s_) == "idx" and kind(strip(s_[1])) == "mem" and strip(s_[1])[2] in ("tag", "ref") and strip(s_[1])[3] in ("vgroup_desc", "VGROUP") and kind(strip(s_[2])) == "var":
                                idx.setdefault(strip(s_[2])[1], set()).add(strip(s_[1])[2])
            vs = [v for v, fs in idx.items() if fs == {"tag", "ref"}]
            if not vs:
                continue
            v = vs[0]
            k += 1
            n += 1
            key = "FIRSTHIT:%s#%d" % (f.name, k)
            line = node_line(lp)
            init, cond, step = lp[1], lp[2], lp[3]
            up = False
            if step is not None:
                for x in walk(step, True):
                    if x[0] == "incdec" and x[1] == "++" and kind(strip(x[3])) == "var" and strip(x[3])[1] == v:
                        up = True
                    if x[0] == "asg" and x[1] == "+=" and kind(strip(x[2])) == "var" and strip(x[2])[1] == v:
                        up = True
            zero = False
            if init is not None:
                for x in walk(init, True):
                    if x[0] == "asg" and x[1] == "=" and kind(strip(x[2])) == "var" and strip(x[2])[1] == v and is_int(x[3], 0):
                        zero = True
                    if x[0] == "decl":
                        for d in x[1]:
                            if d[0] == v and d[2] is not None and is_int(d[2], 0):
                                zero = True
            if up and zero:
                ctx.holds("FIRSTHIT", key, f.where(line), "the search over the member pairs counts `%s` up from 0: the first occurrence is the one found" % v, nontrivial=True)
            else:
                ctx.violated("FIRSTHIT", key, f.where(line), "the search over the member pairs does not count `%s` up from 0: with a pair that occurs more than once it acts on a later occurrence and the members end up in another order" % v)
    ctx.floor("FIRSTHIT", 3, n, "(searches for a tag/ref pair in a Vgroup's member list)")
    return n


def _dead_element_stores(block_kids):
    """[(line, array, index)] for `A[c] = ..;` that a later sibling loop `for (j = 0; ..; j++) A[j] = ..;` overwrites
    with no read of A in between"""
    out = []
    for i, k in enumerate(block_kids):
        if k[0] != "s" or kind(k[1]) != "asg" or k[1][1] != "=":
            continue
        t = strip(k[1][2])
        if not (kind(t) == "idx" and kind(strip(t[1])) == "var" and is_int(t[2])):
            continue
        arr, c = strip(t[1])[1], int_val(t[2])
        for later in block_kids[i + 1:]:
            if later[0] == "for":
                init, step, body = later[1], later[3], later[4]
                j = None
                if init is not None:
                    for x in walk(init, True):
                        if x[0] == "asg" and x[1] == "=" and kind(strip(x[2])) == "var" and is_int(x[3]) and int_val(x[3]) <= c:
                            j = strip(x[2])[1]
                ups = step is not None and any(x[0] == "incdec" and x[1] == "++" for x in walk(step, True))
                if j and ups:
                    kills = False
                    reads = False
                    for e, nd in seq_of(body):
                        for x in walk(e, True):
                            if x[0] == "asg" and x[1] == "=":
                                tt = strip(x[2])
                                if kind(tt) == "idx" and kind(strip(tt[1])) == "var" and strip(tt[1])[1] == arr and kind(strip(tt[2])) == "var" and strip(tt[2])[1] == j:
                                    kills = True
                                if any(y[0] == "var" and y[1] == arr for y in walk(x[3], True)):
                                    reads = True
                    if kills and not reads:
                        out.append((node_line(k), arr, c))
                    break
            # any other use of the array between the two ends the search
            used = False
            for e, nd in seq_of(later) if later[0] != "s" else [(later[1], later)]:
                if e is not None and any(y[0] == "var" and y[1] == arr for y in walk(e, True)):
                    used = True
            if used:
                break
    return out


def rule_no_dead_element_store(ctx):
    """DEADELEM (C18, C03): `a[0] = SPECIAL;` placed *before* `for (j = 0; j < n; j++) a[j] = b[j];` is overwritten by the
    loop's first iteration - the special value (SD_UNLIMITED for the record dimension of a copied data set) never reaches
    the call the array is built for.  No store to a constant element of a local array is followed, with no use of the array
    in between, by a loop that assigns every element from an index not above it.  The expected count is zero; the matcher is
    exercised on a built-in positive example on every run."""
    from .codec import ast_walk
    prog = ctx.prog
    ex = [["s", ["asg", "=", ["idx", ["var", "d", "l", "int[4]"], ["int", 0], "int"], ["int", 7], 1, "int"], 1, 1, []],
          ["for", ["asg", "=", ["var", "j", "l", "int"], ["int", 0], 2, "int"], ["bin", "<", ["var", "j", "l", "int"], ["var", "n", "l", "int"], "int"],
           ["incdec", "++", False, ["var", "j", "l", "int"], "int"],
           ["block", [["s", ["asg", "=", ["idx", ["var", "d", "l", "int[4]"], ["var", "j", "l", "int"], "int"], ["idx", ["var", "s", "l", "int[4]"], ["var", "j", "l", "int"], "int"], 3, "int"], 3, 1, []]], 2, 1, []], 2, 1, []]]
    if not _dead_element_stores(ex):
        ctx.unrecognised("DEADELEM", "DEADELEM:selftest", "-", "the matcher no longer recognises its built-in positive example")
    n = 0
    for f in prog.funcs:
        ast = f.raw.get("ast")
        if not ast:
            continue
        n += 1
        hits = []

        def vis(nd, st):
            if nd[0] == "block":
                hits.extend(_dead_element_stores(nd[1]))
            return True

        ast_walk(ast, vis)
        for line, arr, c in hits:
            ctx.violated("DEADELEM", "DEADELEM:%s:%s" % (f.name, arr), f.where(line), "`%s[%d] = ..` is overwritten by the loop that follows it before anything reads it: the value stored here never takes effect" % (arr, c))
    ctx.holds("DEADELEM", "DEADELEM:all", "-", "%d functions scanned: no constant-element store is killed by a following whole-array loop" % n, nontrivial=False)
    ctx.floor("DEADELEM", 500, n, "(functions scanned)")
    return n


def rule_single_field_stride(ctx):
    """ONEFIELD (C07): VSread serves a single-field Vdata without consulting the read list (`if (w->n == 1) DFKconvert(Vtbuf,
    Src, w->type[0], ..)`), which is why such a Vdata may be read without VSsetfields.  In the piece-wise loop the pointer into
    the caller's buffer is advanced by `chunk * uvsize`; since the single-field arm does not depend on the read list, the size
    it advances by must not either: `uvsize` has a definition under the same `w->n == 1` test.  Summed over an empty read list
    it is 0 and every piece of a request above VDATA_BUFFER_MAX lands at the start of the buffer."""
    from .codec import ast_walk
    prog = ctx.prog
    n = 0
    for f in prog.lib_funcs():
        ast = f.raw.get("ast")
        if not ast or not f.rel.endswith("hdf/src/vrw.c"):
            continue

        def is_single(c):
            for x in walk(c, True):
                if x[0] == "bin" and x[1] == "==":
                    for a_, b_ in ((x[2], x[3]), (x[3], x[2])):
                        if kind(strip(a_)) == "mem" and strip(a_)[2] == "n" and is_int(b_, 1):
                            return True
            return False

        for lp, st in loops_of(f):
            if lp[0] != "while":
                continue
            # the loop has an arm chosen by `w->n == 1` that converts straight into the cursor
            arm = False
            adv = None

            def vis(nd, s2):
                nonlocal arm, adv
                if nd[0] == "if" and nd[1] is not None and is_single(nd[1]) and any(c[1] == "DFKconvert" for e, _k in seq_of(nd[2]) for c in calls_in(e, True)):
                    arm = True
                if nd[0] == "s" and nd[1] is not None:
                    for x in walk(nd[1], True):
                        if x[0] == "asg" and x[1] == "+=" and kind(strip(x[2])) == "var" and kind(strip(x[3])) == "bin" and strip(x[3])[1] == "*":
                            vs_ = [y[1] for y in (strip(strip(x[3])[2]), strip(strip(x[3])[3])) if kind(y) == "var"]
                            if len(vs_) == 2:
                                adv = (strip(x[2])[1], vs_, nd)
                return True

            ast_walk(loop_body(lp), vis)
            if not (arm and adv):
                continue
            # of the two factors, the piece's record count is the one the loop also books on its own (`done += chunk`)
            counts = set()
            for e, _k in seq_of(loop_body(lp)):
                for x in walk(e, True):
                    if x[0] == "asg" and x[1] == "+=" and kind(strip(x[3])) == "var":
                        counts.add(strip(x[3])[1])
            sizes = [v for v in adv[1] if v not in counts]
            if len(sizes) != 1:
                continue
            adv = (adv[0], sizes, adv[2], adv[1])
            n += 1
            key = "ONEFIELD:%s:%s" % (f.name, adv[0])
            line = node_line(adv[2])
            # a definition of one of the two factors under a `w->n == 1` test, anywhere in the routine
            ok = False

            def vis2(nd, s2):
                nonlocal ok
                if nd[0] == "s" and nd[1] is not None:
                    for x in walk(nd[1], True):
                        if x[0] == "asg" and x[1] == "=" and kind(strip(x[2])) == "var" and strip(x[2])[1] in adv[1]:
                            if any(a[0] == "if" and a[1] is not None and is_single(a[1]) for a in s2):
                                ok = True
                return True

            ast_walk(ast, vis2)
            if ok:
                ctx.holds("ONEFIELD", key, f.where(line), "`%s += %s * %s`: the record size `%s` has a definition under the single-field test, independent of the read list" % (adv[0], adv[3][0], adv[3][1], adv[1][0]), nontrivial=True)
            else:
                ctx.violated("ONEFIELD", key, f.where(line), "`%s += %s * %s` in a loop whose single-field arm ignores the read list, but the record size `%s` is only ever summed over the read list: with no VSsetfields it is 0 and the cursor never moves" % (adv[0], adv[3][0], adv[3][1], adv[1][0]))
    ctx.floor("ONEFIELD", 1, n, "(piece-wise loops with a single-field arm)")
    return n


def rule_inner_accumulator_reset(ctx, files=("hdf/src/vrw.c",), floor=3):
    """ACCRESET (C07): VSread/VSwrite move a request in pieces (`while (done < nelt)`) and, inside each piece, walk the fields
    with a running byte offset into one user record (`for (j..) { src = Src + offset; ..; offset += esize; }`).  The offset
    describes a position inside *one* record, so it starts from 0 for every piece: the assignment that resets it stands inside
    the outer loop, before the field loop.  Hoisted in front of the outer loop it keeps growing, and from the second piece on
    every field is taken one record further down the caller's buffer."""
    prog = ctx.prog
    n = 0
    for f in prog.lib_funcs():
        if files and not f.rel.endswith(tuple(files)):
            continue
        loops = loops_of(f)
        for lp, st in loops:
            # inner loop: has an enclosing loop
            outer = [a for a in st if a[0] in ("for", "while", "do")]
            if not outer:
                continue
            o = outer[-1]
            acc = set()
            reads = set()
            for e, nd in seq_of(loop_body(lp)):
                for x in walk(e, True):
                    if x[0] == "asg" and x[1] == "+=" and kind(strip(x[2])) == "var":
                        acc.add(strip(x[2])[1])
                for x in walk(e, True):
                    if x[0] == "bin" and x[1] == "+":
                        for s_ in (strip(x[2]), strip(x[3])):
                            if kind(s_) == "var":
                                reads.add(s_[1])
            # the loop's own counter and the piece bookkeeping are not positions inside a record
            for v in sorted(acc & reads):
                # only accumulators that the outer loop does not itself advance (a cursor over the whole request is meant to persist)
                adv_outer = False
                for e, nd in seq_of(loop_body(o)):
                    if nd is lp:
                        continue
                inner_nodes = set(id(nd) for _e, nd in seq_of(loop_body(lp)))
                resets = []
                for e, nd in seq_of(loop_body(o)):
                    if id(nd) in inner_nodes:
                        continue
                    for x in walk(e, True):
                        if x[0] == "asg" and x[1] == "=" and kind(strip(x[2])) == "var" and strip(x[2])[1] == v:
                            resets.append(nd)
                        if x[0] == "asg" and x[1] in ("+=", "-=") and kind(strip(x[2])) == "var" and strip(x[2])[1] == v:
                            adv_outer = True
                if adv_outer:
                    continue
                # is v set before the outer loop at all (then it is meant as an accumulator of some kind)?
                n += 1
                key = "ACCRESET:%s:%s@%d" % (f.name, v, sum(1 for k_ in ctx.instances if k_.key.startswith("ACCRESET:%s:%s@" % (f.name, v))))
                line = node_line(lp)
                if resets:
                    ctx.holds("ACCRESET", key, f.where(line), "`%s` accumulates inside the field loop and is reset inside the enclosing loop, once per piece" % v, nontrivial=True)
                else:
                    ctx.violated("ACCRESET", key, f.where(line), "`%s` accumulates inside the inner loop and is read there, but nothing in the enclosing loop resets it: from the second pass of the outer loop on it starts where the previous pass left it" % v)
    ctx.floor("ACCRESET", floor, n, "(running offsets of an inner loop nested in a piece-wise loop)")
    return n


def rule_carried_index_reset(ctx):
    """IDXRESET (C12): a search that resumes in the middle of a DD block walks `for (block..) for (; idx < ndds; idx++)`: the
    inner loop has no initialiser because the first block is entered at the resume position.  For every later block the
    position is the block's first (or, backwards, last) slot, so the body of the outer loop assigns `idx` after the inner
    loop.  Where that assignment is missing, the remaining blocks are scanned from beyond their end: the entries of a tag
    that live in a second block are not found by the forward wildcard search, while Hnumber still counts them."""
    prog = ctx.prog
    n = 0
    for f in prog.lib_funcs():
        if not f.rel.endswith("hdf/src/hfiledd.c"):
            continue
        occ = 0
        for lp, st in loops_of(f):
            if lp[0] != "for" or lp[1] is not None:
                continue          # only inner loops without an initialiser
            outer = [a for a in st if a[0] in ("for", "while", "do")]
            if not outer:
                continue
            o = outer[-1]
            # the carried variable: the one the inner loop's condition tests and its step changes
            v = None
            stepped = set()
            if lp[3] is not None:
                for x in walk(lp[3], True):
                    if x[0] == "incdec" and kind(strip(x[3])) == "var":
                        stepped.add(strip(x[3])[1])
            if lp[2] is not None:
                for x in walk(lp[2], True):
                    if x[0] == "bin" and x[1] in ("<", "<=", ">", ">=", "!="):
                        for s_ in (strip(x[2]), strip(x[3])):
                            if kind(s_) == "var" and s_[1] in stepped:
                                v = s_[1]
            if v is None:
                continue
            occ += 1
            n += 1
            key = "IDXRESET:%s:%s#%d" % (f.name, v, occ)
            line = node_line(lp)
            inner_ids = set(id(nd) for _e, nd in seq_of(loop_body(lp)))
            reset = False
            for e, nd in seq_of(loop_body(o)):
                if id(nd) in inner_ids or nd is lp:
                    continue
                for x in walk(e, True):
                    if x[0] == "asg" and x[1] == "=" and kind(strip(x[2])) == "var" and strip(x[2])[1] == v:
                        reset = True
            # the outer for-statement's own step may do it too
            if o[0] == "for" and o[3] is not None:
                for x in walk(o[3], True):
                    if x[0] == "asg" and x[1] == "=" and kind(strip(x[2])) == "var" and strip(x[2])[1] == v:
                        reset = True
            if reset:
                ctx.holds("IDXRESET", key, f.where(line), "`%s` is given the next block's starting slot after the inner scan" % v, nontrivial=True)
            else:
                ctx.violated("IDXRESET", key, f.where(line), "the inner scan resumes at `%s` and nothing in the walk over the blocks resets it afterwards: every block after the first is scanned from where the previous one ended" % v)
    ctx.floor("IDXRESET", 4, n, "(resumed scans of a DD block inside a walk over the blocks)")
    return n


def rule_convert_stride_whole_field(ctx):
    """FIELDSTRIDE (C07): VSread/VSwrite convert one component of a field for all records with one strided DFKconvert call; the
    two strides are the distances between consecutive *records* on either side - the size of the whole field (or record) -
    while the pointers step from component to component by `size / order`.  No stride handed to DFKconvert in these routines
    is itself divided by `order`: a component-sized stride packs the components of a multi-order field on top of each other
    in field-major storage."""
    prog = ctx.prog
    n = 0
    for name in ("VSread", "VSwrite"):
        f = prog.func(name)
        if f is None:
            continue
        k = 0
        for _b, _i, s, c in f.calls():
            if c[1] != "DFKconvert" or len(c[3]) < 7:
                continue
            if is_int(c[3][5], 0) and is_int(c[3][6], 0):
                continue
            k += 1
            n += 1
            key = "FIELDSTRIDE:%s#%d" % (name, k)
            line = s.get("l", f.line)
            bad = None
            for a in (c[3][5], c[3][6]):
                for x in walk(a, True):
                    if x[0] == "bin" and x[1] == "/" and kind(strip(x[3])) == "var" and strip(x[3])[1] == "order":
                        bad = render(strip(a))
            if bad:
                ctx.violated("FIELDSTRIDE", key, f.where(line), "the stride `%s` handed to DFKconvert is a component size (divided by order): consecutive records of the field are laid on top of each other" % bad[:30])
            else:
                ctx.holds("FIELDSTRIDE", key, f.where(line), "both strides (`%s`, `%s`) are whole-field or whole-record sizes" % (render(strip(c[3][5]))[:20], render(strip(c[3][6]))[:20]), nontrivial=True)
    ctx.floor("FIELDSTRIDE", 6, n, "(strided conversions in VSread/VSwrite)")
    return n
