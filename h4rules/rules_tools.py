"""C19: inspection tools — number-type switch exhaustiveness (F7e), truncating difference (F9d),
difference-count propagation to the exit status."""
from .facts import kind, strip, walk, path, render, int_val, is_int, calls_in, unseen
from .flow import PathAnalysis, classify_ret
from .codec import ast_walk

BASE_NT = {3: "UCHAR8", 4: "CHAR8", 5: "FLOAT32", 6: "FLOAT64", 20: "INT8", 21: "UINT8", 22: "INT16", 23: "UINT16",
           24: "INT32", 25: "UINT32"}
FLAVOUR_BITS = 0x4000 | 0x1000  # DFNT_LITEND | DFNT_NATIVE

# classification of the number-type switches found in the tool directories (slot table; a new,
# unclassified switch makes the check exit 2 rather than pass silently)
NT_KERNELS = {
    ("array_diff", 1): "hdiff: per-type min/max initialisation feeding the comparison kernel",
    ("array_diff", 2): "hdiff: the element comparison kernel",
    ("select_func", 1): "hdp: chooses the print routine for dumpsds/dumpgr/dumpvd",
    ("dumpvd", 1): "hdp: chooses the print routine per Vdata field",
    ("dumpattr", 1): "hdp: chooses the print routine per attribute",
}
NT_PRINT_ONLY = {
    ("type_name", 1): "hdiff -v: prints a type name, takes no part in the difference decision",
    ("pr_att_vals", 1): "hdiff -v: prints attribute values after the difference was decided by memcmp",
    ("fmt_print", 1): "hdiff: prints a differing Vdata field value after the difference was decided by memcmp",
}
TOOL_DIRS = ("mfhdf/hdiff", "mfhdf/hdp")


def _switch_info(sw):
    cases = []
    dflt = [None]

    def f(n, st):
        if n[0] == "switch" and n is not sw:
            return False
        if n[0] == "case":
            cases.append(n[1])
        elif n[0] == "default":
            dflt[0] = n
        return True

    ast_walk(sw, f)
    return cases, dflt[0]


def _masked(prog, func, sw):
    """is the switch discriminant free of flavour bits?  (cond is `x & M`, or x was assigned `x & M`
    / `x &= M` earlier in the function with M excluding the flavour bits)"""
    c = strip(sw[1])
    if kind(c) == "bin" and c[1] == "&":
        for s in (c[2], c[3]):
            if is_int(s) and (int_val(s) & FLAVOUR_BITS) == 0:
                return True, "discriminant masked with %s" % render(s)
    p = path(c)
    if p:
        for bid, i, s, n in func.nodes(True):
            if n[0] == "asg" and path(n[2]) == p and n[4] < sw[3]:
                if n[1] == "&=" and is_int(n[3]) and (int_val(n[3]) & FLAVOUR_BITS) == 0:
                    return True, "`%s &= %s` at line %d" % (p, render(n[3]), n[4])
                r = strip(n[3])
                if n[1] == "=" and kind(r) == "bin" and r[1] == "&" and any(
                        is_int(x) and (int_val(x) & FLAVOUR_BITS) == 0 for x in (r[2], r[3])):
                    return True, "`%s` at line %d" % (render(n)[:60], n[4])
    return False, "discriminant `%s` may carry DFNT_LITEND / DFNT_NATIVE" % render(c)


def _default_fails(func, dflt):
    """does the default arm signal failure (store to a result, failing return, goto, exit)?"""
    if dflt is None:
        return False
    sig = [False]

    def f(n, st):
        if n[0] == "goto":
            sig[0] = True
        if n[0] == "s":
            e = n[1]
            if kind(e) == "ret" and e[1] is not None and not (kind(strip(e[1])) == "fn"):
                sig[0] = True
            for x in walk(e, True):
                if x[0] == "asg" or (x[0] == "incdec"):
                    sig[0] = True
                if x[0] == "call" and x[1] in ("exit", "abort"):
                    sig[0] = True
        return True

    ast_walk(dflt, f)
    return sig[0]


def rule_nt_switches(ctx):
    prog = ctx.prog
    n = 0
    for f in prog.funcs:
        if not any(f.rel.startswith(d + "/") for d in TOOL_DIRS):
            continue
        ordn = [0]
        found = []

        def g(node, st):
            if node[0] == "switch":
                cases, dflt = _switch_info(node)
                nt = [c for c in cases if str(c.get("name", "")).startswith("DFNT_")]
                if len(nt) >= 3:
                    ordn[0] += 1
                    found.append((ordn[0], node, cases, dflt))
            return True

        ast_walk(f.raw.get("ast"), g)
        for o, sw, cases, dflt in found:
            n += 1
            key = "F7e:%s:switch%d" % (f.name, o)
            where = f.where(sw[3])
            if (f.name, o) in NT_PRINT_ONLY:
                ctx.excepted("F7e", key, where, NT_PRINT_ONLY[(f.name, o)])
                continue
            if (f.name, o) not in NT_KERNELS:
                ctx.unrecognised("F7e", key, where, "unclassified number-type switch in a tool (add it to NT_KERNELS or NT_PRINT_ONLY)")
                continue
            vals = set()
            for c in cases:
                v = c.get("case")
                if v is not None:
                    vals.add(v)
            missing = [BASE_NT[v] for v in BASE_NT if v not in vals]
            flav = any((v & FLAVOUR_BITS) for v in vals)
            masked, mwhy = _masked(prog, f, sw)
            dfail = _default_fails(f, dflt)
            if not missing and (masked or flav):
                ctx.holds("F7e", key, where, "all ten base number types have an arm; %s" % mwhy)
            elif dfail:
                ctx.holds("F7e", key, where, "types without an arm (%s%s) reach a failing default" % (
                    ",".join(missing), "" if masked else "; flavoured types"))
            else:
                what = []
                if missing:
                    what.append("no arm for " + ",".join(missing))
                if not masked and not flav:
                    what.append(mwhy)
                ctx.violated("F7e", key, where,
                             "%s, and the default arm neither fails nor records a difference: data of such a type is silently "
                             "treated as compared/dumped (%s)" % ("; ".join(what), NT_KERNELS[(f.name, o)]))
    ctx.floor("F7e", 6, n, "(number-type switches in hdiff/hdp)")


# ---------------------------------------------------------------------------------------
# F9d truncating difference

ABS_FUNCS = {"abs": 32, "labs": 64, "llabs": 64, "fabs": None, "fabsf": None}


def _elem_bits(prog, e):
    """integer width of a dereferenced element operand, through promotions/casts"""
    e = unseen(e)
    cast_bits = None
    while kind(e) == "cast":
        b = prog.int_bits(e[1])
        if b and (cast_bits is None):
            cast_bits = b[0]
        e = unseen(e[2])
    if kind(e) in ("deref", "idx"):
        t = e[2] if kind(e) == "deref" else e[3]
        b = prog.int_bits(t)
        if b:
            return b[0], cast_bits
    return None, cast_bits


def rule_truncating_difference(ctx):
    prog = ctx.prog
    n = 0
    for f in prog.funcs:
        if not f.rel.startswith("mfhdf/hdiff/"):
            continue
        for bid, i, s, nn in f.nodes(True):
            if nn[0] != "asg" or nn[1] != "=":
                continue
            r = unseen(nn[3])
            outer_cast = None
            while kind(r) == "cast":
                b = prog.int_bits(r[1])
                if b and outer_cast is None:
                    outer_cast = (b[0], r[1])
                r = unseen(r[2])
            if kind(r) != "call" or r[1] not in ABS_FUNCS or not r[3]:
                continue
            d = unseen(r[3][0])
            while kind(d) == "cast":
                d = unseen(d[2])
            if kind(d) != "bin" or d[1] != "-":
                continue
            ba, ca = _elem_bits(prog, d[2])
            bb, cb = _elem_bits(prog, d[3])
            if ba is None or bb is None:
                continue  # floating point or not an element difference
            be = max(ba, bb)
            n += 1
            tgt = path(nn[2]) or render(nn[2])
            key = "F9d:%s:%s" % (f.name, tgt)
            tb = prog.int_bits(nn[5])
            problems = []
            # (1) the subtraction must be evaluated in more than `be` bits
            eval_bits = max(32, ca or 0, cb or 0, be if be > 32 else 0)
            if eval_bits <= be:
                problems.append("the %d-bit operands are subtracted in %d-bit arithmetic (|a-b| needs %d bits)" % (be, eval_bits, be + 1))
            absw = ABS_FUNCS[r[1]]
            if absw is not None and absw <= be:
                problems.append("%s() works on %d bits" % (r[1], absw))
            # (2) no narrowing of the magnitude
            if outer_cast and outer_cast[0] <= be:
                problems.append("the magnitude is cast to (%s), %d bits" % (outer_cast[1], outer_cast[0]))
            if tb and tb[0] <= be:
                problems.append("it is stored in `%s` of type %s (%d bits)" % (tgt, nn[5], tb[0]))
            if problems:
                ctx.violated("F9d", key, f.where(nn[4]),
                             "|a-b| of two %d-bit elements needs %d bits but %s: a large difference wraps to a small or negative value "
                             "and is not counted as a difference" % (be, be + 1, "; ".join(problems)))
            else:
                ctx.holds("F9d", key, f.where(nn[4]), "difference of %d-bit elements evaluated and kept in a wider type" % be)
    ctx.floor("F9d", 3, n, "(integer element differences in hdiff kernels)")


# ---------------------------------------------------------------------------------------
# difference-count propagation


class CountFlow(PathAnalysis):
    def __init__(self, prog, counters):
        super().__init__(prog)
        self.D = counters
        self.lost = []
        self.exits = []

    def init_user(self, func):
        return frozenset()

    def on_stmt(self, func, bid, idx, stmt, env, user):
        hold = set(user)
        e = stmt["e"]
        top = strip(e)
        # a bare call statement drops the count
        if kind(top) == "call" and top[1] in self.D:
            self.lost.append((top[5], "result of %s() is dropped" % top[1]))
        for n in walk(e):
            if n[0] == "asg":
                t = strip(n[2])
                tv = t[1] if kind(t) == "var" else None
                rhs_calls = [c for c in calls_in(n[3]) if c[1] in self.D]
                rhs_vars = {x[1] for x in walk(n[3], True) if x[0] == "var"}
                for v in list(hold):
                    if v.startswith("$"):
                        continue
                    if v in rhs_vars:
                        hold.discard(v)  # consumed into another value
                        if tv:
                            hold.add(tv)
                if tv and n[1] == "=" and tv in hold and tv not in rhs_vars and not rhs_calls:
                    pass
                if tv and n[1] == "=" and tv in user and tv not in rhs_vars:
                    self.lost.append((n[4], "`%s` still holds an unreported difference count and is overwritten" % tv))
                if rhs_calls and tv:
                    hold.add(tv)
                elif rhs_calls and not tv:
                    pass
            elif n[0] == "ret" and n[1] is not None:
                for x in walk(n[1], True):
                    if x[0] == "var":
                        hold.discard(x[1])
            elif n[0] == "decl":
                for d in n[1]:
                    if d[2] is not None and any(c[1] in self.D for c in calls_in(d[2])):
                        hold.add(d[0])
        return frozenset(hold)

    def on_call_outcome(self, func, call, outcome, env, user):
        # a library call just failed on this path: this is an error path, the tool reports the error instead
        if outcome == "fail":
            return user | {"$error"}
        return user

    def on_exit(self, func, bid, retval, env, user):
        if "$error" in user:
            return
        if user:
            self.exits.append(tuple(sorted(user)))


# uint32-returning hdiff functions that do not return a number of differences
NOT_DIFF_COUNTERS = {"hdiff_list": "returns the number of objects found in a file, not a number of differences"}


def rule_count_propagation(ctx):
    prog = ctx.prog
    hd = [f for f in prog.funcs if f.rel.startswith("mfhdf/hdiff/") and "tst" not in f.rel]
    D = {f.name for f in hd if f.ret in ("uint32",)} - set(NOT_DIFF_COUNTERS)
    for nm, why in NOT_DIFF_COUNTERS.items():
        ff = prog.func(nm)
        if ff is not None:
            ctx.excepted("COUNT", "COUNT:%s" % nm, ff.where(), why)
    n = 0
    for f in hd:
        calls = [c for _, _, _, c in f.calls() if c[1] in D]
        if not calls:
            continue
        if f.name == "main":
            # exit status must be derived from the count
            ok = False
            why = "no return value derived from hdiff()'s result"
            cv = None
            for bid, i, s, nn in f.nodes(True):
                if nn[0] == "asg" and any(c[1] in D for c in calls_in(nn[3])) and kind(strip(nn[2])) == "var":
                    cv = strip(nn[2])[1]
            if cv:
                dep = {cv}
                for _ in range(3):
                    for bid, i, s, nn in f.nodes(True):
                        if nn[0] == "asg" and kind(strip(nn[2])) == "var" and any(x[0] == "var" and x[1] in dep for x in walk(nn[3], True)):
                            dep.add(strip(nn[2])[1])
                for bid, i, s, nn in f.nodes(True):
                    if nn[0] == "ret" and nn[1] is not None and any(x[0] == "var" and x[1] in dep for x in walk(nn[1], True)):
                        ok = True
                        why = "main returns a value computed from `%s`" % cv
            n += 1
            (ctx.holds if ok else ctx.violated)("COUNT", "COUNT:main", f.where(), why)
            continue
        a = CountFlow(prog, D)
        a.run(f)
        n += 1
        key = "COUNT:%s" % f.name
        if f.ret != "uint32":
            # a void/int wrapper that calls a counter: the count must still be consumed
            pass
        if a.lost:
            ln, why = a.lost[0]
            ctx.violated("COUNT", key, f.where(ln), "a difference count is lost on the way to hdiff's exit status: %s" % why)
        elif a.exits and f.ret == "uint32":
            ctx.violated("COUNT", key, f.where(), "a path returns without adding the count held in `%s` to the returned total" % a.exits[0][0])
        else:
            ctx.holds("COUNT", key, f.where(), "every count returned by a callee (%d call sites) reaches this function's return value" % len(calls))
    ctx.floor("COUNT", 6, n, "(hdiff functions consuming difference counts)")


# ---------------------------------------------------------------------------------------
# PAIR: a loop that walks the items of object X by index is bounded by the count that was asked of X

def rule_index_count_pairing(ctx):
    """The inspection tools enumerate attributes, datasets, images ... with `for (i = 0; i < n; i++) api(obj, i, ...)`,
    where n was filled in by a query call `q(obj, .., &n, ..)`.  If the loop bound was obtained from a *different* object than
    the one indexed in the body, items are skipped or indices past the end are used: the report no longer shows what is in
    the file.  Instance = such a loop; decided when the bound variable has exactly one defining query call in the function."""
    from .codec import ast_walk
    prog = ctx.prog
    n = 0
    for f in prog.funcs:
        if not any(f.rel.startswith(d) for d in TOOL_DIRS) and "hrepack" not in f.rel:
            continue
        # out-parameter definitions: var -> [(query call, object argument text)]
        outdefs = {}
        for _b, _i, _s, c in f.calls():
            if not c[1] or not c[3]:
                continue
            obj = strip(c[3][0])
            if kind(obj) != "var":
                continue
            for a in c[3][1:]:
                a = strip(a)
                if kind(a) == "addr" and kind(strip(a[1])) == "var":
                    outdefs.setdefault(strip(a[1])[1], []).append((c, obj[1]))
        assigned = {}
        for _b, _i, _s, x in f.nodes(True):
            if x[0] == "asg" and kind(strip(x[2])) == "var":
                assigned.setdefault(strip(x[2])[1], []).append(x)
        loops = []

        def vis(node, stack):
            if node[0] == "for":
                loops.append(node)
            return True
        ast_walk(f.raw.get("ast"), vis)
        for lp in loops:
            cond = strip(lp[2]) if lp[2] else None
            if cond is None or kind(cond) != "bin" or cond[1] not in ("<", "<="):
                continue
            iv, bv = strip(cond[2]), strip(cond[3])
            if kind(iv) != "var" or kind(bv) != "var":
                continue
            defs = outdefs.get(bv[1], [])
            if len(defs) != 1 or bv[1] in assigned:
                continue
            qcall, qobj = defs[0]
            # calls in the body that take (object, loop index, ...)
            uses = []

            def vis2(node, stack):
                if node[0] == "s":
                    for c in calls_in(node[1]):
                        if c[1] and len(c[3]) >= 2 and kind(strip(c[3][0])) == "var" and kind(strip(c[3][1])) == "var" and strip(c[3][1])[1] == iv[1]:
                            uses.append(c)
                return True
            ast_walk(lp[4], vis2)
            if not uses:
                continue
            same_type = [c for c in uses if strip(c[3][0])[3] == strip(qcall[3][0])[3]]
            if not same_type:
                continue
            n += 1
            key = "PAIR:%s:%s" % (f.name, bv[1])
            wrong = [c for c in same_type if strip(c[3][0])[1] != qobj]
            if wrong and len(wrong) == len(same_type):
                c = wrong[0]
                ctx.violated("PAIR", key, f.where(c[5]), "the loop is bounded by `%s`, which %s() reported for `%s`, but its body indexes `%s` with the loop variable (%s at line %d): "
                             "items of `%s` are skipped or read past the end" % (bv[1], qcall[1], qobj, strip(c[3][0])[1], c[1], c[5], strip(c[3][0])[1]))
            else:
                ctx.holds("PAIR", key, f.where(qcall[5]), "bound `%s` comes from %s(%s, ..) and the body indexes `%s`" % (bv[1], qcall[1], qobj, qobj), nontrivial=True)
    ctx.floor("PAIR", 5, n, "(index loops bounded by a queried count in the tools)")
    return n


def rule_empty_keeps_attrs(ctx):
    """EMPTYATTR (C19): hdiff compares data and attributes of a pair of data sets.  'There is no data to compare' (SDcheckempty) is a
    reason to skip the data, not the attributes: the exit taken for an empty data set must lead to code that still reaches
    diff_sds_attrs.  Jumping to the clean-up label behind that call makes two files that differ only in an attribute of a data set
    without data compare equal."""
    from .codec import ast_walk
    prog = ctx.prog
    f = next((g for g in prog.funcs if g.name == "diff_sds" and "mfhdf/hdiff/" in g.rel), None)
    key = "EMPTYATTR:diff_sds"
    if f is None:
        ctx.unrecognised("EMPTYATTR", key, "-", "diff_sds not found")
        return 0
    labels = {}
    gotos = []
    calls = [c[5] for _b, _i, _s, c in f.calls() if c[1] == "diff_sds_attrs"]

    def vis(nn, st):
        if nn[0] == "label":
            labels[nn[1]] = nn[3] if len(nn) > 3 else 0
        if nn[0] == "goto":
            conds = [a for a in st if a[0] == "if"]
            cc = strip(conds[-1][1]) if conds else None
            if cc is not None and kind(cc) == "bin" and cc[1] in ("==", "!=") and kind(strip(cc[2])) == "var" and "empty" in strip(cc[2])[1] and is_int(cc[3]):
                gotos.append((nn[1], nn[2] if len(nn) > 2 else 0))
        return True
    ast_walk(f.raw.get("ast"), vis)
    if not gotos or not calls:
        ctx.unrecognised("EMPTYATTR", key, f.where(), "no empty-data-set exit (%d) or no call of diff_sds_attrs (%d) found" % (len(gotos), len(calls)))
        return 0
    n = 0
    for k, (lab, line) in enumerate(gotos):
        n += 1
        kk = "%s#%d" % (key, k + 1)
        ll = labels.get(lab)
        if ll is not None and ll <= min(calls):
            ctx.holds("EMPTYATTR", kk, f.where(line), "the empty-data-set exit goes to `%s`, ahead of the attribute comparison" % lab, nontrivial=True)
        else:
            ctx.violated("EMPTYATTR", kk, f.where(line), "the exit taken for a data set without data jumps to `%s`, behind the call of diff_sds_attrs: attribute differences of such data sets are never reported" % lab)
    return n


def _static_type(e):
    e = unseen(e)
    k = kind(e)
    if k == "cast":
        return e[1]
    if k == "var":
        return e[3]
    if k == "mem":
        return e[4]
    if k == "idx":
        return e[3]
    if k == "call":
        return e[4]
    if k == "deref":
        return e[2]
    if k in ("bin", "asg"):
        return e[4] if k == "bin" else e[5]
    if k == "flt":
        return "double"
    if k == "un":
        return _static_type(e[2])
    return None


def rule_float_abs(ctx):
    """FABS (C19): `abs()` takes an int.  Given a floating-point argument it truncates it first, so a difference smaller than 1
    (or larger than INT_MAX) has 'absolute value' 0 and hdiff reports two different float values as equal.  The absolute value
    of a floating-point expression is taken with fabs()/fabsf(), in the tools as in the library."""
    prog = ctx.prog
    n = 0
    for f in prog.funcs:
        ordn = 0
        for _b, _i, s, c in f.calls():
            if c[1] not in ("abs", "labs", "fabs", "fabsf") or not c[3]:
                continue
            ordn += 1
            n += 1
            key = "FABS:%s#%d" % (f.name, ordn)
            t = str(_static_type(c[3][0]) or "")
            floating = any(w in t for w in ("float", "double"))
            if c[1] in ("abs", "labs") and floating:
                ctx.violated("FABS", key, f.where(c[5]), "`%s` passes a %s expression to %s(): the value is truncated to an integer before its absolute value is taken" % (render(c)[:60], t, c[1]))
            else:
                ctx.holds("FABS", key, f.where(c[5]), "%s(%s)" % (c[1], t or "?"), nontrivial=False)
    ctx.floor("FABS", 6, n, "(absolute-value calls)")
    return n


FMT_NAME_TYPES = {"fmtint8": "int8", "fmtuint8": "uint8", "fmtint16": "int16", "fmtuint16": "uint16", "fmtint32": "int32", "fmtuint32": "uint32",
                  "fmtfloat32": "float32", "fmtfloat64": "float64", "fmtshort": "short", "fmtchar": "char", "fmtuchar8": "uchar8", "fmtbyte": "unsigned char"}


def rule_fmt_local_type(ctx):
    """FMTTYPE (C19): hdp prints a value by copying its bytes into a local (`memcpy(&v, x, sizeof(T))`) and formatting the local.
    In each fmt<T> routine the local has the type the routine is named after, and the memcpy length is that type's size; with a
    signed local in fmtuint32 every value from 2^31 up is printed sign-extended."""
    prog = ctx.prog
    n = 0
    for f in prog.funcs:
        if "mfhdf/hdp/" not in f.rel or f.name not in FMT_NAME_TYPES:
            continue
        want = FMT_NAME_TYPES[f.name]
        decls = {}
        for _b, _i, _s, x in f.nodes(True):
            if x[0] == "decl":
                for d in x[1]:
                    decls[d[0]] = str(d[1])
        for _b, _i, _s, c in f.calls():
            if c[1] != "memcpy" or len(c[3]) < 3:
                continue
            a = strip(c[3][0])
            if kind(a) != "addr" or kind(strip(a[1])) != "var":
                continue
            v = strip(a[1])[1]
            n += 1
            key = "FMTTYPE:%s" % f.name
            have = decls.get(v, "?")
            if have.replace(" ", "") == want.replace(" ", ""):
                ctx.holds("FMTTYPE", key, f.where(c[5]), "the value is formatted from a local of type %s" % have, nontrivial=True)
            else:
                ctx.violated("FMTTYPE", key, f.where(c[5]), "%s copies the value into a local of type `%s`, not `%s`: values outside that type's range are printed wrongly (e.g. sign-extended)" % (f.name, have, want))
    ctx.floor("FMTTYPE", 6, n, "(hdp value formatters)")
    return n


def _fl_width(t):
    t = (t or "").replace("const ", "").strip()
    if t in ("float64", "double"):
        return 64
    if t in ("float32", "float"):
        return 32
    return None


def rule_float_difference_kept_wide(ctx):
    """FLTNARROW (C19): hdiff decides "different" from |a - b| > limit.  For float64 elements the magnitude must stay a float64 all
    the way into that comparison: cast to float32 (or stored in a float32 variable) a difference below the float32 range becomes
    0 and two different values are reported equal.  Instances: every |a-b| of floating-point elements in hdiff's kernels."""
    prog = ctx.prog
    n = 0
    occ = {}
    for f in prog.funcs:
        if not f.rel.startswith("mfhdf/hdiff/"):
            continue
        for bid, i, s, nn in f.nodes(True):
            if nn[0] != "asg" or nn[1] != "=":
                continue
            r = unseen(nn[3])
            casts = []
            while kind(r) == "cast":
                casts.append(r[1])
                r = unseen(r[2])
            if kind(r) != "call" or r[1] not in ("fabs", "fabsf", "fabsl") or not r[3]:
                continue
            d = unseen(r[3][0])
            while kind(d) == "cast":
                d = unseen(d[2])
            if kind(d) != "bin" or d[1] != "-":
                continue
            ws = []
            for side in (d[2], d[3]):
                e = unseen(side)
                while kind(e) == "cast":
                    e = unseen(e[2])
                t = e[2] if kind(e) == "deref" else (e[3] if kind(e) in ("idx", "var") else None)
                ws.append(_fl_width(t))
            if None in ws:
                continue
            w = max(ws)
            n += 1
            tgt = path(nn[2]) or render(nn[2])
            key = "FLTNARROW:%s:%s" % (f.name, tgt)
            occ[key] = occ.get(key, 0) + 1
            if occ[key] > 1:
                key += "#%d" % occ[key]
            probs = []
            for c in casts:
                cw = _fl_width(c)
                if cw is not None and cw < w:
                    probs.append("the magnitude is cast to (%s)" % c)
            tw = _fl_width(nn[5])
            if tw is not None and tw < w:
                probs.append("it is stored in `%s` of type %s" % (tgt, nn[5]))
            if r[1] == "fabsf" and w == 64:
                probs.append("fabsf() works on float32")
            if probs:
                ctx.violated("FLTNARROW", key, f.where(nn[4]), "|a-b| of two float%d elements is narrowed: %s — a difference below the float32 range becomes 0 and is not reported" % (w, "; ".join(probs)))
            else:
                ctx.holds("FLTNARROW", key, f.where(nn[4]), "|a-b| of float%d elements is kept in float%d" % (w, w), nontrivial=True)
    ctx.floor("FLTNARROW", 2, n, "(floating-point element differences in hdiff kernels)")
    return n


def rule_scale_siblings(ctx):
    """SCALESIB (C19): hdfimport reads the axis scales of its input once per output number type: the same block is repeated for every
    type, each reading `dims[k]` numbers into the scale of axis k (plane/depth, vertical, horizontal).  Which dimension bounds which
    scale is the same in every copy; a copy that reads the horizontal scale with the vertical count consumes too few numbers and
    the data values that follow are shifted.  Every (rank arm, scale field) pair must use one dimension index in all copies."""
    from .codec import ast_walk
    from .facts import base_var, mem_field
    prog = ctx.prog
    groups = {}
    for f in prog.funcs:
        if not f.rel.startswith("mfhdf/hdfimport/"):
            continue
        ast = f.raw.get("ast")
        if not ast:
            continue

        def vis(nd, st):
            if nd[0] != "for" or nd[2] is None:
                return True
            c = strip(nd[2])
            if not (kind(c) == "bin" and c[1] == "<" and kind(strip(c[3])) == "idx" and is_int(strip(c[3])[2])):
                return True
            dimarr = base_var(strip(c[3]))
            k = int_val(strip(c[3])[2])
            fld = None
            from .rules_loops import seq_of
            for e, _n in seq_of(nd[4]):
                for x in walk(e, True):
                    if x[0] == "addr":
                        t = strip(x[1])
                        if kind(t) == "idx" and mem_field(t[1]):
                            fld = mem_field(t[1])[1]
                    elif x[0] == "asg" and kind(strip(x[2])) == "idx" and mem_field(strip(x[2])[1]):
                        fld = fld or mem_field(strip(x[2])[1])[1]
            if fld is None:
                return True
            arm = []
            chain = st + [nd]
            for i, s_ in enumerate(st):
                if s_[0] == "if" and "rank" in render(s_[1]):
                    arm.append((render(s_[1]), chain[i + 1] is s_[2]))
            groups.setdefault((f.name, dimarr, tuple(arm), fld), []).append((k, nd[-3] if isinstance(nd[-3], int) else f.line, f))
            return True

        ast_walk(ast, vis)
    n = 0
    for (fn, dimarr, arm, fld), sites in sorted(groups.items()):
        if len(sites) < 3:
            continue
        n += 1
        ks = {}
        for k, line, f in sites:
            ks.setdefault(k, []).append((line, f))
        armtxt = " and ".join("%s is %s" % (c, "true" if p else "false") for c, p in arm) or "any rank"
        key = "SCALESIB:%s:%s:%s" % (fn, fld, "/".join(("T" if p else "F") for _c, p in arm) or "-")
        if len(ks) == 1:
            ctx.holds("SCALESIB", key, sites[0][2].where(sites[0][1]), "all %d copies read `%s` with %s[%d] (%s)" % (len(sites), fld, dimarr, list(ks)[0], armtxt), nontrivial=True)
        else:
            minority = min(ks.items(), key=lambda kv: len(kv[1]))
            major = max(ks.items(), key=lambda kv: len(kv[1]))
            ctx.violated("SCALESIB", key, minority[1][0][1].where(minority[1][0][0]), "%d copies read `%s` with %s[%d] but this one uses %s[%d] (%s): it consumes a different number of scale values and shifts the data that follow" %
                         (len(major[1]), fld, dimarr, major[0], dimarr, minority[0], armtxt))
    ctx.floor("SCALESIB", 5, n, "(scale field x rank arm groups read once per number type)")
    return n


def rule_field_table_capacity(ctx):
    """FIELDCAP (C19, C20): a Vdata has up to VSFIELDMAX (256) fields, and its write/read list says how many (`w->n`).  A local
    table that is filled or read with the counter of a loop running to that `n` holds one entry per field, so it has at least
    VSFIELDMAX elements: a shorter one (hdiff's `off1[60]`) is overrun by the first Vdata with more fields, on the stack."""
    import re
    from .rules_loops import loops_of, loop_body, seq_of
    prog = ctx.prog
    n = 0
    cap = 256
    for f in prog.funcs:
        arrays = {}
        for _b, _i, _s, x in f.nodes(True):
            if x[0] == "decl":
                for d in x[1]:
                    m = re.search(r"\[(\d+)\]$", d[1] or "")
                    if m:
                        arrays[d[0]] = int(m.group(1))
        if not arrays:
            continue
        seen = {}
        for lp, st in loops_of(f):
            if lp[0] != "for" or lp[2] is None:
                continue
            c = strip(lp[2])
            if not (kind(c) == "bin" and c[1] in ("<", "<=") and kind(strip(c[2])) == "var"):
                continue
            b = strip(c[3])
            if not (kind(b) == "mem" and b[2] == "n" and b[3] in ("dyn_write_struct", "dyn_read_struct", "write_struct", "DYN_VWRITELIST", "DYN_VREADLIST")):
                continue
            v = strip(c[2])[1]
            for e, nd in seq_of(loop_body(lp)):
                for x in walk(e, True):
                    if x[0] == "idx" and kind(strip(x[1])) == "var" and strip(x[1])[1] in arrays and kind(strip(x[2])) == "var" and strip(x[2])[1] == v:
                        seen.setdefault(strip(x[1])[1], (node_line_(lp), render(b)))
        for a, (line, bound) in sorted(seen.items()):
            n += 1
            key = "FIELDCAP:%s:%s" % (f.name, a)
            if arrays[a] >= cap:
                ctx.holds("FIELDCAP", key, f.where(line), "`%s[%d]` is indexed up to `%s` and holds an entry for every possible field" % (a, arrays[a], bound), nontrivial=True)
            else:
                ctx.violated("FIELDCAP", key, f.where(line), "`%s[%d]` is indexed by a counter that runs to `%s` (up to %d fields): a Vdata with more than %d fields overruns it" % (a, arrays[a], bound, cap, arrays[a]))
    ctx.floor("FIELDCAP", 2, n, "(local per-field tables indexed up to a Vdata's field count)")
    return n


def node_line_(nd):
    try:
        return nd[-3] if isinstance(nd[-3], int) else 0
    except Exception:
        return 0


def rule_name_table_matches_codes(ctx):
    """NAMECODE (C19): a tool that turns an option word into a type code by its position in a table of words
    (`types[] = {"FP32", "FP64", "INT32", ..}`, the matching index stored as the code) relies on the table being in the
    order of the codes.  Every word of such a table that has a like-named code constant in the same file (`"INT8"` and
    INT_8: equal once underscores are dropped) sits at the index equal to that constant's value.  Reordered "by width",
    `-t INT8` selects INT_32 and the imported data set has the wrong type while the tool exits 0."""
    prog = ctx.prog
    n = 0
    by_file = {}
    for f in prog.funcs:
        by_file.setdefault(f.file, []).append(f)
    for file, funcs in sorted(by_file.items()):
        rel = funcs[0].rel
        if not rel.startswith(("mfhdf/hdfimport", "mfhdf/hdp", "mfhdf/hdiff", "mfhdf/hrepack", "hdf/util")):
            continue
        consts = {}
        tables = []
        for f in funcs:
            for _b, _i, s, x in f.nodes(True):
                if x[0] == "int" and len(x) > 2 and isinstance(x[2], str) and x[2].isupper() or (x[0] == "int" and len(x) > 2 and isinstance(x[2], str) and "_" in x[2]):
                    consts.setdefault(x[2].replace("_", "").upper(), set()).add((x[2], x[1]))
                if x[0] == "decl":
                    for d in x[1]:
                        init = d[2]
                        if init is not None and kind(init) == "init" and len(init[2]) >= 2 and all(kind(e) == "str" for e in init[2]):
                            tables.append((f, d[0], [e[1] for e in init[2]], s.get("l", f.line)))
        for f, name, words, line in tables:
            matched = [(i, w, consts[w.replace("_", "").upper()]) for i, w in enumerate(words) if w.replace("_", "").upper() in consts and len(consts[w.replace("_", "").upper()]) == 1]
            if len(matched) < 2:
                continue
            n += 1
            key = "NAMECODE:%s:%s" % (f.name, name)
            bad = [(i, w, list(c)[0]) for i, w, c in matched if list(c)[0][1] != i]
            if bad:
                i, w, (cn, cv) = bad[0]
                ctx.violated("NAMECODE", key, f.where(line), "`%s[%d]` is \"%s\" but the code %s is %d: the word selects the code of whatever stands at its index" % (name, i, w, cn, cv))
            else:
                ctx.holds("NAMECODE", key, f.where(line), "the %d words of `%s` that have a like-named code constant stand at that constant's value" % (len(matched), name), nontrivial=True)
    ctx.floor("NAMECODE", 1, n, "(word tables whose index is a code)")
    return n


def rule_lone_vdata_listed(ctx):
    """LONEVS (C19): hdiff sees the attributes of Vdatas and Vgroups only as the lone Vdatas of class Attr0.0 that store them, so
    its object list has to keep lone Vdatas that *have* a class.  In the routine that lists a Vdata (it is told `is_lone` and
    ends in dtable_add), a return that skips the table entry for a reserved class is reachable only for a Vdata with an empty
    class (`class[0] == '\\0'`, where no reserved class can match).  The same test turned round drops every attribute Vdata
    from the comparison and two files that differ in one attribute value compare equal."""
    from .codec import ast_walk
    from .facts import calls_in
    prog = ctx.prog
    n = 0
    for f in prog.funcs:
        ast = f.raw.get("ast")
        if not ast or not f.rel.endswith("mfhdf/hdiff/hdiff_list.c"):
            continue
        params = {(p[0] if isinstance(p, (list, tuple)) else p.get("name")) for p in f.params}
        if "is_lone" not in params or not any(c[1] == "dtable_add" for _b, _i, _s, c in f.calls()):
            continue
        skips = []
        state = {"added": False}

        def vis(nd, st):
            if nd[0] in ("s", "if") and nd[1] is not None and any(c[1] == "dtable_add" for c in calls_in(nd[1], True)):
                state["added"] = True
            if nd[0] == "s" and kind(nd[1]) == "ret" and not state["added"]:
                conds = [a[1] for a in st if a[0] == "if" and a[1] is not None]
                if any(any(c[1] == "is_reserved" for c in calls_in(cnd, True)) for cnd in conds):
                    skips.append((nd, conds))
            return True

        ast_walk(ast, vis)
        for k, (nd, conds) in enumerate(skips, 1):
            n += 1
            key = "LONEVS:%s#%d" % (f.name, k)
            line = nd[-3] if isinstance(nd[-3], int) else f.line
            empty_only = False
            for cnd in conds:
                for x in walk(cnd, True):
                    if x[0] == "bin" and x[1] == "==" and kind(strip(x[2])) == "idx" and is_int(strip(x[2])[2], 0) and is_int(x[3], 0):
                        empty_only = True
            if empty_only:
                ctx.holds("LONEVS", key, f.where(line), "the reserved-class skip is reachable only for a Vdata whose class is empty: every Vdata with a class is listed", nontrivial=True)
            else:
                ctx.violated("LONEVS", key, f.where(line), "a lone Vdata of a reserved class is left out of hdiff's object list: the Attr0.0 Vdatas that carry Vdata and Vgroup attributes are never compared")
    ctx.floor("LONEVS", 1, n, "(reserved-class skips in hdiff's Vdata listing)")
    return n


def rule_double_parsed_as_double(ctx):
    """WIDEPARSE (C19): hdfimport reads 64-bit TEXT input with `fscanf("%le", double *)`.  A value destined for a float64 is never
    produced by parsing into a float32 and widening: what is stored through a `float64 *` parameter does not come from a
    float32 local.  Otherwise 0.1 is imported as 0.10000000149011612 and 7e100 as inf while the tool exits 0."""
    prog = ctx.prog
    n = 0
    for f in prog.funcs:
        if not f.rel.startswith("mfhdf/hdfimport/"):
            continue
        p64 = {(p[0] if isinstance(p, (list, tuple)) else p.get("name")) for p in f.params if "float64 *" in ((p[1] if isinstance(p, (list, tuple)) else p.get("type")) or "") or "double *" in ((p[1] if isinstance(p, (list, tuple)) else p.get("type")) or "")}
        if not p64:
            continue
        f32 = set()
        for _b, _i, _s, x in f.nodes(True):
            if x[0] == "decl":
                for d in x[1]:
                    if (d[1] or "").strip() in ("float32", "float"):
                        f32.add(d[0])
        for p in sorted(p64):
            n += 1
            key = "WIDEPARSE:%s:%s" % (f.name, p)
            bad = None
            for _b, _i, s, x in f.nodes(True):
                if x[0] == "asg" and x[1] == "=" and kind(strip(x[2])) == "deref" and kind(strip(strip(x[2])[1])) == "var" and strip(strip(x[2])[1])[1] == p:
                    if any(y[0] == "var" and y[1] in f32 for y in walk(x[3], True)):
                        bad = s.get("l", f.line)
            if bad:
                ctx.violated("WIDEPARSE", key, f.where(bad), "the value stored through the float64 pointer `%s` is a widened float32: everything beyond single precision of the input is lost" % p)
            else:
                ctx.holds("WIDEPARSE", key, f.where(), "nothing stored through `%s` comes from a float32 local" % p, nontrivial=True)
    ctx.floor("WIDEPARSE", 1, n, "(routines that deliver a float64 through a pointer)")
    return n


def rule_grow_init_from_count(ctx):
    """GROWINIT (C19, C18): the tools' object tables grow by doubling (`realloc`) and then initialise the *new* slots:
    `for (i = table->nobjs; i < table->size; i++) ..`.  The loop starts at the number of slots in use - the plain count field,
    no arithmetic: started one earlier it wipes the last entry that was just filled, and the object in that slot (the 20th,
    40th, ..) is compared as "not supported" and contributes no difference."""
    from .rules_loops import loops_of
    prog = ctx.prog
    n = 0
    for f in prog.funcs:
        if not f.rel.startswith(("mfhdf/hdiff/", "mfhdf/hrepack/", "mfhdf/hdp/")):
            continue
        if not any(c[1] in ("realloc", "HDrealloc") for _b, _i, _s, c in f.calls()):
            continue
        k = 0
        for lp, st in loops_of(f):
            if lp[0] != "for" or lp[1] is None or lp[2] is None:
                continue
            c = strip(lp[2])
            if not (kind(c) == "bin" and c[1] == "<" and kind(strip(c[3])) == "mem" and strip(c[3])[2] in ("size", "max", "alloc")):
                continue
            init = None
            for x in walk(lp[1], True):
                if x[0] == "asg" and x[1] == "=":
                    init = x[3]
            if init is None:
                continue
            k += 1
            n += 1
            key = "GROWINIT:%s#%d" % (f.name, k)
            line = lp[-3] if isinstance(lp[-3], int) else f.line
            if kind(strip(init)) == "mem":
                ctx.holds("GROWINIT", key, f.where(line), "the new slots are initialised from `%s`" % render(strip(init))[:30], nontrivial=True)
            elif is_int(init):
                ctx.holds("GROWINIT", key, f.where(line), "the table is initialised from a constant index", nontrivial=False)
            else:
                ctx.violated("GROWINIT", key, f.where(line), "after the table has grown, the initialisation of the new slots starts at `%s` instead of the count of used slots: it wipes an entry that is in use" % render(strip(init))[:30])
    ctx.floor("GROWINIT", 3, n, "(initialisations of new slots after a table has grown)")
    return n
