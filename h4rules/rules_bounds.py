"""F2 bounded writes into caller-supplied output arrays and fixed-size name buffers."""
from .facts import kind, strip, walk, path, base_var, render, int_val, is_int, calls_in, mem_field
from .flow import PathAnalysis, fail_values, classify_ret, normalise_cmp, NEG, SWAP

# slot fillers: parameter names that carry the caller's capacity / the output arrays
CAP_PARAMS = {"info_count", "size", "pal_count"}
ARR_PARAMS = {"offsetarray", "lengtharray", "palinfo_array"}


class F2(PathAnalysis):
    """facts: ('lt', a, b)  a < b established since the last change of a or b
              ('le', a, b)  a <= b  (clamp)"""

    def __init__(self, prog, arrs, caps, family):
        super().__init__(prog)
        self.arrs = arrs
        self.caps = caps
        self.family = family
        self.sites = {}  # (line, arr, idxrender) -> [ok bool, detail]

    def init_user(self, func):
        return frozenset()

    def _kill(self, facts, name):
        return frozenset(f for f in facts if f[1] != name and f[2] != name)

    def _bounded(self, idx, facts, env):
        """is index expression idx known < some capacity parameter?"""
        idx = strip(idx)
        if kind(idx) == "int":
            k = idx[1]
            for c in self.caps:
                v = env.get(c)
                if v is not None and ((v[0] == "ne" and v[1] == 0 and k == 0) or (v[0] == "c" and v[1] > k)):
                    return True, "%s != 0 on this path" % c
                if ("gt0", c, c) in facts and k == 0:
                    return True, "%s > 0 on this path" % c
            return False, "constant index %d with no established `capacity > %d`" % (k, k)
        p = path(idx)
        if p is None:
            return False, "index `%s` is not a simple variable" % render(idx)
        for f in facts:
            if f[0] == "lt" and f[1] == p:
                if f[2] in self.caps:
                    return True, "%s < %s" % (p, f[2])
                if ("le", f[2], None) in facts or any(g[0] == "le" and g[1] == f[2] and g[2] in self.caps for g in facts):
                    return True, "%s < %s <= capacity" % (p, f[2])
        return False, "no dominating `%s < capacity` since the last change of `%s`" % (p, p)

    def _site(self, line, arr, idx, facts, env):
        ok, why = self._bounded(idx, facts, env)
        k = (arr, render(idx))
        cur = self.sites.get(k)
        if cur is None or (cur[0] and not ok):
            self.sites[k] = [ok, why, line]

    def on_stmt(self, func, bid, idx, stmt, env, user):
        facts = user
        for n in walk(stmt["e"]):
            k = n[0]
            if k == "asg":
                t = strip(n[2])
                if kind(t) == "idx" and kind(strip(t[1])) == "var" and strip(t[1])[1] in self.arrs:
                    self._site(n[4], strip(t[1])[1], t[2], facts, env)
                if kind(t) == "var":
                    facts = self._kill(facts, t[1])
                    r = strip(n[3])
                    if n[1] == "=" and kind(r) == "var":
                        # x = cap  =>  x <= cap
                        facts = facts | {("le", t[1], r[1])}
                        if r[1] in self.caps:
                            pass
                        else:
                            for g in list(facts):
                                if g[0] == "le" and g[1] == r[1]:
                                    facts = facts | {("le", t[1], g[2])}
            elif k == "incdec":
                t = strip(n[3])
                if kind(t) == "var":
                    facts = self._kill(facts, t[1])
            elif k == "decl":
                for d in n[1]:
                    facts = self._kill(facts, d[0])
            elif k == "addr":
                t = strip(n[1])
                if kind(t) == "idx" and kind(strip(t[1])) == "var" and strip(t[1])[1] in self.arrs:
                    self._site(stmt["l"], strip(t[1])[1], t[2], facts, env)
                elif kind(t) == "mem":
                    b = strip(t[1])
                    if kind(b) == "idx" and kind(strip(b[1])) == "var" and strip(b[1])[1] in self.arrs:
                        self._site(stmt["l"], strip(b[1])[1], b[2], facts, env)
            elif k == "call":
                # forwarding the array to another member of the family: capacity must be forwarded unchanged
                fam = self.family.get(n[1])
                if fam:
                    cap_i, arr_is = fam
                    for ai in arr_is:
                        if ai < len(n[3]):
                            a = strip(n[3][ai])
                            if kind(a) == "var" and a[1] in self.arrs:
                                c = strip(n[3][cap_i]) if cap_i < len(n[3]) else None
                                ok = c is not None and kind(c) == "var" and c[1] in self.caps
                                kk = (a[1], "->%s" % n[1])
                                cur = self.sites.get(kk)
                                if cur is None or (cur[0] and not ok):
                                    self.sites[kk] = [ok, "array forwarded to %s with capacity argument `%s`" % (n[1], render(c)), n[5]]
        return facts

    def on_assume(self, func, bid, cond, pol, env, user):
        c = strip(cond)
        if kind(c) == "bin" and c[1] in ("<", "<=", ">", ">="):
            l, op, r = strip(c[2]), c[1], strip(c[3])
            if not pol:
                op = NEG[op]
            if op in (">", ">="):
                l, r, op = r, l, SWAP[op]
            lp, rp = path(l), path(r)
            if lp and rp:
                if op == "<":
                    return user | {("lt", lp, rp)}
                if op == "<=":
                    return user | {("le", lp, rp)}
            # 0 < cap  /  cap > 0
            if op == "<" and is_int(l, 0) and rp in self.caps:
                return user | {("gt0", rp, rp)}
        return user


def rule_F2_arrays(ctx):
    prog = ctx.prog
    family = {}
    funcs = []
    for f in prog.lib_funcs():
        pn = [p[0] for p in f.params]
        arrs = [i for i, p in enumerate(pn) if p in ARR_PARAMS]
        caps = [i for i, p in enumerate(pn) if p in CAP_PARAMS]
        if arrs and caps:
            family[f.name] = (caps[0], arrs)
            funcs.append(f)
    n = 0
    for f in funcs:
        pn = [p[0] for p in f.params]
        a = F2(prog, {p for p in pn if p in ARR_PARAMS}, {p for p in pn if p in CAP_PARAMS}, family)
        a.run(f)
        if not a.sites:
            ctx.holds("F2", "F2:%s" % f.name, f.where(), "no direct store into the caller's arrays (only forwards / counts)", nontrivial=False)
        for (arr, idx), (ok, why, line) in sorted(a.sites.items()):
            n += 1
            key = "F2:%s:%s[%s]" % (f.name, arr, idx)
            if ok:
                ctx.holds("F2", key, f.where(line), why)
            else:
                ctx.violated("F2", key, f.where(line),
                             "store into caller-supplied array `%s` is reachable with %s — more entries than the caller's "
                             "capacity can be written" % (arr, why))
    ctx.floor("F2", 8, len(funcs), "(functions with a capacity parameter and an output array)")
    ctx.floor("F2-sites", 8, n, "(store/forward sites into caller arrays)")


# ---------------------------------------------------------------------------------------
# F2s: copies into fixed-size character/byte array fields of records must be bounded by the array size

COPYFN = {"strcpy": None, "strcat": None, "strncpy": 2, "HIstrncpy": 2, "memcpy": 2, "memmove": 2, "strncat": 2}

F2S_EXCEPT = {
    "F2s:H4_NC_new_cdf:cdf->path": "reached only after Hopen/fopen succeeded on `name`, which the OS refuses for names longer than PATH_MAX "
                                   "(= FILENAME_MAX, the buffer size - 1); replay with a 6004-character path is refused (triage/c20_sdstart_longpath.c)",
    "F2s:SDsetrange:data": "length is DFKNTsize() of a supported number type (at most 8) and two values are stored: 16 of the 80 bytes",
    "F2s:DFSDsetfillvalue:Writesdg.fill_value": "length is DFKNTsize() of a supported number type (at most 8), the buffer holds 16 bytes",
}


class F2s(PathAnalysis):
    """facts ('ub', path, n): path <= n ; ('len', v, text): v == strlen(text)"""

    def __init__(self, prog):
        super().__init__(prog)
        self.sites = {}

    def init_user(self, func):
        return frozenset()

    def on_assume(self, func, bid, cond, pol, env, user):
        c = strip(cond)
        if kind(c) == "bin" and c[1] in ("<", "<=", ">", ">="):
            op = c[1] if pol else NEG[c[1]]
            l, r = c[2], c[3]
            if is_int(l) and not is_int(r):
                l, r, op = r, l, SWAP[op]
            if is_int(r) and op in ("<", "<="):
                n = int_val(r) - (1 if op == "<" else 0)
                facts = set(user)
                ll = strip(l)
                while kind(ll) == "cast":
                    ll = strip(ll[2])
                if kind(ll) == "asg":  # (slen = strlen(x)) > MAX
                    ll = strip(ll[2])
                p = path(ll)
                if p:
                    facts.add(("ub", p, n))
                if kind(ll) == "call" and ll[1] in ("strlen", "strnlen") and ll[3]:
                    facts.add(("ub", "strlen(%s)" % render(ll[3][0]), n))
                return frozenset(facts)
        return user

    def on_stmt(self, func, bid, idx, stmt, env, user):
        facts = set(user)
        for n in walk(stmt["e"]):
            if n[0] == "asg" and kind(strip(n[2])) == "var":
                v = strip(n[2])[1]
                facts = {f for f in facts if not (f[1] == v)}
                r = strip(n[3])
                while kind(r) == "cast":
                    r = strip(r[2])
                if n[1] == "=" and kind(r) == "call" and r[1] in ("strlen", "strnlen") and r[3]:
                    facts.add(("len", v, render(r[3][0])))
                if n[1] == "=" and is_int(n[3]):
                    facts.add(("ub", v, int_val(n[3])))
                # `p = G[i]` (possibly through a chained assignment) with G a global 2-d char table: p points at a row of G
                rr = r
                while kind(rr) == "asg":
                    rr = strip(rr[3])
                rowN = _global_row_size(self.prog, rr)
                if n[1] == "=" and rowN:
                    facts.add(("row", v, rowN))
            elif n[0] == "call" and n[1] in COPYFN and n[3]:
                d = strip(n[3][0])
                while kind(d) == "cast":
                    d = strip(d[2])
                N = None
                if kind(d) == "mem":
                    ti = self.prog.types.get(d[4])
                    if ti and ti[0] == "arr":
                        N = ti[1]
                elif kind(d) == "var":
                    rows = [f[2] for f in facts if f[0] == "row" and f[1] == d[1]]
                    if rows:
                        N = min(rows)
                    elif d[2] == "l":
                        ti = self.prog.types.get(d[3])
                        if ti and ti[0] == "arr":
                            N = ti[1]  # a local fixed-size buffer
                if N is None:
                    continue
                ok, why = self._bounded(n, N, facts, env)
                k = (render(d), n[5])
                cur = self.sites.get(k)
                if cur is None or (cur[0] and not ok):
                    self.sites[k] = (ok, why, n[1], N)
        return frozenset(facts)

    def _ub(self, e, facts, env):
        """upper bound of an integer expression, or None"""
        e = strip(e)
        while kind(e) == "cast":
            e = strip(e[2])
        if kind(e) == "int":
            return e[1]
        if kind(e) == "bin" and e[1] == "+" and is_int(e[3]):
            a = self._ub(e[2], facts, env)
            return None if a is None else a + int_val(e[3])
        p = path(e)
        if p:
            bs = [f[2] for f in facts if f[0] == "ub" and f[1] == p]
            v = env.get(p)
            if v is not None and v[0] == "c":
                bs.append(v[1])
            if v is not None and v[0] == "rng" and v[2] is not None:
                bs.append(v[2])
            # v == strlen(x) and strlen(x) bounded
            for f in facts:
                if f[0] == "len" and f[1] == p:
                    bs += [g[2] for g in facts if g[0] == "ub" and g[1] == "strlen(%s)" % f[2]]
            return min(bs) if bs else None
        if kind(e) == "call" and e[1] in ("strlen", "strnlen") and e[3]:
            a = strip(e[3][0])
            while kind(a) == "cast":
                a = strip(a[2])
            bs = [g[2] for g in facts if g[0] == "ub" and g[1] == "strlen(%s)" % render(e[3][0])]
            # strlen of a variable whose length was measured into a bounded variable
            for f in facts:
                if f[0] == "len" and f[2] == render(e[3][0]):
                    bs += [g[2] for g in facts if g[0] == "ub" and g[1] == f[1]]
            if e[1] == "strnlen" and len(e[3]) > 1 and is_int(e[3][1]):
                bs.append(int_val(e[3][1]))
            ti = self.prog.types.get((a[4] if kind(a) == "mem" else a[3]) if kind(a) in ("mem", "var") else "")
            if ti and ti[0] == "arr":
                bs.append(ti[1] - 1)
            # lemma: the text of an NC_string is at most as long as its constructor allows
            a2 = a
            while kind(a2) in ("deref", "cast"):
                a2 = strip(a2[1] if kind(a2) == "deref" else a2[2])
            if kind(a2) == "mem" and a2[2] == "values" and a2[3] in ("NC_string",):
                b = _nc_string_bound(self.prog)
                if b is not None:
                    bs.append(b)
            return min(bs) if bs else None
        return None

    def _bounded(self, call, N, facts, env):
        nm = call[1]
        li = COPYFN[nm]
        if li is None:
            src = strip(call[3][1]) if len(call[3]) > 1 else None
            while kind(src) == "cast":
                src = strip(src[2])
            if kind(src) == "str":
                L = src[2] if len(src) > 2 and src[2] else len(src[1])
                return (L + 1 <= N), "literal of %d characters into %d bytes" % (L, N)
            ub = self._ub(["call", "strlen", None, [call[3][1]], "size_t", 0, 0, []], facts, env)
            if ub is not None and ub + 1 <= N:
                return True, "source length is at most %d on this path" % ub
            return False, "%s of `%s` whose length is not bounded on this path (destination holds %d bytes)" % (nm, render(call[3][1])[:40], N)
        ln = call[3][li] if li < len(call[3]) else None
        ub = self._ub(ln, facts, env) if ln is not None else None
        if ub is not None and ub <= N:
            return True, "length is at most %d of %d bytes" % (ub, N)
        return False, "%s with length `%s` that is not bounded by the %d-byte destination on this path" % (nm, render(ln)[:40], N)


def _nc_string_bound(prog):
    """maximum text length of an NC_string: its constructors NC_new_string / NC_re_string refuse a longer count.  Returns the
    bound only if every function that stores into NC_string.values is one of those constructors (or the XDR decoder, which
    builds the string through NC_new_string) and each has the `count > K` guard."""
    c = getattr(prog, "_nc_string_bound", False)
    if c is not False:
        return c
    bound = None
    ok = True
    writers = set()
    for f in prog.lib_funcs():
        for _b, _i, _s, x in f.nodes(True):
            if x[0] == "asg" and mem_field(x[2]) == ("NC_string", "values"):
                writers.add(f.name)
    for w in writers:
        f = prog.func(w)
        ks = []
        for b in f.blocks.values():
            t = b.get("term")
            if t and t.get("cond") is not None:
                c2 = strip(t["cond"])
                if kind(c2) == "bin" and c2[1] == ">" and kind(strip(c2[2])) == "var" and strip(c2[2])[1] == "count" and is_int(c2[3]):
                    ks.append(int_val(c2[3]))
        if not ks:
            ok = False
        else:
            bound = max(ks) if bound is None else max(bound, max(ks))
    prog._nc_string_bound = bound if (ok and writers) else None
    prog._nc_string_writers = sorted(writers)
    return prog._nc_string_bound


def _global_row_size(prog, e):
    """inner dimension B when e is `G[i]` with G a global `char G[A][B]`"""
    import re
    e = strip(e)
    if kind(e) != "idx":
        return None
    b = strip(e[1])
    if kind(b) != "var" or b[2] != "g":
        return None
    for g in prog.globals.get(b[1], []):
        m = re.match(r"^(?:unsigned |signed )?char\s*\[(\d+)\]\[(\d+)\]$", g.get("type", ""))
        if m:
            return int(m.group(2))
    return None


def rule_F2_strings(ctx):
    prog = ctx.prog
    n = 0
    for f in prog.lib_funcs():
        hit = any(x[0] == "idx" and _global_row_size(prog, x) for _b, _i, _s, x in f.nodes(True))
        for _, _, _, c in f.calls():
            if hit:
                break
            if c[1] in COPYFN and c[3]:
                d0 = strip(c[3][0])
                while kind(d0) == "cast":
                    d0 = strip(d0[2])
                if kind(d0) == "var" and d0[2] == "l":
                    ti0 = prog.types.get(d0[3])
                    if ti0 and ti0[0] == "arr":
                        hit = True
                        break
            if c[1] in COPYFN and c[3]:
                d = strip(c[3][0])
                while kind(d) == "cast":
                    d = strip(d[2])
                if kind(d) == "mem":
                    ti = prog.types.get(d[4])
                    if ti and ti[0] == "arr":
                        hit = True
        if not hit:
            continue
        a = F2s(prog)
        a.run(f)
        ordn = {}
        for (dst, line), (ok, why, fn, N) in sorted(a.sites.items(), key=lambda x: x[0][1]):
            n += 1
            ordn[dst] = ordn.get(dst, 0) + 1
            key = "F2s:%s:%s%s" % (f.name, dst, "#%d" % ordn[dst] if ordn[dst] > 1 else "")
            base = "F2s:%s:%s" % (f.name, dst)
            if ok:
                ctx.holds("F2s", key, f.where(line), why, nontrivial="literal" not in why)
            elif base in F2S_EXCEPT:
                ctx.excepted("F2s", key, f.where(line), F2S_EXCEPT[base])
            elif f.name == "HEpush" and "function_name" in dst:
                # every caller passes __func__: the bound is the longest name of a calling function
                callers = prog.callers().get("HEpush", [])
                bad = [cf.name for cf, c in callers if not (len(c[3]) > 1 and kind(strip(c[3][1])) == "str" and strip(c[3][1])[1] == "__func__")]
                longest = max([len(cf.name) for cf, c in callers] or [0])
                if not bad and longest + 1 <= N:
                    ctx.holds("F2s", key, f.where(line), "all %d callers pass __func__; the longest calling function name has %d characters (< %d)" % (
                        len(callers), longest, N))
                else:
                    ctx.violated("F2s", key, f.where(line), "function-name buffer of %d bytes: %s" % (
                        N, ("callers %s pass something other than __func__" % bad[:3]) if bad else "a calling function name has %d characters" % longest))
            else:
                ctx.violated("F2s", key, f.where(line), "fixed-size buffer `%s`: %s — a longer name or a crafted/legacy file overruns the record" % (dst, why))
    ctx.floor("F2s", 25, n, "(copies into fixed-size array fields)")


# ---------------------------------------------------------------------------------------
# F2g: indices into fixed-size global / file-static arrays

class _GlobIdx(PathAnalysis):
    MAX_STEPS = 60000

    """user = sorted tuple of (variable or expression text, inclusive upper bound) established on the path"""

    def __init__(self, prog, G):
        super().__init__(prog)
        self.G = G
        self.sites = {}
        self.maxdim = max(G.values()) if G else 0

    def init_user(self, func):
        return ()

    @staticmethod
    def _key(e):
        e = strip(e)
        if kind(e) == "var":
            return e[1]
        return render(e)

    def on_assume(self, func, bid, cond, pol, env, user):
        c = strip(cond)
        if kind(c) != "bin" or c[1] not in ("<", "<=", ">", ">=", "==", "!="):
            return user
        l, r = strip(c[2]), strip(c[3])
        op = c[1]
        if is_int(l) and not is_int(r):
            l, r = r, l
            op = {"<": ">", "<=": ">=", ">": "<", ">=": "<=", "==": "==", "!=": "!="}[op]
        if not is_int(r):
            return user
        n = int_val(r)
        k = self._key(l)
        if not pol:
            op = {"<": ">=", "<=": ">", ">": "<=", ">=": "<", "==": "!=", "!=": "=="}[op]
        ub = None
        if op == "<":
            ub = n - 1
        elif op == "<=":
            ub = n
        elif op == "==":
            ub = n
        if ub is None:
            return user
        d = dict(user)
        if k not in d or d[k] > ub:
            d[k] = ub
        return tuple(sorted(d.items()))

    def on_stmt(self, func, bid, idx, stmt, env, user):
        d = dict(user)
        e = stmt["e"]
        # uses first (the index is evaluated before an enclosing increment of the same statement takes effect)
        for x in walk(e, True):
            if x[0] == "idx":
                b = strip(x[1])
                if kind(b) == "var" and b[2] == "g" and b[1] in self.G and not is_int(strip(x[2])):
                    n = self.G[b[1]]
                    ie = strip(x[2])
                    k = self._key(ie)
                    site = (b[1], k)
                    ok = False
                    if k in d and d[k] <= n - 1:
                        ok = True
                    elif kind(ie) == "bin" and ie[1] == "&" and is_int(ie[3]) and 0 <= int_val(ie[3]) <= n - 1:
                        ok = True
                    elif kind(ie) == "bin" and ie[1] == "%" and is_int(ie[3]) and 0 < int_val(ie[3]) <= n:
                        ok = True
                    else:
                        v = env.get(ie[1]) if kind(ie) == "var" else None
                        if v is not None and ((v[0] == "c" and 0 <= v[1] <= n - 1) or (v[0] == "rng" and v[2] is not None and v[2] <= n - 1)):
                            ok = True
                    self.sites[site] = self.sites.get(site, True) and ok
        for x in walk(e, True):
            if x[0] == "incdec" and kind(strip(x[3])) == "var":
                k = strip(x[3])[1]
                if k in d:
                    d[k] = d[k] + 1 if x[1] == "++" else d[k]
                    if d[k] > self.maxdim:
                        d.pop(k)  # widening: beyond every table size the variable counts as unbounded
            elif x[0] == "asg" and kind(strip(x[2])) == "var":
                k = strip(x[2])[1]
                r = strip(x[3])
                if x[1] == "=" and is_int(r):
                    d[k] = int_val(r)
                else:
                    d.pop(k, None)
                # expressions mentioning the variable are no longer bounded either
                for kk in [kk for kk in d if kk != k and ("(" in kk and k in kk)]:
                    d.pop(kk)
        return tuple(sorted(d.items()))


F2G_EXCEPT = {
    ("HIget_function_table", "functab"): "sentinel-terminated walk: the loop stops at the {0, NULL} entry that ends the initialiser of functab (checked by the dispatch-table rule of C01)",
}


def rule_F2_globals(ctx):
    """F2g (C20): a running counter (a variable the function increments outside a for-header) that indexes a fixed-size
    global or file-static array is compared with a constant <= the array's dimension before every use, on every path (the
    bound is kept up to date across ++).  This is the token-table pattern of scanattrs; plain loop variables, masks and
    externally validated indices are not instances of this rule."""
    import re
    prog = ctx.prog
    G = {}
    for name, gl in prog.globals.items():
        for g in gl:
            m = re.search(r"\[(\d+)\]", g.get("type", ""))
            if m:
                G[name] = int(m.group(1))
    n = 0
    for f in prog.lib_funcs():
        has = False
        for _b, _i, _s, x in f.nodes(True):
            if x[0] == "idx":
                b = strip(x[1])
                if kind(b) == "var" and b[2] == "g" and b[1] in G and not is_int(strip(x[2])):
                    has = True
                    break
        if not has:
            continue
        # running counters: variables this function increments
        counters = set()
        for _b, _i, _s, x in f.nodes(True):
            if x[0] == "incdec" and x[1] == "++" and kind(strip(x[3])) == "var":
                counters.add(strip(x[3])[1])
            elif x[0] == "asg" and x[1] == "+=" and kind(strip(x[2])) == "var":
                counters.add(strip(x[2])[1])
        # loop variables of `for (v = ..; v < ..; v++)` are bounded by their loop and are not what this rule is about
        from .codec import ast_walk
        loopvars = set()

        def lv(nn, st):
            if nn[0] == "for" and nn[2] is not None:
                c = strip(nn[2])
                # only loops with a *constant* bound take their variable out of the rule: `for (j = 0; j < vs->nusym; j++)`
                # bounds j by a run-time count that says nothing about the size of a static table indexed with j
                if kind(c) == "bin" and kind(strip(c[2])) == "var" and is_int(strip(c[3])):
                    loopvars.add(strip(c[2])[1])
            return True
        ast_walk(f.raw.get("ast"), lv)
        counters -= loopvars
        if not counters:
            continue
        a = _GlobIdx(prog, G)
        a.fails = fail_values(f, prog)
        try:
            a.run(f)
        except Exception as e:
            ctx.excepted("F2g", "F2g:%s" % f.name, f.where(), "not decided: %s" % e)
            continue
        for (arr, k), ok in sorted(a.sites.items()):
            if k not in counters:
                continue
            n += 1
            key = "F2g:%s:%s[%s]" % (f.name, arr, k[:30])
            if ok:
                ctx.holds("F2g", key, f.where(), "index bounded by the dimension %d of `%s` on every path" % (G[arr], arr), nontrivial=True)
            elif (f.name, arr) in F2G_EXCEPT:
                ctx.excepted("F2g", key, f.where(), F2G_EXCEPT[(f.name, arr)])
            else:
                ctx.violated("F2g", key, f.where(), "`%s[%s]` is used on a path where `%s` is not known to be below the array dimension %d" % (arr, k[:40], k[:40], G[arr]))
    ctx.floor("F2g", 2, n, "(running counters used as index into fixed-size global arrays)")
    return n


# ---------------------------------------------------------------------------------------
# PARALLEL: arrays filled side by side by one running counter have the same size

def rule_parallel_arrays(ctx):
    """PARALLEL (C20): when one running counter fills two local arrays in lock-step (`tags[n] = ..; refs[n] = ..; n++`), the
    two arrays must have the same dimension -- the smaller one is the real capacity of the pair and the larger one hides an
    overrun of its sibling (hdf_write_var's tags[] was 8 entries shorter than refs[])."""
    prog = ctx.prog
    n = 0
    for f in prog.lib_funcs():
        # local fixed arrays stored through `A[v] = ..` with a plain variable index
        stores = {}
        perblock = {}
        for _b, _i, st, x in f.nodes(True):
            if x[0] == "asg" and x[1] == "=":
                t = strip(x[2])
                if kind(t) == "idx" and kind(strip(t[1])) == "var" and strip(t[1])[2] == "l" and kind(strip(t[2])) == "var":
                    a = strip(t[1])
                    ti = prog.types.get(a[3])
                    if ti and ti[0] == "arr":
                        perblock.setdefault((strip(t[2])[1], _b), {}).setdefault(a[1], (ti[1], x[4]))
        # lock-step = stored with the same index variable inside the same basic block
        for (v, _blk), arrs in perblock.items():
            if len(arrs) >= 2:
                stores.setdefault(v, {}).update(arrs)
        # running counters only
        counters = set()
        for _b, _i, _s, x in f.nodes(True):
            if x[0] == "incdec" and x[1] == "++" and kind(strip(x[3])) == "var":
                counters.add(strip(x[3])[1])
        for v, arrs in stores.items():
            if v not in counters or len(arrs) < 2:
                continue
            n += 1
            key = "PARALLEL:%s:%s" % (f.name, v)
            dims = {a: d for a, (d, _l) in arrs.items()}
            if len(set(dims.values())) == 1:
                ctx.holds("PARALLEL", key, f.where(), "arrays %s filled by `%s` all have %d elements" % (", ".join(sorted(dims)), v, next(iter(dims.values()))), nontrivial=True)
            else:
                small = min(dims, key=dims.get)
                ctx.violated("PARALLEL", key, f.where(arrs[small][1]), "`%s` fills %s side by side, but `%s` has only %d elements: it is overrun before its sibling is full" % (
                    v, ", ".join("%s[%d]" % (a, d) for a, d in sorted(dims.items())), small, dims[small]))
    ctx.floor("PARALLEL", 3, n, "(counters filling several local arrays in lock-step)")
    return n


def rule_ref_tables(ctx):
    """REFTABLE (C20): reference numbers run from 1 to MAX_REF (65535) inclusive.  A table that is indexed by reference number
    therefore needs MAX_REF + 1 entries; an allocation of exactly MAX_REF entries (or bytes per entry times MAX_REF) whose
    result is indexed by a variable is one short for the highest legal reference."""
    prog = ctx.prog
    n = 0
    for f in prog.lib_funcs():
        for _b, _i, st, x in f.nodes(True):
            if x[0] != "asg" or x[1] != "=" or kind(strip(x[2])) != "var":
                continue
            r = strip(x[3])
            while kind(r) == "cast":
                r = strip(r[2])
            if kind(r) != "call" or r[1] not in ("calloc", "malloc"):
                continue
            consts = [int_val(a) for a in r[3] if is_int(a)]
            for a in r[3]:
                for y in walk(a, True):
                    if y[0] == "int":
                        consts.append(y[1])
            if not any(c in (65535, 65536) for c in consts):
                continue
            v = strip(x[2])[1]
            indexed = any(y[0] == "idx" and kind(strip(y[1])) == "var" and strip(y[1])[1] == v and not is_int(strip(y[2])) for _b2, _i2, _s2, y in f.nodes(True))
            if not indexed:
                continue
            n += 1
            key = "REFTABLE:%s:%s" % (f.name, v)
            if 65536 in consts:
                ctx.holds("REFTABLE", key, f.where(r[5]), "`%s` has MAX_REF + 1 entries" % v, nontrivial=True)
            else:
                ctx.violated("REFTABLE", key, f.where(r[5]), "`%s` is allocated with MAX_REF (65535) entries and indexed by a variable: the highest legal reference number 65535 is one past the end" % v)
    ctx.floor("REFTABLE", 2, n, "(tables sized by MAX_REF and indexed by a variable)")
    return n


def rule_unbounded_name_reads(ctx):
    """NAMEBUF (C20, C08): the name and the class of a Vgroup have no length limit (Vsetname / Vsetclass accept any length), and
    Vgetname / Vgetclass copy them into the caller's buffer with strcpy.  Inside the library every such call whose destination
    is a fixed-size array must be preceded, in the same routine, by the matching length query (Vgetnamelen / Vgetclassnamelen):
    without it any file that contains a Vgroup with a longer name or class overruns the array when the interface merely opens
    the file.  (Destinations that are pointers are allocated from the queried length or belong to the caller.)"""
    import re
    from .facts import kind, strip, render
    prog = ctx.prog
    n = 0
    NEED = {"Vgetclass": "Vgetclassnamelen", "Vgetname": "Vgetnamelen", "Vinquire": "Vgetnamelen"}
    DEST = {"Vgetclass": 1, "Vgetname": 1, "Vinquire": 2}
    occ = {}
    for f in prog.lib_funcs():
        names = {c[1] for _b, _i, _s, c in f.calls()}
        for _b, _i, s, c in f.calls():
            if c[1] not in NEED or len(c[3]) <= DEST[c[1]]:
                continue
            a = strip(c[3][DEST[c[1]]])
            t = a[3] if kind(a) == "var" and len(a) > 3 else ""
            m = re.search(r"\[(\d+)\]$", t or "")
            if not m:
                continue
            n += 1
            key = "NAMEBUF:%s:%s" % (f.name, a[1])
            occ[key] = occ.get(key, 0) + 1
            if occ[key] > 1:
                key += "#%d" % occ[key]
            line = s.get("l", f.line)
            if NEED[c[1]] in names:
                # the queried length is compared with a constant that fits the array: `len <= K` / refusal on `len > K` admit K + 1
                # bytes with the terminator, `len < K` / refusal on `len >= K` admit K
                from .facts import is_int, int_val, walk
                lenvars = set()
                for _b2, _i2, _s2, k2 in f.calls():
                    if k2[1] == NEED[c[1]] and len(k2[3]) > 1:
                        t2 = strip(k2[3][1])
                        if kind(t2) == "addr" and kind(strip(t2[1])) == "var":
                            lenvars.add(strip(t2[1])[1])
                admits = []
                for _b3, _i3, _s3, x in f.nodes(True):
                    if x[0] == "bin" and x[1] in ("<", "<=", ">", ">="):
                        l_, r_ = strip(x[2]), strip(x[3])
                        if kind(l_) == "var" and l_[1] in lenvars and is_int(r_):
                            admits.append(int_val(r_) + (1 if x[1] in ("<=", ">") else 0))
                        elif kind(r_) == "var" and r_[1] in lenvars and is_int(l_):
                            admits.append(int_val(l_) + (1 if x[1] in (">=", "<") else 0))
                size = int(m.group(1))
                if admits and max(admits) > size:
                    ctx.violated("NAMEBUF", key, f.where(line), "%s() is queried, but the length is admitted up to %d bytes (with the terminator) while `%s` holds %d: a class or name in between overruns the array" % (NEED[c[1]], max(admits), a[1], size))
                    continue
                ctx.holds("NAMEBUF", key, f.where(line), "%s() is queried in the same routine before %s copies into `%s` (%s bytes)" % (NEED[c[1]], c[1], a[1], m.group(1)), nontrivial=True)
            else:
                ctx.violated("NAMEBUF", key, f.where(line), "%s() copies a Vgroup's %s, which has no length limit, into `%s` (%s bytes) and the routine never asks for its length: a longer one overruns the array" %
                             (c[1], "class" if "class" in c[1] else "name", a[1], m.group(1)))
    # the helper idiom: a routine that queries the length, compares it with a constant K and only then copies into its pointer
    # parameter is a bounded reader of K bytes; the arrays its callers hand it must hold K bytes
    from .facts import is_int, int_val, walk
    wrappers = {}
    for f in prog.lib_funcs():
        params = [q[0] for q in f.params]
        calls = list(f.calls())
        for _b, _i, _s, c in calls:
            if c[1] in NEED and len(c[3]) > DEST[c[1]] and kind(strip(c[3][DEST[c[1]]])) == "var" and strip(c[3][DEST[c[1]]])[1] in params and any(k[1] == NEED[c[1]] for _b2, _i2, _s2, k in calls):
                # `len >= K` refused: K bytes suffice; `len > K` refused: K + 1 bytes (the terminator)
                ks = [int_val(x[3]) + (1 if x[1] == ">" else 0) for _b3, _i3, _s3, x in f.nodes(True) if x[0] == "bin" and x[1] in (">=", ">") and is_int(x[3]) and int_val(x[3]) > 8]
                if ks:
                    wrappers[f.name] = (min(ks), params.index(strip(c[3][DEST[c[1]]])[1]))
    for f in prog.lib_funcs():
        for _b, _i, s, c in f.calls():
            if c[1] not in wrappers or len(c[3]) <= wrappers[c[1]][1]:
                continue
            a = strip(c[3][wrappers[c[1]][1]])
            t = a[3] if kind(a) == "var" and len(a) > 3 else ""
            m = re.search(r"\[(\d+)\]$", t or "")
            if not m:
                continue
            n += 1
            key = "NAMEBUF:%s:%s" % (f.name, a[1])
            occ[key] = occ.get(key, 0) + 1
            if occ[key] > 1:
                key += "#%d" % occ[key]
            if int(m.group(1)) >= wrappers[c[1]][0]:
                ctx.holds("NAMEBUF", key, f.where(s.get("l", f.line)), "`%s` (%s bytes) is filled by %s(), which copies only after comparing the queried length with %d" % (a[1], m.group(1), c[1], wrappers[c[1]][0]), nontrivial=True)
            else:
                ctx.violated("NAMEBUF", key, f.where(s.get("l", f.line)), "%s() admits %d bytes but `%s` holds %s" % (c[1], wrappers[c[1]][0], a[1], m.group(1)))
    ctx.floor("NAMEBUF", 5, n, "(Vgroup name/class reads into fixed arrays inside the library)")
    return n
