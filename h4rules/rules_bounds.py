"""F2 bounded writes into caller-supplied output arrays and fixed-size name buffers."""
from .facts import kind, strip, walk, path, base_var, render, int_val, is_int, calls_in, mem_field
from .flow import PathAnalysis, fail_values, classify_ret, normalise_cmp, NEG, SWAP

# slot fillers: parameter names that carry the caller's capacity / the output arrays
CAP_PARAMS = {"info_count", "size", "pal_count"}
ARR_PARAMS = {"offsetarray", "lengtharray", "palinfo_array"}


class F2(PathAnalysis):
    """facts: ('lt', a, b)  a < b established since the last change of a or b
              ('le', a, b)  a <= b  (clamp)"""

    def __init__(self, prog, arrs, caps, family):
        super().__init__(prog)
        self.arrs = arrs
        self.caps = caps
        self.family = family
        self.sites = {}  # (line, arr, idxrender) -> [ok bool, detail]

    def init_user(self, func):
        return frozenset()

    def _kill(self, facts, name):
        return frozenset(f for f in facts if f[1] != name and f[2] != name)

    def _bounded(self, idx, facts, env):
        """is index expression idx known < some capacity parameter?"""
        idx = strip(idx)
        if kind(idx) == "int":
            k = idx[1]
            for c in self.caps:
                v = env.get(c)
                if v is not None and ((v[0] == "ne" and v[1] == 0 and k == 0) or (v[0] == "c" and v[1] > k)):
                    return True, "%s != 0 on this path" % c
                if ("gt0", c, c) in facts and k == 0:
                    return True, "%s > 0 on this path" % c
            return False, "constant index %d with no established `capacity > %d`" % (k, k)
        p = path(idx)
        if p is None:
            return False, "index `%s` is not a simple variable" % render(idx)
        for f in facts:
            if f[0] == "lt" and f[1] == p:
                if f[2] in self.caps:
                    return True, "%s < %s" % (p, f[2])
                if ("le", f[2], None) in facts or any(g[0] == "le" and g[1] == f[2] and g[2] in self.caps for g in facts):
                    return True, "%s < %s <= capacity" % (p, f[2])
        return False, "no dominating `%s < capacity` since the last change of `%s`" % (p, p)

    def _site(self, line, arr, idx, facts, env):
        ok, why = self._bounded(idx, facts, env)
        k = (arr, render(idx))
        cur = self.sites.get(k)
        if cur is None or (cur[0] and not ok):
            self.sites[k] = [ok, why, line]

    def on_stmt(self, func, bid, idx, stmt, env, user):
        facts = user
        for n in walk(stmt["e"]):
            k = n[0]
            if k == "asg":
                t = strip(n[2])
                if kind(t) == "idx" and kind(strip(t[1])) == "var" and strip(t[1])[1] in self.arrs:
                    self._site(n[4], strip(t[1])[1], t[2], facts, env)
                if kind(t) == "var":
                    facts = self._kill(facts, t[1])
                    r = strip(n[3])
                    if n[1] == "=" and kind(r) == "var":
                        # x = cap  =>  x <= cap
                        facts = facts | {("le", t[1], r[1])}
                        if r[1] in self.caps:
                            pass
                        else:
                            for g in list(facts):
                                if g[0] == "le" and g[1] == r[1]:
                                    facts = facts | {("le", t[1], g[2])}
            elif k == "incdec":
                t = strip(n[3])
                if kind(t) == "var":
                    facts = self._kill(facts, t[1])
            elif k == "decl":
                for d in n[1]:
                    facts = self._kill(facts, d[0])
            elif k == "addr":
                t = strip(n[1])
                if kind(t) == "idx" and kind(strip(t[1])) == "var" and strip(t[1])[1] in self.arrs:
                    self._site(stmt["l"], strip(t[1])[1], t[2], facts, env)
                elif kind(t) == "mem":
                    b = strip(t[1])
                    if kind(b) == "idx" and kind(strip(b[1])) == "var" and strip(b[1])[1] in self.arrs:
                        self._site(stmt["l"], strip(b[1])[1], b[2], facts, env)
            elif k == "call":
                # forwarding the array to another member of the family: capacity must be forwarded unchanged
                fam = self.family.get(n[1])
                if fam:
                    cap_i, arr_is = fam
                    for ai in arr_is:
                        if ai < len(n[3]):
                            a = strip(n[3][ai])
                            if kind(a) == "var" and a[1] in self.arrs:
                                c = strip(n[3][cap_i]) if cap_i < len(n[3]) else None
                                ok = c is not None and kind(c) == "var" and c[1] in self.caps
                                kk = (a[1], "->%s" % n[1])
                                cur = self.sites.get(kk)
                                if cur is None or (cur[0] and not ok):
                                    self.sites[kk] = [ok, "array forwarded to %s with capacity argument `%s`" % (n[1], render(c)), n[5]]
        return facts

    def on_assume(self, func, bid, cond, pol, env, user):
        c = strip(cond)
        if kind(c) == "bin" and c[1] in ("<", "<=", ">", ">="):
            l, op, r = strip(c[2]), c[1], strip(c[3])
            if not pol:
                op = NEG[op]
            if op in (">", ">="):
                l, r, op = r, l, SWAP[op]
            lp, rp = path(l), path(r)
            if lp and rp:
                if op == "<":
                    return user | {("lt", lp, rp)}
                if op == "<=":
                    return user | {("le", lp, rp)}
            # 0 < cap  /  cap > 0
            if op == "<" and is_int(l, 0) and rp in self.caps:
                return user | {("gt0", rp, rp)}
        return user


def rule_F2_arrays(ctx):
    prog = ctx.prog
    family = {}
    funcs = []
    for f in prog.lib_funcs():
        pn = [p[0] for p in f.params]
        arrs = [i for i, p in enumerate(pn) if p in ARR_PARAMS]
        caps = [i for i, p in enumerate(pn) if p in CAP_PARAMS]
        if arrs and caps:
            family[f.name] = (caps[0], arrs)
            funcs.append(f)
    n = 0
    for f in funcs:
        pn = [p[0] for p in f.params]
        a = F2(prog, {p for p in pn if p in ARR_PARAMS}, {p for p in pn if p in CAP_PARAMS}, family)
        a.run(f)
        if not a.sites:
            ctx.holds("F2", "F2:%s" % f.name, f.where(), "no direct store into the caller's arrays (only forwards / counts)", nontrivial=False)
        for (arr, idx), (ok, why, line) in sorted(a.sites.items()):
            n += 1
            key = "F2:%s:%s[%s]" % (f.name, arr, idx)
            if ok:
                ctx.holds("F2", key, f.where(line), why)
            else:
                ctx.violated("F2", key, f.where(line),
                             "store into caller-supplied array `%s` is reachable with %s — more entries than the caller's "
                             "capacity can be written" % (arr, why))
    ctx.floor("F2", 8, len(funcs), "(functions with a capacity parameter and an output array)")
    ctx.floor("F2-sites", 8, n, "(store/forward sites into caller arrays)")
