"""C10 (persistence clause): an attribute that was set is written out at close.

HDIRTY  SD interface: every non-failing path of a public SD function on which SDIputattr (the one routine that puts or
        replaces an entry of an attribute list) was seen to succeed also executes `handle->flags |= NC_HDIRTY`; without
        it SDend does not rewrite the header Vgroups and the attribute is lost at close.
GRATTR  GR interface: every non-failing path that marks an attribute's cached value as changed (`data_modified = TRUE`) or
        inserts an attribute node into an attribute tree also sets the owner's change flag (`attr_modified` /
        `gattr_modified`, directly or through the `update_flag` pointer that was loaded with one of them).
(Vgroup / Vdata attributes are covered by F3c: their attribute lists are persisted fields of the vgroup_desc/vdata_desc
records and every store to them must come with `marked`.)
"""
from .facts import kind, strip, walk, path, render, int_val, is_int, calls_in, mem_field, base_var
from .flow import PathAnalysis, fail_values, classify_ret, call_key

NC_HDIRTY = 0x80


class _HDirty(PathAnalysis):
    """user = (put succeeded, header marked dirty)"""

    def __init__(self, prog):
        super().__init__(prog)
        self.bad = []
        self.puts = set()

    def init_user(self, func):
        return (None, False)

    def on_call_outcome(self, func, call, outcome, env, user):
        if call[1] == "SDIputattr" and outcome == "ok":
            return (call[5], user[1])
        return user

    def on_stmt(self, func, bid, idx, stmt, env, user):
        put, dirty = user
        for c in calls_in(stmt["e"]):
            if c[1] == "SDIputattr":
                self.puts.add((c[5], c[6]))
        for x in walk(stmt["e"], True):
            if x[0] == "asg" and x[1] == "|=" and (mem_field(x[2]) or (0, 0))[1] == "flags":
                r = strip(x[3])
                if is_int(r) and int_val(r) & NC_HDIRTY:
                    dirty = True
        return (put, dirty)

    def on_exit(self, func, bid, retval, env, user):
        put, dirty = user
        if put is not None and not dirty and classify_ret(retval, self.fails) != "fail":
            self.bad.append(put)


def rule_hdirty(ctx):
    prog = ctx.prog
    n = 0
    for f in prog.lib_funcs():
        if not f.rel.endswith("mfsd.c"):
            continue
        if not any(c[1] == "SDIputattr" for _, _, _, c in f.calls()):
            continue
        a = _HDirty(prog)
        a.fails = fail_values(f, prog)
        a.run(f)
        n += len(a.puts)
        key = "HDIRTY:%s" % f.name
        if a.bad:
            ctx.violated("HDIRTY", key, f.where(min(a.bad)), "a non-failing path stores an attribute with SDIputattr() (line %d) without setting NC_HDIRTY on the file handle: "
                         "SDend would not rewrite the header and the attribute is lost at close" % min(a.bad))
        else:
            ctx.holds("HDIRTY", key, f.where(), "%d SDIputattr site(s): NC_HDIRTY set on every non-failing path that stored an attribute" % len(a.puts), nontrivial=True)
    ctx.floor("HDIRTY", 12, n, "(SDIputattr call sites in the SD interface)")
    return n


class _GRAttr(PathAnalysis):
    """user = (line of the first unflagged attribute change, owner flag set)"""

    def __init__(self, prog):
        super().__init__(prog)
        self.bad = []
        self.bad_gr = []
        self.changes = set()
        self.flagptrs = set()

    def init_user(self, func):
        # pointer locals loaded with the address of an owner flag
        self.flagptrs = set()
        for _b, _i, _s, n in func.nodes(True):
            if n[0] == "asg" and n[1] == "=" and kind(strip(n[2])) == "var":
                r = strip(n[3])
                if kind(r) == "addr" and (mem_field(r[1]) or (0, 0))[1] in ("attr_modified", "gattr_modified"):
                    self.flagptrs.add(strip(n[2])[1])
        return (None, False, False, False)

    def on_stmt(self, func, bid, idx, stmt, env, user):
        chg, flagged, local, grmod = user
        for x in walk(stmt["e"], True):
            if x[0] == "asg" and x[1] == "=":
                mf = mem_field(x[2])
                r = strip(x[3])
                nonzero = not (is_int(r) and int_val(r) == 0)
                if kind(strip(x[2])) == "var" and kind(r) == "addr" and (mem_field(r[1]) or (0, 0))[1] == "attr_modified":
                    local = True  # the owner of the attribute is an image, not the file
                if mf and mf[1] == "attr_modified" and nonzero:
                    local = True
                if mf and mf[1] == "gr_modified" and nonzero:
                    grmod = True
                if mf and mf[1] == "data_modified" and mf[0] in ("at_info", "at_info_t") and nonzero:
                    self.changes.add(x[4])
                    if chg is None:
                        chg = x[4]
                elif mf and mf[1] in ("attr_modified", "gattr_modified") and nonzero:
                    flagged = True
                elif kind(strip(x[2])) == "deref" and base_var(strip(x[2])[1]) in self.flagptrs and nonzero:
                    flagged = True
            elif x[0] == "call" and x[1] == "tbbtdins" and x[3]:
                p = path(x[3][0]) or ""
                if "attree" in p or p == "search_tree":
                    self.changes.add(x[5])
                    if chg is None:
                        chg = x[5]
        return (chg, flagged, local, grmod)

    def on_exit(self, func, bid, retval, env, user):
        chg, flagged, local, grmod = user
        if chg is not None and not flagged and classify_ret(retval, self.fails) != "fail":
            self.bad.append(chg)
        elif chg is not None and local and not grmod and classify_ret(retval, self.fails) != "fail":
            self.bad_gr.append(chg)


GRATTR_NOT_MUTATORS = {
    "GRIget_image_list": "reader: builds the in-memory attribute trees from the file (nothing to write back)",
    "GRIup_attr_data": "the flush itself: writes the attribute and clears its data_modified",
}


def rule_grattr(ctx):
    prog = ctx.prog
    n = 0
    for f in prog.lib_funcs():
        if not f.rel.endswith("mfgr.c"):
            continue
        a = _GRAttr(prog)
        a.fails = fail_values(f, prog)
        try:
            a.run(f)
        except Exception as e:
            if "state explosion" in str(e) and f.name in GRATTR_NOT_MUTATORS:
                continue
            raise
        if not a.changes:
            continue
        key = "GRATTR:%s" % f.name
        if f.name in GRATTR_NOT_MUTATORS:
            ctx.excepted("GRATTR", key, f.where(), GRATTR_NOT_MUTATORS[f.name])
            continue
        n += len(a.changes)
        if a.bad:
            ctx.violated("GRATTR", key, f.where(min(a.bad)), "an attribute is changed (line %d) on a non-failing path that never sets the owner's attr_modified / gattr_modified flag: "
                         "GRend would not write the new value" % min(a.bad))
        elif a.bad_gr:
            ctx.violated("GRATTR", key, f.where(min(a.bad_gr)), "an image's attribute is changed (line %d) on a non-failing path that never sets gr_modified: GRend skips its loop over the images "
                         "unless that flag is set, so the new value is not written" % min(a.bad_gr))
        else:
            ctx.holds("GRATTR", key, f.where(), "%d attribute change(s): the owner's change flag (and gr_modified for an image's attribute) is set on every non-failing path" % len(a.changes), nontrivial=True)
    ctx.floor("GRATTR", 3, n, "(attribute changes in the GR interface)")
    return n


def rule_grattr_link(ctx):
    """GRLINK: GRend writes out attributes in two loops (per image, global).  An attribute created in this session
    (`new_at`) must be linked into its Vgroup whether or not its data still has to be written (`data_modified`): GRsetattr
    writes attributes that are too large to cache at once and leaves data_modified FALSE.  Every `if` on `new_at` in GRend is
    therefore not nested inside an `if` on `data_modified`, and its body links the attribute with Vaddtagref."""
    from .codec import ast_walk
    prog = ctx.prog
    f = prog.func("GRend")
    if f is None:
        ctx.unrecognised("GRLINK", "GRLINK:GRend", "-", "GRend not found")
        return 0
    found = []

    def mentions(e, fld):
        return any(x[0] == "mem" and x[2] == fld for x in walk(e, True))

    def vis(n, st):
        if n[0] == "if" and mentions(n[1], "new_at"):
            nested = [s for s in st if s[0] == "if" and mentions(s[1], "data_modified")]
            from .codec import ast_calls
            links = [c for c in ast_calls(n[2]) if c[1] == "Vaddtagref"]
            found.append((n, bool(nested), bool(links)))
        return True
    ast_walk(f.raw.get("ast"), vis)
    for i, (n, nested, links) in enumerate(found):
        key = "GRLINK:GRend#%d" % (i + 1)
        if nested:
            ctx.violated("GRLINK", key, f.where(n[-3] if isinstance(n[-3], int) else None), "the `new_at` test is nested inside a `data_modified` test: a new attribute whose data was already written "
                         "(too large to cache) is never linked into its Vgroup and is lost at close")
        elif not links:
            ctx.violated("GRLINK", key, f.where(), "the `new_at` branch no longer links the attribute with Vaddtagref")
        else:
            ctx.holds("GRLINK", key, f.where(), "new attributes are linked independently of data_modified", nontrivial=True)
    ctx.floor("GRLINK", 2, len(found), "(new_at tests in GRend: per-image and global loop)")
    return len(found)


class _AttrType(PathAnalysis):
    creators = ("NC_new_attr", "H4_NC_new_attr")

    def __init__(self, prog):
        super().__init__(prog)
        self.bad = []
        self.sites = set()

    def init_user(self, func):
        return None

    def on_stmt(self, func, bid, idx, stmt, env, user):
        for c in calls_in(stmt["e"]):
            if c[1] in self.creators:
                self.sites.add((c[5], c[6]))
                user = c[5]
        for x in walk(stmt["e"], True):
            if x[0] == "asg" and x[1] == "=" and (mem_field(x[2]) or (0, 0))[1] == "HDFtype":
                user = None
        return user

    def on_exit(self, func, bid, retval, env, user):
        if user is not None and classify_ret(retval, self.fails) != "fail":
            self.bad.append(user)


def rule_attr_hdftype(ctx):
    """ATTRTYPE: NC_new_attr derives the attribute's HDF number type from the netCDF type, which cannot express unsigned
    (and UCHAR) types; every SD-layer function that creates an attribute from a caller-supplied HDF number type therefore
    stores `->HDFtype` itself afterwards -- on the replace-existing path as well as on the new-attribute paths -- or the type
    reported (and written to the file) changes from unsigned to signed."""
    prog = ctx.prog
    n = 0
    for f in prog.lib_funcs():
        if not f.rel.endswith("mfsd.c"):
            continue
        if not any(c[1] in ("NC_new_attr", "H4_NC_new_attr") for _, _, _, c in f.calls()):
            continue
        a = _AttrType(prog)
        a.fails = fail_values(f, prog)
        a.run(f)
        n += len(a.sites)
        key = "ATTRTYPE:%s" % f.name
        if a.bad:
            ctx.violated("ATTRTYPE", key, f.where(min(a.bad)), "an attribute created by NC_new_attr() at line %d reaches a non-failing return without its HDFtype being set from the caller's number type: "
                         "unsigned types are reported and stored as signed" % min(a.bad))
        else:
            ctx.holds("ATTRTYPE", key, f.where(), "%d NC_new_attr site(s): HDFtype stored on every non-failing path" % len(a.sites), nontrivial=True)
    ctx.floor("ATTRTYPE", 3, n, "(NC_new_attr call sites in the SD interface)")
    # the in-place update: NC_re_array() re-types the value array of an existing attribute; the attribute's HDF number type is
    # a separate field and has to follow on every non-failing path (SD reports and hdf_write_attr stores HDFtype, not the nc type)
    m = 0
    for f in prog.lib_funcs():
        if not f.rel.startswith("mfhdf/src/"):
            continue
        sites = [c for _, _, _, c in f.calls() if c[1] in ("NC_re_array", "H4_NC_re_array") and c[3] and any(y[0] == "mem" and y[2] == "data" and y[3] == "NC_attr" for y in walk(c[3][0], True))]
        if not sites:
            continue
        a = _AttrType(prog)
        a.creators = ("NC_re_array", "H4_NC_re_array")
        a.fails = fail_values(f, prog)
        a.run(f)
        m += len(sites)
        key = "ATTRTYPE:%s:retype" % f.name
        if a.bad:
            ctx.violated("ATTRTYPE", key, f.where(min(a.bad)), "the value array of an existing attribute is re-typed by NC_re_array() at line %d and a non-failing return is reached without updating the "
                         "attribute's HDFtype: the SD interface and the file keep reporting the old number type for the new bytes" % min(a.bad))
        else:
            ctx.holds("ATTRTYPE", key, f.where(), "%d in-place re-typing site(s): HDFtype follows on every non-failing path" % len(sites), nontrivial=True)
    ctx.floor("ATTRTYPE", 1, m, "(NC_re_array calls on attribute values)")
    return n + m


def rule_attr_count_kept(ctx):
    """ATTRCOUNT (C10): an attribute is stored as a Vdata of `n` records of `order` values; its count is n * order (the writer
    uses order = count for DFNT_CHAR and n = count for everything else).  In hdf_read_attrs the record count that VSinquire
    returned must therefore reach NC_new_attr: it may be scaled, never replaced by a value that does not depend on it."""
    from .facts import base_var
    prog = ctx.prog
    f = prog.func("hdf_read_attrs")
    if f is None:
        ctx.unrecognised("ATTRCOUNT", "ATTRCOUNT:hdf_read_attrs", "-", "hdf_read_attrs not found")
        return 0
    nrec = None
    for _b, _i, _s, c in f.calls():
        if c[1] == "VSinquire" and len(c[3]) >= 2 and kind(strip(c[3][1])) == "addr":
            nrec = base_var(c[3][1])
    sink = [c for _b, _i, _s, c in f.calls() if c[1] in ("NC_new_attr", "H4_NC_new_attr") and len(c[3]) >= 3]
    if nrec is None or not sink:
        ctx.unrecognised("ATTRCOUNT", "ATTRCOUNT:hdf_read_attrs", f.where(), "VSinquire(&count) / NC_new_attr(.., count, ..) not found")
        return 0
    key = "ATTRCOUNT:hdf_read_attrs:%s" % nrec
    if not any(x[0] == "var" and x[1] == nrec for x in walk(sink[0][3][2], True)):
        ctx.violated("ATTRCOUNT", key, f.where(sink[0][5]), "NC_new_attr is given `%s` as the attribute's count, which is not the record count VSinquire returned (`%s`)" % (render(sink[0][3][2])[:40], nrec))
        return 1
    kills = [x for _b, _i, _s, x in f.nodes(True) if x[0] == "asg" and x[1] == "=" and kind(strip(x[2])) == "var" and strip(x[2])[1] == nrec
             and not any(y[0] == "var" and y[1] == nrec for y in walk(x[3], True))]
    if kills:
        ctx.violated("ATTRCOUNT", key, f.where(kills[0][4]), "`%s` discards the record count of the attribute Vdata: an attribute stored as several records (every type but DFNT_CHAR) comes back "
                     "with the field order as its count" % render(kills[0])[:60])
    else:
        ctx.holds("ATTRCOUNT", key, f.where(sink[0][5]), "the record count `%s` reaches NC_new_attr (scaled by the field order for character types)" % nrec, nontrivial=True)
    return 1


class _DimDirty(PathAnalysis):
    """user = (line of the first change of a dimension's name or identity, header marked dirty)"""

    def __init__(self, prog):
        super().__init__(prog)
        self.bad = []
        self.changes = set()
        self.slotptrs = set()

    def init_user(self, func):
        # locals that point into the file's dimension array (`ap = handle->dims->values; ap += ...`)
        self.slotptrs = set()
        for _b, _i, _s, n in func.nodes(True):
            if n[0] == "asg" and n[1] == "=" and kind(strip(n[2])) == "var":
                if any(y[0] == "mem" and y[2] == "values" and any(z[0] == "mem" and z[2] == "dims" for z in walk(y[1], True)) for y in walk(n[3], True)):
                    self.slotptrs.add(strip(n[2])[1])
        return (None, False)

    def on_stmt(self, func, bid, idx, stmt, env, user):
        chg, dirty = user
        for x in walk(stmt["e"], True):
            if x[0] == "asg" and x[1] == "=":
                t = strip(x[2])
                mf = mem_field(t)
                if mf == ("NC_dim", "name") or (kind(t) == "deref" and base_var(t[1]) in self.slotptrs):
                    self.changes.add(x[4])
                    if chg is None:
                        chg = x[4]
            if x[0] == "asg" and x[1] == "|=" and (mem_field(x[2]) or (0, 0))[1] == "flags":
                r = strip(x[3])
                if is_int(r) and int_val(r) & NC_HDIRTY:
                    dirty = True
        return (chg, dirty)

    def on_exit(self, func, bid, retval, env, user):
        chg, dirty = user
        if chg is not None and not dirty and classify_ret(retval, self.fails) != "fail":
            self.bad.append(chg)


def rule_dim_dirty(ctx):
    """DIMDIRTY (C10): a public SD function that renames a dimension (stores NC_dim.name) or makes a data set use another
    dimension object (stores into a slot of handle->dims->values) sets NC_HDIRTY on every non-failing path; without it SDend
    does not rewrite the dimension Vgroups and the change is lost when it is the only change of the session."""
    prog = ctx.prog
    n = 0
    for f in prog.lib_funcs():
        if not f.rel.endswith("mfsd.c") or not prog.is_public(f.name):
            continue
        a = _DimDirty(prog)
        a.fails = fail_values(f, prog)
        a.run(f)
        if not a.changes:
            continue
        n += len(a.changes)
        key = "DIMDIRTY:%s" % f.name
        if a.bad:
            ctx.violated("DIMDIRTY", key, f.where(min(a.bad)), "a non-failing path changes a dimension's name or identity (line %d) without setting NC_HDIRTY: SDend would not write the change" % min(a.bad))
        else:
            ctx.holds("DIMDIRTY", key, f.where(), "%d change(s) of a dimension's name/identity: NC_HDIRTY set on every non-failing path" % len(a.changes), nontrivial=True)
    ctx.floor("DIMDIRTY", 2, n, "(stores to a dimension's name or to a slot of the dimension array in the public SD functions)")
    return n


def rule_gr_cache_threshold(ctx):
    """CACHETHRESH (C10): GRsetattr keeps the new value of a replaced attribute in memory (to be written at GRend) unless it is larger
    than the cache threshold, in which case it is written through at once.  GRgetattr discards its in-memory copy after a read
    when the attribute is 'too large to keep'.  The two tests must draw the line at the same place: if GRgetattr discards a value
    that GRsetattr only cached, the one copy of the new value is gone — later reads and GRend see the old value."""
    from .codec import ast_walk, ast_calls
    prog = ctx.prog
    fs, fg = prog.func("GRsetattr"), prog.func("GRgetattr")
    key = "CACHETHRESH:GRsetattr/GRgetattr"
    if fs is None or fg is None:
        ctx.unrecognised("CACHETHRESH", key, "-", "GRsetattr / GRgetattr not found")
        return 0

    def thresh_ifs(f):
        out = []

        def vis(nn, st):
            if nn[0] == "if":
                c = strip(nn[1])
                if kind(c) == "bin" and c[1] in (">", ">=", "<", "<=") and any(y[0] == "mem" and y[2] == "attr_cache" for y in walk(c[3], True)):
                    out.append((c[1], nn))
            return True
        ast_walk(f.raw.get("ast"), vis)
        return out
    through = [op for op, nn in thresh_ifs(fs) if any(c[1] in ("VSattach", "VSwrite") for c in ast_calls(nn[2]))]
    discard = [op for op, nn in thresh_ifs(fg) if any(c[1] in ("free", "HDfreenclear") or True for c in ast_calls(nn[2])) and not any(c[1] in ("VSattach", "VSread", "malloc") for c in ast_calls(nn[2]))]
    if not through or not discard:
        ctx.unrecognised("CACHETHRESH", key, fs.where(), "threshold tests not found (write-through %s, discard %s)" % (through, discard))
        return 0
    if set(discard) <= set(through):
        ctx.holds("CACHETHRESH", key, fg.where(), "both draw the line with `size %s attr_cache`" % through[0], nontrivial=True)
    else:
        ctx.violated("CACHETHRESH", key, fg.where(), "GRgetattr discards its copy when `size %s attr_cache`, GRsetattr writes a replaced value through only when `size %s attr_cache`: a value "
                     "of exactly the threshold size is cached by the one and thrown away by the other" % (discard[0], through[0]))
    return 1


def rule_xdr_encode_source(ctx):
    """XDRENC (C10, C15): the header of a netCDF-format file is read and written by the same routines: the XDR primitives
    `hdf_xdr_int(xdrs, &x)` decode into x or encode from x, depending on the stream.  Where x is a local, the routine has to load
    it from the object it is encoding before the call (and store it back afterwards for the decode side).  A local that reaches
    the primitive with nothing but its zero initialiser (or nothing at all) makes every *rewrite* of the header store 0 for that
    field — a count of 0, a type of 0, a wrong magic number — and the file no longer opens.  Calls that sit in a decode-only arm
    are not instances."""
    from .facts import kind, strip, walk, render, is_int, int_val, int_name, calls_in
    from .codec import ast_walk
    prog = ctx.prog
    n = 0
    PRIMS = {"hdf_xdr_int", "hdf_xdr_u_int", "hdf_xdr_long", "hdf_xdr_u_long", "hdf_xdr_enum", "hdf_xdr_short", "hdf_xdr_u_short"}
    for f in prog.lib_funcs():
        if not f.rel.startswith("mfhdf/src/") or not f.raw.get("ast"):
            continue
        if not any(c[1] in PRIMS for _b, _i, _s, c in f.calls()):
            continue
        locals_loaded = {}  # local -> True once it has been given a non-constant value (source order)
        order = []

        def vis(nd, st):
            exprs = []
            if nd[0] == "s":
                exprs = [nd[1]]
            elif nd[0] in ("if", "while", "switch") and nd[1] is not None:
                exprs = [nd[1]]
            elif nd[0] == "for":
                exprs = [x for x in nd[1:4] if x is not None]
            for e in exprs:
                order.append((e, list(st), nd))
            return True

        ast_walk(f.raw["ast"], vis)
        occ = {}
        for e, st, nd in order:
            if kind(e) == "decl":
                for d in e[1]:
                    if d[2] is not None:
                        v = strip(d[2])
                        if not is_int(v) or (int_name(v) and int_val(v) != 0):
                            locals_loaded[d[0]] = True
                continue
            # calls first: the primitive sees the value from *before* this statement's own assignments unless they are its arguments
            for c in calls_in(e, True):
                if c[1] not in PRIMS or len(c[3]) < 2:
                    continue
                a = strip(c[3][1])
                if not (kind(a) == "addr" and kind(strip(a[1])) == "var" and strip(a[1])[2] == "l"):
                    continue
                v = strip(a[1])[1]
                decode_only = False
                chain = st + [nd]
                for i, s_ in enumerate(st):
                    if s_[0] == "if":
                        r = render(s_[1])
                        if "XDR_DECODE" in r and "==" in r and chain[i + 1] is s_[2]:
                            decode_only = True
                        if "XDR_ENCODE" in r and "==" in r and s_[3] is not None and chain[i + 1] is s_[3]:
                            decode_only = True
                    if s_[0] == "case" and "XDR_DECODE" in render(s_[1]):
                        decode_only = True
                if decode_only:
                    continue
                n += 1
                key = "XDRENC:%s:%s" % (f.name, v)
                occ[key] = occ.get(key, 0) + 1
                if occ[key] > 1:
                    key += "#%d" % occ[key]
                line = nd[-3] if isinstance(nd[-3], int) else f.line
                if locals_loaded.get(v):
                    ctx.holds("XDRENC", key, f.where(line), "`%s` has been loaded from the object before %s() may encode it" % (v, c[1]), nontrivial=True)
                else:
                    ctx.violated("XDRENC", key, f.where(line), "%s(xdrs, &%s) also encodes, but `%s` has only its constant initialiser (or none) at this point: a rewritten header stores 0 / garbage for this field" % (c[1], v, v))
            for x in walk(e, True):
                if x[0] == "asg" and x[1] == "=" and kind(strip(x[2])) == "var":
                    # an assignment statement (as opposed to the zero initialiser of the declaration) is a decision about the value
                    # to encode, also when it stores a constant (`if (*spp == NULL) { count = 0; ...`)
                    locals_loaded[strip(x[2])[1]] = True
    ctx.floor("XDRENC", 6, n, "(locals handed to a bidirectional XDR primitive outside decode-only arms)")
    return n


def rule_retype_refused_before_change(ctx):
    """RETYPEFIRST (C10): SDsetdimscale may give an existing coordinate variable another number type; SDIgetcoordvar re-types the
    variable in memory and the values are written afterwards.  Values that were written earlier live in a data element that
    cannot grow, so a *wider* type cannot be stored — the call has to fail.  It must fail before the variable is touched: in the
    re-typing arm of SDIgetcoordvar the first statement is the test (written data, wider size) that leaves with an error, and
    the stores into the variable come after it.  Re-typed first, a refused call leaves a variable whose type no longer matches
    its stored values, and the scale cannot be read any more."""
    from .codec import ast_walk
    from .facts import kind, strip, walk, render
    prog = ctx.prog
    f = prog.func("SDIgetcoordvar")
    if f is None or not f.raw.get("ast"):
        ctx.unrecognised("RETYPEFIRST", "RETYPEFIRST:SDIgetcoordvar", "-", "SDIgetcoordvar not found")
        return 0
    arms = []

    def vis(nd, st):
        if nd[0] == "if":
            arm = nd[2]
            kids = arm[1] if arm[0] == "block" else [arm]
            stores = [i for i, k in enumerate(kids) if k[0] in ("s", "if") and k[1] is not None and any(x[0] == "asg" and (mem_field(x[2]) or (0, 0))[1] in ("HDFtype", "type", "szof", "HDFsize") for x in walk(k[1], True))]
            if stores:
                arms.append((nd, kids, stores[0]))
        return True

    ast_walk(f.raw["ast"], vis)
    n = 0
    for nd, kids, first_store in arms:
        n += 1
        key = "RETYPEFIRST:SDIgetcoordvar#%d" % n
        line = nd[-3] if isinstance(nd[-3], int) else f.line
        ok = False
        for k in kids[:first_store]:
            if k[0] == "if":
                fields = {y[2] for y in walk(k[1], True) if y[0] == "mem"}
                if "data_ref" in fields and ("HDFsize" in fields or "szof" in fields):
                    ok = True
        if ok:
            ctx.holds("RETYPEFIRST", key, f.where(line), "a wider type for written values is refused before the variable is re-typed", nontrivial=True)
        else:
            ctx.violated("RETYPEFIRST", key, f.where(line), "the coordinate variable is re-typed without first refusing a wider type for values that are already written: the later write fails and leaves the variable with a type that does not match its stored values")
    ctx.floor("RETYPEFIRST", 1, n, "(re-typing arms of SDIgetcoordvar)")
    return n


def rule_class_flag_under_class_test(ctx):
    """CLASSFLAG (C10): hdf_read_dims recognises what a dimension Vgroup contains by the class of its Vdatas (the buffer VSgetclass
    fills) and notes it in flags (a DimVal0.0 Vdata, a DimVal0.1 Vdata); after the walk the flags decide together whether the
    dimension is backward-compatible (has both).  A flag records *that a Vdata of the class was seen*: the innermost condition
    around the statement that sets it is the class test of that Vdata.  Nested under a further condition (e.g. "the dimension is
    not unlimited") the fact is lost for the dimensions that fail it, and the compatibility setting of an unlimited dimension
    does not survive reopen."""
    from .codec import ast_walk
    from .facts import kind, strip, walk, render, is_int, calls_in
    prog = ctx.prog
    f = prog.func("hdf_read_dims")
    if f is None or not f.raw.get("ast"):
        ctx.unrecognised("CLASSFLAG", "CLASSFLAG:hdf_read_dims", "-", "hdf_read_dims not found")
        return 0
    clsbuf = set()
    for _b, _i, _s, c in f.calls():
        if c[1] == "VSgetclass" and len(c[3]) > 1 and kind(strip(c[3][1])) == "var":
            clsbuf.add(strip(c[3][1])[1])
    consts = {}
    for _b, _i, _s, x in f.nodes(True):
        if x[0] == "asg" and x[1] == "=" and kind(strip(x[2])) == "var":
            consts.setdefault(strip(x[2])[1], []).append(is_int(x[3]))
    cands = {v for v, cs in consts.items() if all(cs) and len(cs) >= 2}
    # flags: candidates that are read together with another candidate in one condition
    flags = set()

    def _cv(nd, st):
        if nd[0] == "if":
            vs = {y[1] for y in walk(nd[1], True) if y[0] == "var" and y[1] in cands}
            if len(vs) >= 2:
                flags.update(vs)
        return True

    ast_walk(f.raw["ast"], _cv)

    def is_cls_test(c):
        return any(k[1] == "strcmp" and k[3] and kind(strip(k[3][0])) == "var" and strip(k[3][0])[1] in clsbuf for k in calls_in(c, True))

    sites = []

    def vis(nd, st):
        if nd[0] == "s":
            for x in walk(nd[1], True):
                if x[0] == "asg" and x[1] == "=" and kind(strip(x[2])) == "var" and strip(x[2])[1] in flags and is_int(x[3]) and not is_int(x[3], 0):
                    ifs = [s_ for s_ in st if s_[0] == "if"]
                    sites.append((strip(x[2])[1], nd, ifs))
        return True

    ast_walk(f.raw["ast"], vis)
    n = 0
    for v, nd, ifs in sites:
        n += 1
        key = "CLASSFLAG:hdf_read_dims:%s" % v
        line = nd[-3] if isinstance(nd[-3], int) else f.line
        if ifs and is_cls_test(ifs[-1][1]):
            ctx.holds("CLASSFLAG", key, f.where(line), "`%s` is set directly under the class test `%s`" % (v, render(ifs[-1][1])[:50]), nontrivial=True)
        else:
            ctx.violated("CLASSFLAG", key, f.where(line), "`%s` is set under `%s`, which is not the class test of the Vdata: a Vdata of the class is seen but not recorded when that condition fails" % (v, render(ifs[-1][1])[:60] if ifs else "no condition"))
    ctx.floor("CLASSFLAG", 2, n, "(flags recording which classes of Vdata a dimension group holds)")
    return n


class _AttrLen(PathAnalysis):
    """user = frozenset over {'M': the new value was copied into the record's data buffer, 'L': the record's element count was stored}"""

    def __init__(self, prog):
        super().__init__(prog)
        self.exits = []
        self.copies = 0

    def init_user(self, func):
        return frozenset()

    def on_stmt(self, func, bid, idx, stmt, env, user):
        from .facts import kind, strip, walk
        u = set(user)
        for x in walk(stmt["e"]):
            if x[0] == "call" and x[1] in ("memcpy", "HDmemcpy") and x[3] and (mem_field(x[3][0]) or (0, 0)) == ("at_info", "data"):
                u.add("M")
                self.copies += 1
            elif x[0] == "asg" and x[1] == "=" and (mem_field(x[2]) or (0, 0)) == ("at_info", "len"):
                u.add("L")
        return frozenset(u)

    def on_exit(self, func, bid, retval, env, user):
        self.exits.append((classify_ret(retval, self.fails), user))


def rule_attr_value_and_count_together(ctx):
    """ATTRLEN (C10): a GR attribute record holds the value buffer and the number of elements in it; GRattrinfo reports the count and
    GRgetattr copies count x size bytes.  Wherever GRsetattr copies a new value into the buffer of an existing record it also
    stores the new count, on every path — also when the buffer did not have to be re-allocated because the new value is
    shorter.  Otherwise a shrinking re-set keeps the old count: the attribute reads back as the new values followed by the tail
    of the old ones, and GRend writes that count to the file."""
    prog = ctx.prog
    n = 0
    for f in prog.lib_funcs():
        if not f.rel.endswith("hdf/src/mfgr.c"):
            continue
        if not any(c[1] in ("memcpy", "HDmemcpy") and c[3] and (mem_field(c[3][0]) or (0, 0)) == ("at_info", "data") for _b, _i, _s, c in f.calls()):
            continue
        a = _AttrLen(prog)
        a.fails = fail_values(f, prog)
        a.run(f)
        n += 1
        key = "ATTRLEN:%s" % f.name
        bad = [u for cls, u in a.exits if cls != "fail" and "M" in u and "L" not in u]
        if bad:
            ctx.violated("ATTRLEN", key, f.where(), "%s can copy a new value into an attribute's buffer and return successfully without storing the new element count: a shorter value keeps the old count" % f.name)
        else:
            ctx.holds("ATTRLEN", key, f.where(), "every successful path that copies a value into the buffer stores the count as well", nontrivial=True)
    ctx.floor("ATTRLEN", 1, n, "(routines that copy a value into a GR attribute record)")
    return n
