"""F1 codec layout: writer = reader = frozen spec, for the on-disk records.

From the structured (AST) view of a writer or reader function the *layout tree* of each cursor segment is extracted:
  ("f", bits, signed, member, line)   one ENCODE/DECODE macro group (member = struct field encoded/decoded, if any)
  ("b", 8, member, line)              one raw byte store/load through `*p++` / `*p`
  ("var", text, line)                 variable-length run: the cursor advances by a non-constant amount
  ("skip", n, line)                   constant cursor advance without a field
  ("loop", [items], line)             for/while containing fields
  ("opt", [items], line)              if with fields in one arm;  ("alt", [a], [b], line) fields in both arms
  ("sw", {case: [items]}, line)       switch
A segment starts when the cursor variable is (re)seated: `p = buf`, `bb = &buf[len - 5]`.
"""
from .facts import kind, strip, walk, path, render, int_val, is_int, unseen, mem_field
from .codec import codec_event, ast_walk, CODEC

COPY_FUNCS = {"memcpy", "strcpy", "strncpy", "HIstrncpy", "HDmemfill", "memset", "strcat"}


def _member(e):
    """struct member (record.field) named by an encoded / decoded expression, through casts, indexes"""
    e = unseen(e)
    while kind(e) in ("cast", "idx", "seen"):
        e = unseen(e[2] if kind(e) == "cast" else e[1])
    if kind(e) == "mem":
        return "%s.%s" % (e[3], e[2])
    return None


def extract(func):
    """{cursor variable: [segments]} ; segment = {"seat": text, "line": n, "items": [...]}"""
    cursors = {}

    def seg_for(ptr, line):
        segs = cursors.setdefault(ptr, [])
        if not segs:
            segs.append({"seat": "(entry)", "line": line, "items": []})
        return segs[-1]

    redirects = {}

    def emit(ptr, item, sink):
        if sink is not None:
            r = redirects.get((ptr, id(sink)))
            if r is not None:
                r["items"].append(item)
                return
            sink.setdefault(ptr, []).append(item)
        else:
            seg_for(ptr, item[-1])["items"].append(item)

    def merge(ptrs_items, kindx, line, sink, extra=None):
        for ptr, items in ptrs_items.items():
            if items:
                it = (kindx, items, line) if extra is None else (kindx, items, extra.get(ptr, []), line)
                emit(ptr, it, sink)

    def visit(node, sink):
        k = node[0]
        ev = codec_event(node)
        if ev is not None:
            if ev.ptr:
                emit(ev.ptr, ("f", ev.bits, ev.signed, _member(ev.expr), ev.line), sink)
            return
        if k == "block":
            for c in node[1]:
                visit(c, sink)
        elif k == "s":
            e = strip(node[1])
            line = node[2]
            _leaf(e, line, sink)
        elif k == "if":
            a, b = {}, {}
            visit(node[2], a)
            if node[3] is not None:
                visit(node[3], b)
            for ptr in set(a) | set(b):
                ia, ib = a.get(ptr, []), b.get(ptr, [])
                fa = _has_field(ia)
                fb = _has_field(ib)
                if fa and fb:
                    emit(ptr, ("alt", ia, ib, node[4]), sink)
                elif fa or fb:
                    emit(ptr, ("opt", ia if fa else ib, node[4]), sink)
                else:
                    # only cursor movements in the arms: keep them inline as an optional run
                    mv = ia or ib
                    if mv:
                        emit(ptr, ("opt", mv, node[4]), sink)
        elif k in ("for", "while", "do"):
            body = node[4] if k == "for" else (node[2] if k == "while" else node[1])
            a = {}
            visit(body, a)
            merge(a, "loop", node[-3], sink)
        elif k == "switch":
            from .rules_conv import switch_arms
            arms = {}
            for labels, stmts, ft in switch_arms(node):
                sub = {}
                for s_ in stmts:
                    visit(s_, sub)
                for ptr, items in sub.items():
                    for l in labels:
                        arms.setdefault(ptr, {})[l] = items
            for ptr, cases in arms.items():
                if any(_has_field(v) for v in cases.values()):
                    emit(ptr, ("sw", cases, node[3]), sink)
        elif k in ("case", "default", "label"):
            visit(node[2] if k != "default" else node[1], sink)

    def _leaf(e, line, sink):
        k = kind(e)
        if k == "decl":
            for d in e[1]:
                if d[1] in ("uint8 *", "unsigned char *", "char *", "uint8_t *", "const uint8 *") and d[2] is not None:
                    r = strip(d[2])
                    if kind(r) in ("var", "addr", "mem", "idx", "bin", "cast"):
                        seg = {"seat": render(r), "line": line, "items": []}
                        cursors.setdefault(d[0], []).append(seg)
                        if sink is not None:
                            redirects[(d[0], id(sink))] = seg
                            seg["conditional"] = True
            return
        if k == "asg":
            t = strip(e[2])
            # p = p + n : an advance, not a re-seat
            if kind(t) == "var" and e[1] == "=" and _is_cursor_type(t):
                r = strip(e[3])
                if kind(r) == "bin" and r[1] == "+" and path(r[2]) == t[1]:
                    if is_int(r[3]):
                        emit(t[1], ("skip", int_val(r[3]), line), sink)
                    else:
                        emit(t[1], ("var", render(r[3])[:40], line), sink)
                    return
            # cursor (re)seat:  p = <expr>
            if kind(t) == "var" and e[1] == "=" and _is_cursor_type(t):
                r = strip(e[3])
                if kind(r) in ("var", "addr", "mem", "idx", "bin", "cast"):
                    seg = {"seat": render(r), "line": line, "items": []}
                    cursors.setdefault(t[1], []).append(seg)
                    if sink is not None:
                        # re-seated inside a branch/loop: the rest of this block fills the new segment
                        redirects[(t[1], id(sink))] = seg
                        seg["conditional"] = True
                    return
            # p += n
            if kind(t) == "var" and e[1] == "+=" and _is_cursor_type(t):
                if is_int(e[3]):
                    emit(t[1], ("skip", int_val(e[3]), line), sink)
                else:
                    emit(t[1], ("var", render(e[3])[:40], line), sink)
                return
            if kind(t) == "var" and e[1] == "=" and _is_cursor_type(t):
                r = strip(e[3])
                # p = p + n
                if kind(r) == "bin" and r[1] == "+" and path(r[2]) == t[1]:
                    if is_int(r[3]):
                        emit(t[1], ("skip", int_val(r[3]), line), sink)
                    else:
                        emit(t[1], ("var", render(r[3])[:40], line), sink)
                    return
            # *p++ = x  (raw byte out)  /  x = *p++ (raw byte in)
            for side, other in ((e[2], e[3]), (e[3], e[2])):
                s_ = strip(side)
                if kind(s_) == "deref" and kind(strip(s_[1])) == "incdec":
                    pv = path(strip(s_[1])[3])
                    if pv:
                        emit(pv, ("b", 8, _member(other), line), sink)
                        return
        if k == "incdec":
            t = strip(e[3])
            if kind(t) == "var" and _is_cursor_type(t):
                emit(t[1], ("skip", 1 if e[1] == "++" else -1, line), sink)

    def _is_cursor_type(v):
        return v[3] in ("uint8 *", "unsigned char *", "char *", "uint8_t *", "const uint8 *")

    visit(func.raw.get("ast"), None)
    return cursors


def _has_field(items):
    for it in items:
        if it[0] == "seat":
            return False
        if it[0] in ("f", "b"):
            return True
        if it[0] in ("loop", "opt") and _has_field(it[1]):
            return True
        if it[0] == "alt" and (_has_field(it[1]) or _has_field(it[2])):
            return True
        if it[0] == "sw" and any(_has_field(v) for v in it[1].values()):
            return True
    return False


def shape(items):
    """canonical, comparison-ready form: nested tuples of ('f',bits) / ('b',) / ('var',) / ('skip',n) / ('loop',(...)) / ('opt',(...))"""
    out = []
    for it in items:
        k = it[0]
        if k == "seat":
            break  # what follows belongs to another buffer / record
        if k == "f":
            out.append(("f", it[1]))
        elif k == "b":
            out.append(("f", 8))
        elif k == "var":
            out.append(("var",))
        elif k == "skip":
            out.append(("skip", it[1]))
        elif k == "loop":
            out.append(("loop", shape(it[1])))
        elif k == "opt":
            out.append(("opt", shape(it[1])))
        elif k == "alt":
            out.append(("alt", shape(it[1]), shape(it[2])))
        elif k == "sw":
            out.append(("sw", tuple(sorted((str(c), shape(v)) for c, v in it[1].items()))))
    return tuple(out)


def full_path(sh):
    """flatten optional parts (all options taken): the complete record"""
    out = []
    for it in sh:
        if it[0] == "opt":
            out.extend(full_path(it[1]))
        elif it[0] == "alt":
            a, b = full_path(it[1]), full_path(it[2])
            out.extend(a if _bytes(a) >= _bytes(b) else b)
        elif it[0] == "loop":
            out.append(("loop", full_path(it[1])))
        elif it[0] == "sw":
            best = ()
            for c, v in it[1]:
                fp = full_path(v)
                if _bytes(fp) >= _bytes(best):
                    best = fp
            out.extend(best)
        else:
            out.append(it)
    return tuple(out)


def _bytes(sh):
    n = 0
    for it in sh:
        if it[0] == "f":
            n += it[1] // 8
        elif it[0] == "skip":
            n += it[1]
    return n


def merge_skips(sh):
    """a reader may jump over fields it does not need: turn runs of fixed fields into comparable byte counts"""
    return sh


def describe(sh):
    def d(it):
        if it[0] == "f":
            return "u%d" % it[1]
        if it[0] == "var":
            return "bytes[]"
        if it[0] == "skip":
            return "skip%d" % it[1]
        if it[0] == "loop":
            return "Loop{%s}" % " ".join(d(x) for x in it[1])
        if it[0] == "opt":
            return "Opt{%s}" % " ".join(d(x) for x in it[1])
        if it[0] == "alt":
            return "Alt{%s | %s}" % (" ".join(d(x) for x in it[1]), " ".join(d(x) for x in it[2]))
        if it[0] == "sw":
            return "Switch{%s}" % "; ".join("%s: %s" % (c, " ".join(d(x) for x in v)) for c, v in it[1])
        return str(it)
    return " ".join(d(x) for x in sh)


def compare_prefix(a, b):
    """compare two flattened shapes position by position, allowing ('skip', n) on one side to stand for n bytes of
    fixed fields on the other.  Returns (ok, message, consumed_a, consumed_b)."""
    i = j = 0
    while i < len(a) and j < len(b):
        x, y = a[i], b[j]
        if x[0] == "skip" and y[0] != "skip":
            need = x[1]
            got = 0
            while j < len(b) and got < need and b[j][0] == "f":
                got += b[j][1] // 8
                j += 1
            if got != need:
                return False, "a jump of %d bytes does not line up with the fields on the other side (%d bytes)" % (need, got), i, j
            i += 1
            continue
        if y[0] == "skip" and x[0] != "skip":
            need = y[1]
            got = 0
            while i < len(a) and got < need and a[i][0] == "f":
                got += a[i][1] // 8
                i += 1
            if got != need:
                return False, "a jump of %d bytes does not line up with the fields on the other side (%d bytes)" % (need, got), i, j
            j += 1
            continue
        if x[0] != y[0]:
            return False, "position %d: %s vs %s" % (i + 1, describe((x,)), describe((y,))), i, j
        if x[0] == "f" and x[1] != y[1]:
            return False, "position %d: a %d-bit field vs a %d-bit field" % (i + 1, x[1], y[1]), i, j
        if x[0] == "skip" and x[1] != y[1]:
            return False, "position %d: skip %d vs skip %d" % (i + 1, x[1], y[1]), i, j
        if x[0] == "loop":
            ok, msg, ca, cb = compare_prefix(x[1], y[1])
            if not ok or ca != len(x[1]) or cb != len(y[1]):
                return False, "inside the loop at position %d: %s" % (i + 1, msg if not ok else "different number of fields per iteration"), i, j
        i += 1
        j += 1
    return True, "", i, j


# ---------------------------------------------------------------------------------------
# record table: writers, readers (function, cursor, segment selector), frozen spec

def S(text):
    """spec mini-language: 'u16 s32 Loop{u16} bytes[] b' -> shape"""
    toks = text.replace("{", " { ").replace("}", " } ").split()

    def parse(pos):
        out = []
        while pos < len(toks):
            t = toks[pos]
            if t == "}":
                return tuple(out), pos + 1
            if t == "Loop" or t == "Opt":
                sub, pos2 = parse(pos + 2)
                out.append(("loop" if t == "Loop" else "opt", sub))
                pos = pos2
                continue
            if t == "bytes[]":
                out.append(("var",))
            elif t == "b":
                out.append(("f", 8))
            elif t[0] in "us" and t[1:].isdigit():
                out.append(("f", int(t[1:])))
            elif t.startswith("skip"):
                out.append(("skip", int(t[4:])))
            else:
                raise ValueError(t)
            pos += 1
        return tuple(out), pos

    return parse(0)[0]


# The frozen format specification (transcribed from the format description in the source headers and the HDF4
# specification; see DESIGN Appendix A), one line per place where a record — or a stated part of it — is written or read.
#   (record, part, role, function, cursor, seat substring, n-th matching segment, layout)
DD = "u16 u16 s32 s32"
DDH = "s16 s32"
ID = "s32 s32 u16 u16 s16 s16 u16 u16"  # image / LUT dimension record (20 bytes)
VG = "u16 Loop{u16} Loop{u16} u16 bytes[] u16 bytes[] u16 u16 u32 s32 Loop{u16 u16} u16 u16"
VH = ("s16 s32 u16 s16 Loop{s16} Loop{u16} Loop{u16} Loop{u16} Loop{s16 bytes[]} s16 bytes[] s16 bytes[] u16 u16 s16 s16 "
      "u32 s32 Loop{s32 u16 u16} s16 s16")
CHUNK = "u16 s32 b s32 s32 s32 s32 u16 u16 u16 u16 s32 Loop{s32 s32 s32} s32 bytes[]"
TABLE = [
    ("DDH", "whole", "w", "HTPinit", "p", "ddhead", 0, DDH),
    ("DDH", "whole", "w", "HTInew_dd_block", "p", "ddhead", 0, DDH),
    ("DDH", "next-offset field (at +2)", "w", "HTInew_dd_block", "p", "ddhead", 1, "s32"),
    ("DD", "whole", "w", "HTPinit", "p", "tbuf", 0, DD),
    ("DD", "whole", "w", "HTInew_dd_block", "p", "tbuf", 0, DD),
    ("DD", "whole", "w", "HTIupdate_dd", "p", None, 0, DD),
    ("DDH", "per block", "w", "HTPsync", "p", "ddhead", 0, DDH),
    ("DD", "all descriptors of a block", "w", "HTPsync", "p", "tbuf", 0, "Loop{ %s }" % DD),
    ("DDH", "per block", "r", "HTPstart", "p", "ddhead", 0, DDH),
    ("DD", "all descriptors of a block", "r", "HTPstart", "p", "tbuf", 0, "Loop{ %s }" % DD),
    ("version", "numbers (the 80-byte string follows)", "w", "HIupdate_version", "p", "lversion", 0, "u32 u32 u32"),
    ("version", "numbers", "r", "HIread_version", "p", None, 0, "u32 u32 u32"),
    ("linked-header", "whole", "w", "HLcreate", "p", "local_ptbuf", 0, "u16 s32 s32 s32 u16"),
    ("linked-header", "whole", "w", "HLconvert", "p", "local_ptbuf", 0, "u16 s32 s32 s32 u16"),
    ("linked-header", "after the 2-byte special code", "r", "HLIstaccess", "p", None, 0, "s32 s32 s32 u16"),
    ("linked-header", "after the 2-byte special code", "r", "HLgetdatainfo", "p", "buf", 0, "s32 s32 s32 u16"),
    ("link-table", "next ref, first block ref, remaining block refs", "w", "HLInewlink", "p", None, 0, "u16 u16 Loop{u16}"),
    ("link-table", "next ref, block refs", "r", "HLIgetlink", "p", None, 0, "u16 Loop{u16}"),
    ("external-header", "fixed part (file name follows)", "w", "HXcreate", "p", None, 0, "s16 s32 s32 s32"),
    ("external-header", "after the 2-byte special code", "r", "HXIstaccess", "p", None, 0, "s32 s32 s32"),
    ("comp-header", "fixed part, then model/coder part", "w", "HCIwrite_header", "p", "local_ptbuf", 0, "s16 u16 s32 u16 bytes[]"),
    ("comp-header", "after the 2-byte special code", "r", "HCIread_header", "p", "local_ptbuf", 0, "u16 s32 u16"),
    ("chunk-header", "whole (+ optional compression part)", "w", "HMCcreate", "p", None, 0, CHUNK + " Opt{u16 s32 bytes[]}"),
    ("chunk-header", "special-header length (after the 2-byte special code)", "r", "HMCIstaccess", "p", "local_ptbuf", 0, "s32"),
    ("chunk-header", "version ... fill value length", "r", "HMCIstaccess", "p", "c_sp_header", 0,
     "b s32 s32 s32 s32 u16 u16 u16 u16 s32 Loop{s32 s32 s32} s32"),
    ("VG", "whole", "w", "vpackvg", "bb", "buf", 0, VG),
    ("VG", "from the start", "r", "vunpackvg", "bb", "&buf[0]", 0, " ".join(VG.split()[:-2])),
    ("VG", "version and more, read from len-5", "r", "vunpackvg", "bb", "len - 5", 0, "u16 u16"),
    ("VH", "whole", "w", "vpackvs", "bb", "buf", 0, VH),
    ("VH", "from the start", "r", "vunpackvs", "bb", "&buf[0]", 0, " ".join(VH.split()[:-2])),
    ("VH", "version and more, read from len-5", "r", "vunpackvs", "bb", "len - 5", 0, "s16 s16"),
    ("annotation", "target tag/ref prefix of object labels/descriptions", "w", "ANIwriteann", "ptr", "datadi", 0, "u16 u16"),
    ("annotation", "target tag/ref prefix (single-file interface)", "w", "DFANIputann", "ptr", "datadi", 0, "u16 u16"),
    ("annotation", "target tag/ref prefix (single-file interface)", "r", "DFANIlocate", "ptr", "datadi", 0, "u16 u16"),
    ("image-dims", "raster image dimension record", "w", "GRIupdatemeta", "p", "GRtbuf", 0, ID),
    ("image-dims", "palette dimension record", "w", "GRIupdatemeta", "p", "GRtbuf", 1, ID),
    ("image-dims", "single-file GR interface, image", "w", "DFGRaddrig", "p", "GRtbuf", 0, ID),
    ("image-dims", "single-file GR interface, LUT", "w", "DFGRaddrig", "p", "GRtbuf", 1, ID),
    ("image-dims", "single-file GR interface", "r", "DFGRgetrig", "p", "GRtbuf", 0, ID),
    ("image-dims", "8-bit raster interface", "w", "DFR8putrig", "p", "R8tbuf", 0, ID),
    ("image-dims", "8-bit raster interface", "r", "DFR8getrig", "p", "R8tbuf", 0, ID),
    ("SDD", "rank, dimension sizes, number-type tag/refs", "w", "hdf_write_var", "bufp", "tbuf", 0, "u16 Loop{s32} Loop{u16 u16}"),
    ("SDD", "rank, dimension sizes, number-type tag/refs (single-file SD interface)", "w", "DFSDIputndg", "bufp", "ptbuf", 0,
     "u16 Loop{s32} Loop{u16 u16}"),
    ("SDD", "rank", "r", "hdf_read_rank", "p", "local_buf", 0, "u16"),
    ("SDD", "dimension sizes", "r", "hdf_read_dimsizes", "p", "local_buf", 0, "Loop{s32}"),
    ("SDD", "one number-type tag/ref", "r", "hdf_read_NT", "p", "local_buf", 0, "u16 u16"),
    ("SDD", "rank (single-file SD interface)", "r", "DFSDIgetndg", "p", "ptbuf", 0, "u16"),
    ("SDD", "dimension sizes (single-file SD interface)", "r", "DFSDIgetndg", "p", "ptbuf", 1, "Loop{s32}"),
    ("SDD", "data number-type tag/ref (single-file SD interface)", "r", "DFSDIgetndg", "p", "ptbuf", 2, "u16 u16"),
]


def _segments(prog, fname, cursor, seat):
    f = prog.func(fname)
    if f is None:
        return None, [], "function %s not found" % fname
    cur = extract(f)
    segs = [s for s in cur.get(cursor, []) if s["items"] and (seat is None or seat in s["seat"])]
    if not segs:
        return f, [], "no segment of cursor `%s`%s with fields in %s (cursors: %s)" % (
            cursor, " seated at `%s`" % seat if seat else "", fname,
            "; ".join("%s@%s" % (c, x["seat"]) for c, ss in cur.items() for x in ss if x["items"])[:200])
    return f, segs, None


def rule_layouts(ctx, only=None):
    """F1: each writer / reader segment equals the frozen specification of the record part it handles"""
    prog = ctx.prog
    n = 0
    for (rec, part, role, fn, cur, seat, nth, spec_txt) in TABLE:
        if only and rec not in only:
            continue
        n += 1
        key = "F1:%s:%s:%s%s" % (rec, {"w": "writer", "r": "reader"}[role], fn, "#%d" % nth if nth else "")
        f, segs, err = _segments(prog, fn, cur, seat)
        if err or nth >= len(segs):
            ctx.unrecognised("F1", key, f.where() if f else "-", err or "only %d segment(s) of `%s` at `%s` in %s" % (len(segs), cur, seat, fn))
            continue
        seg = segs[nth]
        sh = full_path(shape(seg["items"]))
        spec = full_path(S(spec_txt))
        ok, msg, ca, cb = compare_prefix(sh, spec)
        if ok and ca == len(sh) and cb == len(spec):
            ctx.holds("F1", key, f.where(seg["line"]), "%s %s the %s record (%s) exactly as specified: %s" % (
                fn, "writes" if role == "w" else "reads", rec, part, describe(sh)))
        else:
            ctx.violated("F1", key, f.where(seg["line"]),
                         "%s %s `%s` for the %s record (%s) but the format specifies `%s`%s: %s" % (
                             fn, "writes" if role == "w" else "reads", describe(sh), rec, part, describe(spec),
                             " (%s)" % msg if msg else "",
                             "files written by this library would no longer follow the published format" if role == "w" else
                             "files following the published format would be misread"))
    return n
