"""property -> rules"""
from . import rules_dd, rules_bounds, rules_limits, rules_tools, rules_conv, rules_handles, rules_access, rules_coders, rules_errors, rules_layout, rules_ann, rules_mem, rules_sd, rules_cache, rules_attr, rules_gr, rules_ref, rules_repack, rules_stale, rules_idioms, rules_loops

CLANG = "clang 14 parser, constant evaluator and CFG builder (via tools/h4x.cc)"
CDB = "compile flags taken from ninja -t compdb of /repo/_build (or a throw-away cmake configure)"

PROPS = {
    "C12": {
        "rules": [rules_dd.rule_F3, rules_dd.rule_F3b, rules_dd.rule_pairing, rules_dd.rule_F11c],
        "level": "other",
        "explanation": "Decides structural necessary conditions of the directory being a faithful persistent map: "
                       "(F3) on every non-failing path of every function that stores to dd_t.{tag,ref,offset,length} the last "
                       "store is followed by HTIupdate_dd on the same DD (interprocedural summaries); (PAIR) HTPcreate/HTPdelete/"
                       "HTPupdate register/unregister/persist on every non-failing path. Not decided: search and count correctness, "
                       "ref allocation after wrap.",
        "rule_text": "instances = functions storing to persisted dd_t fields (re-discovered each run) x DD access paths; "
                     "non-trivial = verdict needed the path-sensitive product-state analysis",
        "trusted": [CLANG, CDB, "failure-value convention (second argument of HGOTO_ERROR/HRETURN_ERROR)"],
        "assumptions": ["aliasing is by access path", "function pointers resolved by record field"],
        "level_text": "All-paths structural check of the persist-after-mutate discipline of the DD list and of the create/delete pairing; "
                      "a necessary condition of the directory equalling the set of live objects, decided for every path rather than for sampled histories.",
        "level_note": "Trusted: clang front end/CFG, compile flags of the build, failure-value convention. Decides the structural clause, not search/count behaviour.",
        "technique": "custom typestate dataflow (persist-after-mutate, must-call-on-success) over clang CFGs",
    },
}

PROPS["C17"] = {
    "rules": [rules_dd.rule_F11a, rules_dd.rule_F11b, rules_dd.rule_F11c],
    "level": "other",
    "explanation": "Decides the structural core of 'an adding session writes only beyond existing objects until the flush, and the flush "
                   "never exposes a dangling link': (F11a) in hfiledd.c's DD mutators every HPseek into the DD area is reachable only on "
                   "paths where file_rec->cache == 0; (F11b) file space has a single source: f_end_off is written only by the designated "
                   "allocator/loader functions and every offset given to HTPupdate comes from HPgetdiskblock, an existing descriptor or "
                   "a constant; (F11c) every DD-block creator writes the 6-byte header and the NIL list contiguously on every non-failing "
                   "path, before any predecessor's nextoffset is set. Not decided: the per-prefix file images themselves (an enumeration of "
                   "executions) and the metadata-replacing interfaces (SD/GR).",
    "rule_text": "instances = HPseek sites in DD mutators, stores to f_end_off, HTPupdate call sites, DD-block creator functions "
                 "(all re-discovered each run); non-trivial = needed path-sensitive typestate or reaching-definition provenance",
    "trusted": [CLANG, CDB, "HP_write/HPseek are the only file-position primitives of the DD layer"],
    "assumptions": ["file_rec->cache is not modified inside a DD mutator (checked: a store makes the instance unrecognised)"],
    "level_text": "All-paths structural check of write placement and of new-DD-block completeness before linking; necessary conditions of "
                  "crash safety for adding sessions, decided for every path and both cache modes rather than for sampled crash points.",
    "level_note": "Trusted: clang front end/CFG, build flags. Decides placement/ordering structure, not the byte images at each crash point.",
    "technique": "typestate dataflow + reaching-definition provenance + who-may-write over clang CFGs",
}

PROPS["C02"] = {
    "rules": [rules_bounds.rule_F2_arrays, rules_dd.rule_F3, rules_dd.rule_F3b, rules_dd.rule_F11b, rules_dd.rule_F11c],
    "level": "other",
    "explanation": "Decides structural necessary conditions of 'every written file is well-formed and the reported raw locations never exceed the caller's arrays': (F2) every store into a caller-supplied offset/length/palette-info array is dominated by `index < capacity` (or a clamp) on every path, and arrays are forwarded only together with the unchanged capacity; (F3/F3b) on-disk descriptors and DD-block links equal the in-memory ones after every non-failing mutator; (F11b) file space has a single source (no computed offsets, designated writers of f_end_off); (F11c) every new DD block is completely written before it is linked. Not decided: acyclicity/in-bounds of actual chains for a given history, consistency of the values inside special-element headers.",
    "rule_text": 'instances = store/forward sites into caller arrays in the *getdatainfo/GRgetpalinfo family, DD mutator functions, HTPupdate call sites, f_end_off stores, DD-block creators; non-trivial = needed path-sensitive facts',
    "trusted": [CLANG, CDB],
    "assumptions": [],
    "level_text": 'All-paths structural checks (bounded output writes, persist-after-mutate, allocation provenance, new-block completeness): necessary conditions of well-formedness that hold for every input and call order, which no finite test script can cover.', "level_note": 'Trusted: clang front end/CFG, build flags. Decides the structural clauses named in the explanation; an independent-reader comparison of actual bytes is out of static reach.', "technique": 'path-sensitive bounds/typestate dataflow over clang CFGs',
}

PROPS["C20"] = {
    "rules": [rules_limits.rule_F9a, rules_limits.rule_F9b, rules_limits.rule_F9c],
    "level": "other",
    "explanation": "Decides the structural part of 'format limits are enforced, nothing wraps': (F9a) every addition that forms a 32-bit file offset/length stored into filerec_t.f_end_off or passed to HTPupdate is dominated by an `x > INT32_MAX - y` style guard on the same operands; (F9b) every increment of a <=16-bit record field is dominated by a comparison with its limit; (F9c) every value encoded into a 16-bit field of the Vgroup/Vdata records (vpackvg/vpackvs), and every narrowing store into those fields elsewhere, is bounded: narrow type, dominating comparison with a constant, strlen of a fixed array, narrow-returning callee, or a listed API guard whose presence is re-verified. Not decided: 'library remains usable afterwards', limits on dimension/open-file counts (value checks in SDcreate/NC_open are not yet instances).",
    "rule_text": 'instances = accumulator additions, summed HTPupdate arguments, increments of narrow record fields, ENCODE expansions in vpackvg/vpackvs, narrowing stores into persisted 16-bit fields (all re-discovered per run); non-trivial = verdict needed a path fact or a width inference through definitions',
    "trusted": [CLANG, CDB],
    "assumptions": [],
    "level_text": "All-paths guard-dominance checks on the arithmetic that produces persisted offsets, counters and lengths; a necessary condition of 'no wrap-around', decided for all operand values rather than the few sizes a test can afford to create.", "level_note": 'Trusted: clang front end/CFG/constant evaluator, build flags, the list of persisted narrow fields is derived from the encoders themselves.', "technique": 'guard-dominance dataflow + integer-width inference over clang CFGs/ASTs',
}

PROPS["C19"] = {
    "rules": [rules_tools.rule_nt_switches, rules_tools.rule_truncating_difference, rules_tools.rule_count_propagation],
    "level": "other",
    "explanation": "Decides structural necessary conditions of 'hdiff exits 0 exactly when contents are equal' and 'hdp prints what the API returns': (F7e) every number-type switch in the hdiff/hdp comparison and dump kernels has an arm for all ten base types and is applied to a value with the little-endian/native flavour bits masked off, or else reaches a failing default; (F9d) in hdiff's kernels |a-b| of integer elements is evaluated and kept in a type wider than the elements; (COUNT) every difference count returned inside hdiff reaches the caller's return value on every non-error path (no dropped or overwritten counts) and main's exit status is computed from it. Not decided: printed digits, object matching, hdfimport numerics.",
    "rule_text": 'instances = number-type switches in mfhdf/hdiff and mfhdf/hdp (classified kernel / print-only), integer element differences in hdiff, hdiff functions consuming difference counts; non-trivial = needed AST table comparison or path-sensitive count flow',
    "trusted": [CLANG, CDB],
    "assumptions": [],
    "level_text": "Exhaustiveness, width and result-propagation checks over the tools' own call chain; they decide for every number type and every path what the shipped comparisons only sample.", "level_note": 'Trusted: clang front end/CFG, build flags; the classification table of number-type switches (an unclassified switch makes the check exit 2).', "technique": 'switch-table exhaustiveness + width inference + result-propagation typestate over clang ASTs/CFGs',
}

PROPS["C06"] = {
    "rules": [rules_conv.rule_tables, rules_conv.rule_kernels],
    "level": "proof",
    "explanation": "Discharges a finite obligation set that *is* the claim for the conversion layer: (F7d) for each of the 10 supported base types x {standard, little-endian, native}: DFKNTsize gives the format's size, DFKsetNT has an arm selecting in = out = DFK{s|n}b<size>b with swap <=> file byte order != host byte order (host configuration in the quick tier, both H4_WORDS_BIGENDIAN settings in the thorough tier), no arm falls through, no undefined code is accepted, and DFKconvert routes READ->in, else->out with source, dest, count and strides unchanged; (F8) each of the 7 kernels is, on each of its contiguous/strided x in-place/out-of-place paths, a data-oblivious byte move: only byte copies touch data, every destination byte is written exactly once from the reversed (sb) or same (nb) source index, the in-place variant reads all source bytes before writing, the pointer advance is the element size or the matching stride parameter, memcpy lengths are num_elm*size, and the contiguous path is taken only when both strides are 0 (or the element size for copy kernels). A byte reversal is an involution, so in(out(x)) = x for all bit patterns, counts and strides. Not decided: that callers pass the number type the data was stored with (e.g. hdf_read_ndgs keeping the flavour of dimension scales).",
    "rule_text": "obligations = table rows x configurations + kernel paths; anything outside the accepted statement grammar is 'unrecognised' (exit 2), never assumed correct",
    "trusted": [CLANG, CDB],
    "assumptions": [],
    "level_text": 'Exhaustive discharge of the finite table and kernel-path obligations; because the kernels are data-oblivious the result holds for every bit pattern, count and stride at once (a test would need 2^64 values per type).', "level_note": "Trusted: clang front end and constant evaluator, the format's element sizes (SPEC_SIZE), host endianness taken from the build's H4_WORDS_BIGENDIAN.", "technique": 'table obligations + symbolic byte-cell interpreter over clang ASTs',
}

PROPS["C13"] = {
    "rules": [rules_handles.rule_F6a, rules_handles.rule_F6b, rules_handles.rule_F6c, rules_handles.rule_F6d, rules_handles.rule_sdid_layout],
    "level": "other",
    "explanation": "Decides structural necessary conditions of handle safety: (F6a) the result of every id->object lookup (HAatom_object, HAremove_atom, SDIhandle_from_id, SDIget_var, ...) is tested against NULL before any dereference on every path (ids issued or recorded by the library in the same function are exempt by provenance; callee summaries 'fails when this argument is NULL' are computed); (F6b) where a public function uses a user-supplied id as a typed record, HAatom_group(id) == the record's group dominates the use (armed for the layers that follow the convention and for the H/bitio/AN functions shown to misbehave; 13 known findings); (F6c) the atom id/object cache is written only by atom.c's functions and purged on removal; (F6d) every function that registers an access id increments file_rec->attach exactly once on every non-failing path, every endaccess decrements once, and Hclose tears down only after the attach test; (SDID) every constructor of an SD identifier places the file slot and type where SDIhandle_from_id decodes them. Not decided: absence of aliasing over whole histories (id counter wrap, hash chains), state left after complete teardown.",
    "rule_text": 'instances = lookup results held in variables, public functions using a user id as a typed record, atom-cache writers, AID creators/endaccess functions, SD id constructors',
    "trusted": [CLANG, CDB],
    "assumptions": [],
    "level_text": 'All-paths lookup-validation, kind-check, accounting and id-codec agreement checks over ~590 sites; decided for every path and entry point instead of the handful of stale-id cases tests try.', "level_note": 'Trusted: clang front end/CFG, build flags, the record<->group table. F6b candidates whose wrong-kind replay ended in a failure return are listed in rules/f6b_unconfirmed.txt and not armed.', "technique": 'typestate dataflow (null-before-use, kind-before-cast, exact-once accounting) over clang CFGs',
}

PROPS["C14"] = {
    "rules": [rules_access.rule_F5A, rules_access.rule_F5B, rules_coders.rule_coder_flush],
    "level": "other",
    "explanation": "Decides the structural core of 'read-only access never alters a file and write requests are refused': one fixpoint over the library computes, for every function, whether a path reaches a mutation without a write-permission proof. Mutations are irreversible effects (HP_write, fwrite/write, a writable fopen/open) and promises to write (dirty marks: vg/vs marked, GR *_modified, NC_HDIRTY/NDIRTY/INDEF, filerec/ddblock dirty). Proofs are passed tests of the handle's permission (file/access record access & DFACC_WRITE with a mask that excludes DFACC_READ, vg/vs access == 'w', NC flags & NC_RDWR, hdf_mode != DFACC_RDONLY, page-buffer mode), a set mark (inductive), or the success of a callee verified to be self-guarding for the constant mode it is called with (Hstartaccess, Vattach, VSattach, Hopen are analysed per mode). Effects need the proof first; marks are discharged if the call then fails or a proof follows before a successful return. (F5A) every writable open is covered; (F5B) every public function either has the proof or is reported (derived reports are attributed to the public function they run through); (FLUSH, shared with C05) a stateful coder never flushes decoder state through a writable handle. Not decided: byte-identity itself (follows from the open-mode flow plus the OS), external files' contents.",
    "rule_text": 'instances = functions opening files for writing, mode-dependent self-guarding callees, public functions that can reach a mutation (~230), listed site exceptions (each re-verified where possible)',
    "trusted": [CLANG, CDB],
    "assumptions": [],
    "level_text": "Interprocedural guard-reachability from every public entry point to every mutation; decides 'refused on a read-only handle' for the whole API surface, which the suite probes for a few calls only.", "level_note": 'Trusted: clang front end/CFG, build flags, OS semantics of fopen modes, the frozen tables of marks and guard idioms (a vanished slot field makes the check exit 2).', "technique": 'interprocedural guard-reachability fixpoint with path-sensitive summaries over clang CFGs',
}

PROPS["C05"] = {
    "rules": [rules_coders.rule_comp_header, rules_coders.rule_coder_dispatch, rules_coders.rule_coder_flush, rules_coders.rule_stream_seek],
    "level": "other",
    "explanation": "Decides structural necessary conditions of lossless coding: (F1c) for every coder the bytes written by HCPencode_header, read by HCPdecode_header and reserved by HCPquery_encode_header agree field by field and with the format (NBIT 16, SKPHUFF 8, DEFLATE 2, SZIP 14 bytes); (F7e/F7a) HCIinit_coder wires every coder to a function table, rejects unknown codes, and every coder/model table slot that hcomp.c dispatches without a NULL test is a function; (FLUSH) a stateful coder's flush routine (one that writes from state the decoder also sets) is only called under a 'last transfer was a write' indicator; (SEEK) stream coders re-initialise on a backward seek before decoding forward. Not decided: the run/mix, splay-tree, zlib and n-bit mask state machines and the bit-buffer arithmetic themselves.",
    "rule_text": 'instances = coder arms of the header codec, arms of HCIinit_coder, dispatch sites through coder_funcs/model_funcs, flush call sites outside the write path, seek slots of stream coders',
    "trusted": [CLANG, CDB],
    "assumptions": [],
    "level_text": 'Codec-agreement, dispatch-exhaustiveness and flush-discipline checks over all coders; they decide for every coder and path what the round-trip tests sample for a few buffers.', "level_note": 'Trusted: clang front end, build flags, the per-coder header sizes of the format (SPEC_CODER_BYTES).', "technique": 'AST codec-layout comparison + dispatch-table resolution + guard-dominance dataflow',
}

PENDING = {}
PROPS["C16"] = {
    "rules": [rules_errors.rule_F4, rules_errors.rule_attach_on_fail, rules_mem.rule_mem],
    "level": "other",
    "explanation": "Decides structural necessary conditions of 'an I/O failure is reported and never corrupts memory'. (F4) The failure-propagating set W is computed from the source: the stdio/posix primitives, the frozen core of write/commit functions, every function stored in a write/endaccess/pgout slot, closed under 'tests the result of a member and returns its own fail value, or returns the result'. For every call site of a member of W, on every path of the caller (path-sensitive product analysis over the clang CFG), the result is tested, returned, stored where it is read again, or the path already returns the caller's fail value; a result that is dropped, cast to void, overwritten unseen, or seen to fail while the caller returns success ('swallowed', decided for the seed functions only) is a violation. (ATTACH) Lemma behind the one accepted drop idiom: no end-of-access routine returns FAIL after decrementing file_rec->attach, and Hclose returns FAIL while attach > 0 -- so a failed end-of-access whose result a caller ignores is still reported by the final close. (M1) no object is released twice on a path on which a member of W failed (free, HIrelease_accrec_node, and calls to functions summarised as 'releases its argument whenever it fails', also through the endaccess slot); (M2) no stdio call receives a stream that is NULL on such a path; (M3) error clean-up frees only what the function allocated or NULL, not a node it took from a list. Not decided: whether the bytes in the file equal the fault-free bytes (value-level); swallowing the failure of a *derived* function, whose fail value also means not-found/end-of-list (two such cases observed by fault injection are described in DESIGN.md); NULL results dereferenced through aliases; crashes caused by re-reading a half-written header (the divisor checks of fix 25f3031 have no static rule).",
    "rule_text": "instances = call sites of W members per (caller, callee); end-of-access routines and Hclose (ATTACH); release sites, stdio calls on named streams and clean-up frees per function (M1-M3); non-trivial = needed the path-sensitive analysis (a result consumed across statements, a guard on the returned variable, a release reached from more than one path)",
    "trusted": [CLANG, CDB, "frozen seed list W_CORE and the per-site exception table F4_SITE_EXCEPT / rules/f4_unconfirmed.txt (each entry one named function+callee with its reason)"],
    "assumptions": ["stdio results are the only source of storage failures (no signals, no mmap)", "a function whose failure is tested and answered by the caller's fail value reports it (error codes are not compared)"],
    "level_text": "All-paths error-propagation and ownership typestate over every function of the library: each of the ~800 call sites that can observe a storage failure is decided on every path, which no fault-injection test can enumerate (the suite injects none).",
    "level_note": "Trusted: clang front end/CFG, build flags, the seed list. A fault-injection sweep (triage/c16_sweep.c) was used only to triage reports on the unchanged tree: 24 defects fixed, 7 candidates recorded as unconfirmed, see DESIGN.md.",
    "technique": "path-sensitive error-propagation and release typestate dataflow over clang CFGs, with computed failure-propagation closure and release-on-failure summaries",
}


def _layouts(*recs):
    def rule(ctx):
        n = rules_layout.rule_layouts(ctx, only=set(recs) if recs else None)
        ctx.floor("F1", max(2, len([t for t in rules_layout.TABLE if not recs or t[0] in recs]) - 0), n, "(codec layout table rows)")
    rule.__name__ = "rule_layouts_%s" % ("_".join(recs) if recs else "all")
    return rule


_TRAIL_FILES = ("hblocks.c", "hchunks.c", "hextelt.c", "hfile.c", "hbuffer.c", "hcomp.c")
_trail = lambda ctx: ctx.floor("TRAIL", 2, rules_coders.rule_trailing_pointer(ctx, files=_TRAIL_FILES), "(list-cursor advance sites with a trailing pointer)")
PROPS["C02"]["rules"] = [_layouts(), rules_bounds.rule_F2_arrays, rules_dd.rule_F3, rules_dd.rule_F3b, rules_dd.rule_F11b, rules_dd.rule_F11c, _trail]
PROPS["C02"]["explanation"] = PROPS["C02"]["explanation"].replace(" Not decided:", " (TRAIL) a block-table walk that keeps a trailing pointer for later linking re-establishes it at every advance. Not decided:")
PROPS["C12"]["rules"] = PROPS["C12"]["rules"] + [_layouts("DD", "DDH")]
PROPS["C20"]["rules"] = PROPS["C20"]["rules"] + [rules_bounds.rule_F2_strings]
PROPS["C05"]["rules"] = PROPS["C05"]["rules"] + [_layouts("comp-header")]

PROPS["C07"] = {
    "rules": [rules_bounds.rule_F2_globals, _layouts("VH"), (lambda ctx: rules_dd.rule_F3c(ctx, {"vdata_desc"})), rules_limits.rule_F9b, rules_limits.rule_F9c, rules_bounds.rule_F2_strings],
    "level": "other",
    "explanation": "Decides structural necessary conditions of 'a Vdata returns the records written': (F1) vpackvs writes and vunpackvs reads the Vdata header (VH) exactly as the frozen format specification says — field widths, order, loops over fields, the optional flags/attribute tail and the version/more pair re-read from len-5; (F9b/F9c) every value that ends up in a 16-bit field of that record (field count, sizes, offsets, orders, name lengths, record size) is bounded where it is computed, no narrow counter is incremented without a limit test; (F2s) every copy into the fixed-size vsname/vsclass buffers is bounded by the buffer. (F2g) a loop variable or counter bounded only by a run-time count never indexes a fixed-size static table (VSfdefine compared user fields with the reserved-name table). Not decided: VSread/VSwrite gather/scatter (cases A-E), interlace conversion and seek arithmetic — all value-level.",
    "rule_text": "instances = rows of the VH layout table (writer, readers), increments of narrow record fields, ENCODE sites of vpackvs/vpackvg and narrowing stores into their fields, copies into fixed array fields",
    "trusted": [CLANG, CDB, "the frozen VH layout (DESIGN Appendix A)"],
    "assumptions": ["the spec table is the transcription of the published format"],
    "level_text": "Writer = reader = specification for the Vdata header plus guard-dominance for everything stored in its 16-bit fields; holds for every schema, not the few the tests build.",
    "level_note": "Trusted: clang front end, build flags, the transcribed VH layout. The record transfer arithmetic of VSread/VSwrite is out of static reach and not claimed.",
    "technique": "AST codec-layout extraction compared with a frozen spec + guard-dominance dataflow",
}
PROPS["C08"] = {
    "rules": [_layouts("VG"), (lambda ctx: rules_dd.rule_F3c(ctx, {"vgroup_desc"})), rules_limits.rule_F9b, rules_limits.rule_F9c],
    "level": "other",
    "explanation": "Decides structural necessary conditions of 'Vgroup membership, naming and hierarchy persist': (F1) vpackvg writes and vunpackvg reads the Vgroup record (VG) exactly as specified — element count, tag list, ref list, name and class with 16-bit lengths, extag/exref, optional flags and attribute list, version/more re-read from len-5; (F9b) the 16-bit element count is never incremented without a limit test; (F9c) name/class lengths and every other value encoded into 16-bit fields are bounded (Vsetname/Vsetclass guards re-verified). Not decided: equivalence with a reference graph model over edit histories, lone-object sets, ordered deletion — value-level.",
    "rule_text": "instances = rows of the VG layout table, increments of narrow record fields, ENCODE sites of vpackvg/vpackvs and narrowing stores into their fields",
    "trusted": [CLANG, CDB, "the frozen VG layout (DESIGN Appendix A)"],
    "assumptions": ["the spec table is the transcription of the published format"],
    "level_text": "Writer = reader = specification for the Vgroup record plus guard-dominance for its counters and lengths.",
    "level_note": "Trusted: clang front end, build flags, the transcribed VG layout. Membership semantics over histories are not claimed.",
    "technique": "AST codec-layout extraction compared with a frozen spec + guard-dominance dataflow",
}
PROPS["C15"] = {
    "rules": [_layouts("image-dims", "SDD", "annotation")],
    "level": "other",
    "explanation": "Decides the structural part of 'all interfaces agree on the same objects': every interface that reads or writes the same on-disk record uses the same layout, each compared with one frozen specification — the image/LUT dimension record (GRIupdatemeta, DFGRaddrig/DFGRgetrig, DFR8putrig/DFR8getrig), the SDS dimension record SDD (hdf_write_var and hdf_read_rank/_dimsizes/_NT of the SD layer, DFSDIputndg/DFSDIgetndg of the single-file layer) and the annotation target prefix (ANIwriteann, DFANIputann, DFANIlocate). Not decided: the values (dimension order, number types actually passed, old-format conversions such as keeping the flavour of dimension scales).",
    "rule_text": "instances = rows of the layout table for records shared between interfaces; non-trivial = a segment had to be located among several cursor re-seats",
    "trusted": [CLANG, CDB, "the frozen record layouts (DESIGN Appendix A)"],
    "assumptions": [],
    "level_text": "Sibling-implementation agreement through a common specification: a one-sided layout change in any interface is reported, which the suite cannot see when it reads files with the interface that wrote them.",
    "level_note": "Trusted: clang front end, build flags, the transcribed layouts. Agreement of values is not claimed.",
    "technique": "AST codec-layout extraction compared with a frozen spec across modules",
}

PROPS["C11"] = {
    "rules": [rules_ann.rule_type_tag_maps, rules_ann.rule_prefix_siblings, rules_ann.rule_key_macros, rules_ann.rule_one_shot_flags, _layouts("annotation")],
    "level": "other",
    "explanation": "Decides structural necessary conditions of 'annotations stay attached and keep their text': (MAP) every switch in the AN interface that maps an annotation type to a tag (or back) agrees with the format (label/description x object/file <-> DIL 104, DIA 105, FID 100, FD 101), arms do not fall through; (PREFIX) every condition that groups annotation tags uses one of the four legitimate groupings and the three payload siblings (ANIwriteann, ANIreadann, ANIannlen) select the 4-byte target tag/ref prefix for exactly {DIL, DIA}; (KEY) AN_CREATE_KEY / AN_KEY2TYPE / AN_KEY2REF are mutually inverse on 16-bit type and ref; (ONESHOT) ANIwriteann leaves the annotation's new_ann flag consumed (0) on every non-failing path, so a second write reuses the tag/ref; (F1) the target prefix is encoded as u16 tag, u16 ref in mfan.c and in the single-file dfan.c. Not decided: listing order, text bytes, which annotations a tree holds for a given history (e.g. the in-session rewrite flag, the cached directories of dfan.c).",
    "rule_text": "instances = annotation type/tag switches, tag-grouping conditions, key-macro expansions, prefix codec rows",
    "trusted": [CLANG, CDB, "the tag numbers of the format"],
    "assumptions": [],
    "level_text": "Exhaustive agreement of the twelve in-line type<->tag maps, the payload-layout siblings and the id<->tag/ref bijection with the format; a wrong arm in one of them passes every test that does not use that annotation kind through that entry point.",
    "level_note": "Trusted: clang front end and constant evaluator, build flags, the four tag numbers.",
    "technique": "switch-table and sibling-condition agreement over clang ASTs",
}

PROPS["C01"] = {
    "rules": [(lambda ctx: ctx.floor("F7a", 8, rules_coders.rule_dispatch_tables(ctx, only=("special_func",)), "(dispatches through special_func)")),
              rules_coders.rule_posn_siblings, _layouts("linked-header", "link-table", "external-header"),
              (lambda ctx: ctx.floor("TRAIL", 2, rules_coders.rule_trailing_pointer(ctx, files=("hblocks.c", "hchunks.c", "hextelt.c", "hfile.c", "hbuffer.c", "hcomp.c")), "(list-cursor advance sites with a trailing pointer)"))],
    "level": "other",
    "explanation": "Decides structural necessary conditions of 'every data element is a growable byte array whatever its storage': (F7a) every special_func slot that hfile.c dispatches without a NULL test is a function in all six special-element tables (contiguous/linked/external/compressed/chunked/buffered/compressed-raster all implement every dispatched operation); (POSN) every read, write and seek function of every storage kind, and Hread/Hwrite/Hseek for plain elements, update access_rec->posn on every non-failing path; (F1) the linked-block header, the block table and the external-element header are written and read as the format specifies; (TRAIL) where a block-table walk keeps a trailing pointer that is read later, every advance of the cursor re-establishes it. Not decided: the block-walk arithmetic of HLPread/HLPwrite (which table a new block is recorded in), zero-fill of holes, the append-vs-promote decision, interleaved handles, the external-file retry path — all value-level.",
    "rule_text": "instances = dispatch sites through special_func, read/write/seek functions of the storage kinds, layout rows of the linked/external records",
    "trusted": [CLANG, CDB, "function pointers are resolved through the record field they are stored in"],
    "assumptions": [],
    "level_text": "Dispatch-completeness, bookkeeping-sibling and codec checks across all storage kinds: 'holds identically for every storage kind' needs each kind to implement each operation the same way, which tests exercise for one kind at a time.",
    "level_note": "Trusted: clang front end, build flags, the transcribed layouts. The byte-level behaviour of the block walks is out of static reach and not claimed.",
    "technique": "function-table resolution + must-update typestate + AST codec-layout comparison",
}

PROPS["C03"] = {
    "rules": [rules_sd.rule_coordck, rules_sd.rule_boundcmp, rules_sd.rule_last_iteration_flag],
    "level": "other",
    "explanation": "Decides only the rejection clause of 'hyperslab access behaves as an n-d array': (COORDCK) in the nc/SD data drivers NCvar1io and NCvario every data-transfer call (hdf_xdr_NCvdata / hdf_xdr_NCv1data and their netCDF/CDF siblings) for a non-scalar variable is reached, on every path and in every loop iteration, only after NCcoordck was called and seen to succeed since the previous transfer, and in NCvario only after NCvcmaxcontig accepted the edge lengths; NCsimplerecio, which trusts its caller, is called from NCvario only, after such a check. (BOUNDCMP) inside NCcoordck the comparison of a coordinate with the dimension size sends equality to `return FALSE`, and so does a negative coordinate. (LASTITER) no loop of the library or tools computes a for-all flag (e.g. SDwritedata's 'all strides are 1') by overwriting it from the current element alone. Not decided (value-level): offsets (NC_varoffset), the odometer, fill values, record growth, row-major order, persistence across SDend/SDstart.",
    "rule_text": "instances = transfer call sites and delegations in the drivers (13), the two boundary comparisons of NCcoordck; non-trivial = needed the path-sensitive must-pass-through with call outcome inside loops",
    "trusted": [CLANG, CDB],
    "assumptions": ["SDreaddata/SDwritedata reach element I/O only through NCvario/NCvar1io/NCgenio (checked: NCgenio has no transfer call of its own)"],
    "level_text": "All-paths must-pass-through of the coordinate check before every element transfer: holds for every start/edge vector and every loop iteration, where the tests try a handful of out-of-range requests.",
    "level_note": "Thin by design: the heart of C03 (which cell, which value) is arithmetic over runtime quantities that no static rule here bounds.",
    "technique": "path-sensitive must-pass-through (call-outcome typestate) over clang CFGs",
}

PROPS["C04"] = {
    "rules": [rules_cache.rule_dirty_on_write, rules_cache.rule_cache_internal, rules_cache.rule_cache_clients,
              ],
    "level": "other",
    "explanation": "Decides the cache-discipline clauses that 'cache size never changes the data' depends on: (K1) every function that copies caller data into a page obtained from mcache_get hands that page back with mcache_put(.., MCACHE_DIRTY) on every non-failing path (aliases chk_dptr = chk_data followed); (K2) mcache_bkt unlinks a page for reuse only on paths where its MCACHE_DIRTY bit was seen clear or mcache_write was seen to succeed; (K3) mcache_write clears MCACHE_DIRTY only after the page-out callback was seen not to fail; (K6) mcache_put ORs the caller's DIRTY flag into the page flags and never clears DIRTY, and BKT.flags is written nowhere outside mcache.c; (K4) every mcache_close is preceded on every path by mcache_sync on the same cache; (K5) every mcache_open is followed by mcache_filter with both page-in and page-out functions. Not decided (value-level, the heart of the property): chunk index arithmetic, partial last chunks, coder x chunk products, n-bit/external/linked-block equivalence.",
    "rule_text": "instances = mcache_get/mcache_put sites per client function, queue removals in mcache_bkt, the DIRTY clear of mcache_write, flag updates of mcache_put, mcache_close and mcache_open sites",
    "trusted": [CLANG, CDB],
    "assumptions": ["chunk data reaches the file only through the cache's page-out callback (HMCPchunkwrite)"],
    "level_text": "All-paths typestate of cache pages (got / modified / put dirty) and of the eviction path: a dirty page can be neither dropped nor put back clean for any cache size or access order.",
    "level_note": "Thin by design; see Not decided.",
    "technique": "typestate dataflow over clang CFGs (cache page states, flush-before-evict, sync-before-close pairing)",
}

PROPS["C09"] = {
    "rules": [rules_gr.rule_il_symmetry, rules_gr.rule_il_range, _layouts("image-dims")],
    "level": "other",
    "explanation": "Decides structural necessary conditions of 'images round-trip in every interlace': (ILSYM) GRIil_convert sets up the stride tables of its input and output buffer in two switches over the interlace code; converting X->Y and Y->X are inverse permutations only if both describe each interlace identically, so every arm of the `inil` switch must equal the `outil` arm for the same code after renaming in_*/inbuf to out_*/outbuf, all three codes must have an arm in both, and any other code takes the failing default; every other condition of GRIil_convert tests `inil` and `outil` against the same codes (the end-of-line adjustment is applied for both directions). (ILRANGE) the two setters of the requested interlace (GRreqimageil, GRreqlutil) store the code only on paths where it is confined to PIXEL..COMPONENT. (F1) the image-dimension record (DFTAG_ID/LD) is written and read as the frozen format table says. Not decided (value-level): region/stride addressing in GRwriteimage/GRreadimage, first-write fill, palette entry values, behaviour under compression/chunking (see C04/C05 for their structural clauses).",
    "rule_text": "instances = interlace codes x the two switches of GRIil_convert, the two interlace setters, rows of the image-dims layout",
    "trusted": [CLANG, CDB, "the frozen image-dims layout (DESIGN Appendix A)"],
    "assumptions": ["GRIil_convert is the only interlace permutation used by GRreadimage/GRwriteimage/GRreadlut (its callers are not enumerated)"],
    "level_text": "Sibling agreement of the two stride-table set-ups plus writer=reader=spec for the dimension record: holds for every image size, component count and number type.",
    "level_note": "Thin by design; the addressing arithmetic of region I/O is value-level and not decided.",
    "technique": "AST sibling-agreement check and layout extraction over the clang AST, interval dataflow for the range guard",
}

PROPS["C10"] = {
    "rules": [rules_attr.rule_hdirty, rules_attr.rule_grattr, rules_attr.rule_grattr_link, rules_attr.rule_attr_hdftype, (lambda ctx: rules_dd.rule_F3c(ctx, {"vgroup_desc", "vdata_desc"})), _layouts("VG", "VH")],
    "level": "other",
    "explanation": "Decides the persistence clause of 'attributes are returned as last set' per interface: (HDIRTY) SD: every non-failing path of a public SD function on which SDIputattr -- the one routine that puts or replaces an attribute-list entry -- succeeded also sets NC_HDIRTY on the file handle (otherwise SDend does not rewrite the header and the attribute is lost); (GRATTR) GR: every non-failing path that marks an attribute's cached value changed or inserts an attribute node also sets the owner's attr_modified/gattr_modified flag (directly or through the update_flag pointer loaded with its address); (GRLINK) GRend links every attribute created in the session into its Vgroup independently of whether its data is still pending; (ATTRTYPE) every SD-layer path that creates an attribute with NC_new_attr stores the caller's HDF number type into it before returning success (NC_new_attr alone maps unsigned types to signed); (F3c) Vgroup/Vdata: every store to a persisted field of the in-memory record -- the attribute list and count included -- comes with `marked`; (F1) the VG and VH records, which carry the attribute lists, are written and read as the frozen format table says. Not decided: the values returned, index stability on replace, the type/count-change refusal, name/index/ref bijections.",
    "rule_text": "instances = SDIputattr call sites per SD function (15), attribute changes in the GR interface, functions storing into persisted Vgroup/Vdata fields, layout rows of VG/VH",
    "trusted": [CLANG, CDB, "the frozen VG/VH layouts"],
    "assumptions": ["SDIputattr is the only writer of SD attribute lists from the SD interface (NC_aput of the nc interface is not covered)"],
    "level_text": "All-paths dirty-flag discipline for attribute mutators in all three interfaces: an attribute that was set cannot be silently left out of the file, for any sequence of setters.",
    "level_note": "Decides persistence only; equality of returned values is value-level.",
    "technique": "path-sensitive dirty-flag typestate over clang CFGs plus layout extraction",
}

PROPS["C12"]["rules"] = PROPS["C12"]["rules"] + [rules_ref.rule_maxref, rules_ref.rule_maxref_registered, rules_ref.rule_fresh_cursor, rules_dd.rule_unrolled_pairs]
PROPS["C12"]["explanation"] += " (MAXREF) filerec_t.maxref, from which Hnewref's fast path hands out `++maxref` without looking at the directory, never decreases: every store is a constructor's 0, an increment guarded by `maxref < MAX_REF`, or `= e` guarded by `e > maxref`; (MAXREG) HTPcreate, which enters every new tag/ref into the directory, leaves maxref >= that reference on every non-failing path. (UNROLL2) the directory-counting loop that takes two descriptors per iteration consumes the odd descriptor of a block unconditionally first. (CURSOR) every whole-directory search (Hnewref's free-ref scan, HTPcreate's free-slot search, Hfind's first search) passes HTIfind_dd a cursor that is NULL on every path, so it cannot resume behind descriptors that are in use."
PROPS["C20"]["rules"] = PROPS["C20"]["rules"] + [rules_ref.rule_maxref, rules_bounds.rule_F2_globals, rules_bounds.rule_parallel_arrays, rules_bounds.rule_ref_tables, rules_limits.rule_write_wrap_guard]
PROPS["C20"]["explanation"] += " (WRAPPOS) Hwrite bounds position + length by INT32_MAX before it dispatches to a special write routine (which add the length unchecked). (REFTABLE) a table indexed by reference number has MAX_REF + 1 entries. (PARALLEL) local arrays that one running counter fills in lock-step have the same dimension. (F2g) a running counter that indexes a fixed-size static table (the token tables of scanattrs) is compared with the table size before every use. (MAXREF) the per-file highest-reference counter never decreases or wraps (see C12)."
PROPS["C17"]["rules"] = PROPS["C17"]["rules"] + [rules_ref.rule_fresh_cursor]
PROPS["C17"]["explanation"] += " (CURSOR) whole-directory searches start from a NULL cursor, so a new object can never be given a reference an older object already uses."
PROPS["C01"]["rules"] = PROPS["C01"]["rules"] + [rules_ref.rule_ext_offset, rules_stale.rule_sibling_stale, rules_ref.rule_special_first, rules_ref.rule_seek_origin]
PROPS["C01"]["explanation"] += " (SPECIALFIRST) generic H-layer routines rewrite the descriptor behind an access record only after special elements were excluded; (SEEKORIGIN) an offset that was made absolute is not forwarded with its original origin. (SIBSTALE) no loop reads, in one arm of an if/else, an iteration-local variable that only the other arm assigns (the byte count a block walk accumulates is the one of the current block). (EXTOFF) every posn-relative seek on an external element's stream adds extern_offset, the write-retry path included."
PROPS["C16"]["rules"] = PROPS["C16"]["rules"] + [rules_ref.rule_ext_offset]
PROPS["C16"]["explanation"] = PROPS["C16"]["explanation"].replace(" Not decided: whether", " (EXTOFF) the retry that HXPwrite performs after a failed write seeks to the same `posn + extern_offset` as the first attempt. Not decided: whether")

PROPS["C08"]["rules"] = PROPS["C08"]["rules"] + [rules_ref.rule_shared_access_monotone, rules_ref.rule_classless_counted]
PROPS["C08"]["explanation"] += " (CLASSLESS) both enumeration modes of Vgetvgroups count a Vgroup without a class as user-created. (MONO) re-attaching a Vgroup that is already attached (nattach > 0) combines the old access mode with the requested one and never overwrites it, so an earlier write handle is not silently downgraded."
PROPS["C14"]["rules"] = PROPS["C14"]["rules"] + [rules_ref.rule_bitflush_mode, rules_ref.rule_access_from_mode]
PROPS["C14"]["explanation"] += " (ACCMODE) each special-element start-access routine derives access_rec->access from the requested mode, and a chunk handed back to the cache as DIRTY counts as a write promise that needs a write-permission proof (F5B). (BITFLUSH) the bit-I/O layer writes its buffer back (HIbitflush) only on paths where the bitfile is in write *mode*; being opened with write *access* is not enough, a buffer filled by reading must never be written."
PROPS["C05"]["rules"] = PROPS["C05"]["rules"] + [rules_ref.rule_bitflush_mode]

PROPS["C19"]["rules"] = PROPS["C19"]["rules"] + [rules_tools.rule_index_count_pairing]
PROPS["C19"]["explanation"] += " (PAIR) every loop of hdiff/hdp (and hrepack's listing code) that enumerates items by index is bounded by the count that was queried from the *same* object it indexes."

PROPS["C06"]["rules"] = PROPS["C06"]["rules"] + [(lambda ctx: rules_ref.rule_inout_used(ctx, callees={"hdf_check_nt"}, floor=2))]
PROPS["C06"]["explanation"] = PROPS["C06"]["explanation"].replace(" Not decided: that callers", " (INOUT) the number type that hdf_check_nt normalises in place (native / little-endian flavour of a DFSD-era dataset or dimension scale) is read again by its caller after the call, i.e. the normalised flavour is the one that is kept. Not decided: that other callers")

PROPS["C05"]["rules"] = PROPS["C05"]["rules"] + [rules_gr.rule_signext_symmetry]
PROPS["C05"]["explanation"] += " (SEEKORIGIN) a seek routine that has made the offset absolute never forwards it together with the original origin (SEEKRESET: a coder seek re-initialises or resets its cursors). (BITFLUSH) the bit buffer is written back only in write mode. (SIGNSYM) the two sign-extension arms of the n-bit decoder (fill with ones / fill with zeroes) touch exactly the same bytes and bits."

PROPS["C04"]["rules"] = PROPS["C04"]["rules"] + [rules_ref.rule_converted_value_used, rules_ref.rule_seek_resets_cursor]
PROPS["C04"]["explanation"] = PROPS["C04"]["explanation"].replace(" Not decided (value-level", " (CONVUSED) wherever DFKconvert writes into a local buffer (e.g. the fill value handed to HMCcreate by SDsetchunk), something other than free() consumes that buffer afterwards; (SEEKRESET) every coder's seek either re-runs the coder's init routine or resets each cursor field of its state, so a read after a seek never continues from a stale decode buffer. Not decided (value-level")
PROPS["C05"]["rules"] = PROPS["C05"]["rules"] + [rules_ref.rule_seek_resets_cursor, rules_ref.rule_seek_origin]
PROPS["C06"]["rules"] = PROPS["C06"]["rules"] + [rules_ref.rule_converted_value_used]

PROPS["C18"] = {
    "rules": [rules_repack.rule_traverse, rules_repack.rule_io_roles, rules_repack.rule_copy_results, rules_repack.rule_out_failures],
    "level": "other",
    "explanation": "Decides structural necessary conditions of 'hrepack preserves all content': (TRAVERSE) list_main returns SUCCEED only on paths on which each traversal routine (list_vg, list_sds, list_vs, list_glb, list_pal, list_an, and list_gr when the file has GR elements) was called and seen not to fail, and the member switch of the Vgroup traversal has a copying arm for every object kind a Vgroup can hold (Vgroup, SD/SDG/NDG, RI/CI/RIG/RI8/CI8/II8, VH); (IOROLE) every HDF handle in the hrepack sources gets a role from the function's parameters (`*_in`, `infile*`, `<stem>_id` next to `<stem>_out` are input, `*out*` output), propagated through select/create/attach calls; every reading API call takes an input handle and every mutating API call an output handle; (COPYERR) the result of every copy_*/list_* routine called during the traversal is consumed; (OUTFAIL) when a mutating or closing API call on an output handle is seen to fail, the function does not return its success value on that path. Not decided (value-level): that the copied values, names and attributes are equal, the layout decisions of the option table, idempotence.",
    "rule_text": "instances = traversal routines and member kinds (11), API calls on handles with a known role (~105), copy/list call sites (~37), mutating/closing calls on output handles (~60)",
    "trusted": [CLANG, CDB, "the reader/mutator classification of the HDF API names in rules_repack.py", "rules/outfail_unconfirmed.txt"],
    "assumptions": ["handle roles follow the parameter naming convention of the hrepack sources (a variable used in both roles is reported as not decided)"],
    "level_text": "All-paths traversal completeness and in/out role discipline of a copy tool: holds for every input file and option set, where the tests compare a handful of files with hdiff.",
    "level_note": "Thin by design: equality of content is value-level. Three defects found with these rules were fixed (dropped copy results, swallowed output-close failures).",
    "technique": "must-pass-through with call outcomes, role propagation over the resolved call sites, swallowed-failure typestate",
    "scope": "lib+tools",
}

PROPS["C13"]["rules"] = PROPS["C13"]["rules"] + [rules_handles.rule_slot_table_copy]
PROPS["C13"]["explanation"] += " (SLOTCOPY) copies out of the SD file table `_cdfs`, whose positions are the SD file ids, preserve positions."

PROPS["C11"]["rules"] = PROPS["C11"]["rules"] + [rules_ann.rule_lazy_tree]
PROPS["C11"]["explanation"] += " (LAZYTREE) every routine that finds the per-type annotation tree not built yet (an_num == -1) builds it from the file with ANIcreate_ann_tree; only that builder starts a tree with tbbtdmake."

PROPS["C07"]["rules"] = PROPS["C07"]["rules"] + [rules_idioms.rule_guarded_store, rules_idioms.rule_name_compare]
PROPS["C07"]["explanation"] += " (GUARDSTORE) a field that is updated under `if (E > field)` (the record count of a Vdata after a write beyond its end) is set to E itself. (NAMECMP) look-up of Vdatas and Vgroups by name or class compares whole names."
PROPS["C12"]["rules"] = PROPS["C12"]["rules"] + [rules_idioms.rule_guarded_store]
PROPS["C08"]["rules"] = PROPS["C08"]["rules"] + [rules_idioms.rule_name_compare]
PROPS["C08"]["explanation"] += " (NAMECMP) Vfind/VSfind/Vfindclass/VSfindclass compare whole names, never a fixed-length prefix."
PROPS["C11"]["rules"] = PROPS["C11"]["rules"] + [rules_idioms.rule_cache_key]
PROPS["C11"]["explanation"] += " (CACHEKEY) the single-file interfaces (DFAN and its siblings) compare the remembered file name with the new one before overwriting it, so directories cached for another file are never reused."
PROPS["C15"]["rules"] = PROPS["C15"]["rules"] + [rules_idioms.rule_cache_key]
PROPS["C15"]["explanation"] += " (CACHEKEY) every DF*Iopen routine compares Lastfile with the new file name before it overwrites it."
PROPS["C01"]["rules"] = PROPS["C01"]["rules"] + [rules_idioms.rule_key_compare]
PROPS["C01"]["explanation"] += " (KEYCMP) the predicate that finds another access record on the same element compares the file identity as well as tag/ref."
PROPS["C13"]["rules"] = PROPS["C13"]["rules"] + [rules_idioms.rule_key_compare]
PROPS["C13"]["explanation"] += " (KEYCMP) access records of different files are never matched with each other by HIgetspinfo's predicate."
PROPS["C05"]["rules"] = PROPS["C05"]["rules"] + [rules_idioms.rule_encdec_symmetry]
PROPS["C05"]["explanation"] += " (ENCDECSYM) the encoder and decoder of a coder advance the shared model cursor of the coder state by the same expression."
PROPS["C18"]["rules"] = PROPS["C18"]["rules"] + [rules_idioms.rule_pair_an]
PROPS["C18"]["explanation"] = PROPS["C18"]["explanation"].replace(" Not decided (value-level)", " (PAIRAN) a loop over annotations of one kind is bounded by the count ANfileinfo returned for that kind. Not decided (value-level)")
PROPS["C19"]["rules"] = PROPS["C19"]["rules"] + [rules_idioms.rule_alloc_len, rules_idioms.rule_pair_an]
PROPS["C19"]["explanation"] += " (ALLOCLEN) a byte-wise buffer comparison in hdiff covers the size both buffers were allocated with. (PAIRAN) annotation loops of the tools are bounded by the count of the kind they select."

PROPS["C12"]["rules"] = PROPS["C12"]["rules"] + [rules_dd.rule_ddblock_extent]
PROPS["C12"]["explanation"] += " (DDBLOCKSZ) every offset sum over DD_SZ-sized descriptors counts the 6-byte block header. (GUARDSTORE) a high-water mark updated under `if (E > mark)` is set to E."
PROPS["C17"]["rules"] = PROPS["C17"]["rules"] + [rules_dd.rule_ddblock_extent]
PROPS["C17"]["explanation"] += " (DDBLOCKSZ) the end-of-file mark and descriptor positions computed from a DD block's offset count the block header as well as its descriptors."

PROPS["C05"]["rules"] = PROPS["C05"]["rules"] + [rules_idioms.rule_window_test]
PROPS["C05"]["explanation"] += " (WINDOW) the test whether a bit-file position lies in the buffered block is the half-open one, [block_offset, block_offset + BITBUF_SIZE)."

PROPS["C18"]["rules"] = PROPS["C18"]["rules"] + [rules_idioms.rule_option_siblings]
PROPS["C18"]["explanation"] = PROPS["C18"]["explanation"].replace(" Not decided (value-level)", " (OPTSIB) the -t and -c option handlers apply the same tests to their object lists. Not decided (value-level)")

PROPS["C19"]["rules"] = PROPS["C19"]["rules"] + [rules_idioms.rule_gr_component_count]
PROPS["C19"]["explanation"] += " (GRCOMP) wherever a tool reads an image, the buffer size and every element count passed on with the buffer (array_diff, dumpfull) depends on the number of components."
PROPS["C18"]["rules"] = PROPS["C18"]["rules"] + [rules_idioms.rule_gr_component_count]

PROPS["C19"]["rules"] = PROPS["C19"]["rules"] + [rules_idioms.rule_reported_difference_counted]
PROPS["C19"]["explanation"] += " (DIFFCOUNT) in hdiff's comparison routines every branch taken because a quantity of the two objects differs, and which prints a report, adds to the difference count (or declares the objects not comparable)."

PROPS["C19"]["rules"] = PROPS["C19"]["rules"] + [rules_idioms.rule_dump_record_major]
PROPS["C19"]["explanation"] += " (RECMAJOR) hdp reads Vdata records in FULL_INTERLACE order, the order in which its dump loop walks the buffer."

PROPS["C15"]["rules"] = PROPS["C15"]["rules"] + [rules_idioms.rule_status_as_boolean]
PROPS["C15"]["explanation"] += " (STATUSBOOL) a local that only takes the values SUCCEED (0) and FAIL (-1) is never tested as a truth value (which would be true for FAIL): one known finding, the `new_dim` flag with which hdf_read_ndgs decides whether a dimension of a pre-Vgroup SDS gets the coordinate variable that carries its label/unit/format."

PROPS["C15"]["rules"] = PROPS["C15"]["rules"] + [rules_sd.rule_unlimited_size_per_variable]
PROPS["C15"]["explanation"] += " (UNLIMSIZE) wherever a variable's unlimited extent is replaced by its current size, HDF files use the variable's own record count; this includes the NDG dimension record hdf_write_var stores for DFSD readers."
PROPS["C03"]["rules"] = PROPS["C03"]["rules"] + [rules_sd.rule_unlimited_size_per_variable]
PROPS["C03"]["explanation"] += " (UNLIMSIZE) the stride validation of SDreaddata and the dimensions SDgetinfo reports take the size of an unlimited dimension from the variable's own record count in HDF files."

PROPS["C02"]["rules"] = PROPS["C02"]["rules"] + [rules_dd.rule_ddblock_extent, rules_dd.rule_end_extension]
PROPS["C02"]["explanation"] += " (DDBLOCKSZ) every offset computed over the descriptors of a DD block counts the block header, so nothing is allocated inside a block. (ENDEXT) whoever advances the end-of-file mark writes at the new end or records FILE_END_DIRTY, so the file is extended over every reserved byte before descriptors pointing there are flushed."
PROPS["C17"]["rules"] = PROPS["C17"]["rules"] + [rules_dd.rule_end_extension]

PROPS["C09"]["rules"] = PROPS["C09"]["rules"] + [(lambda ctx: rules_dd.rule_F3c(ctx, {"ri_info"}))]
PROPS["C09"]["explanation"] += " (F3c for images) every non-failing path that changes a field of the in-memory image record which GRIupdatemeta/GRIupdateRI store (dimension records of image and palette, name, palette reference) also sets `meta_modified`, the flag that makes GRend rewrite the image's description."

PROPS["C10"]["rules"] = PROPS["C10"]["rules"] + [rules_attr.rule_attr_count_kept]
PROPS["C10"]["explanation"] += " (ATTRCOUNT) the record count of an attribute Vdata reaches NC_new_attr in hdf_read_attrs (scaled by the field order, never replaced by it)."

PROPS["C10"]["rules"] = PROPS["C10"]["rules"] + [rules_idioms.rule_nc_name_equal]
PROPS["C10"]["explanation"] += " (NCNAMEEQ) every look-up by name in the SD layer compares the length of the counted name as well as its bytes (no prefix matches between attribute, dimension or variable names). (GRATTR) changing an image's attribute also sets gr_modified, without which GRend skips the images."
PROPS["C15"]["rules"] = PROPS["C15"]["rules"] + [rules_idioms.rule_nc_name_equal]

PROPS["C15"]["rules"] = PROPS["C15"]["rules"] + [rules_attr.rule_attr_hdftype]
PROPS["C15"]["explanation"] += " (ATTRTYPE) an attribute re-typed in place through the netCDF-style call (NC_aput) gets its HDF number type updated too, so SD reports the type the nc call stored; (NCNAMEEQ) names are compared with their lengths in every SD-layer look-up."

PROPS["C17"]["rules"] = PROPS["C17"]["rules"] + [rules_dd.rule_open_cache_init]
PROPS["C17"]["explanation"] += " (OPENINIT) Hopen stores the caching flag and clears the dirty flags on every path that makes a file record live, for existing files as for new ones. (ENDEXT) space reserved by advancing the end-of-file mark is recorded for extension."

PROPS["C10"]["rules"] = PROPS["C10"]["rules"] + [rules_attr.rule_dim_dirty]
PROPS["C10"]["explanation"] += " (DIMDIRTY) renaming a dimension or making it share an existing one sets NC_HDIRTY on every non-failing path."

PROPS["C03"]["rules"] = PROPS["C03"]["rules"] + [rules_sd.rule_presize_condition]
PROPS["C03"]["explanation"] += " (SETLEN) the test that decides whether a data element must be pre-sized for no-fill writes looks at the file (no data element yet), not only at the per-session `created` flag."

PROPS["C03"]["rules"] = PROPS["C03"]["rules"] + [rules_sd.rule_presize_consumed]
PROPS["C03"]["explanation"] += " (SETLENUSE) a pending pre-sizing request is honoured before every seek or write on the data element, also when an earlier read had already opened the element."

PROPS["C15"]["rules"] = PROPS["C15"]["rules"] + [rules_gr.rule_import_compression]
PROPS["C15"]["explanation"] += " (CRDRV) each of the three storage conventions GR imports images from (GR Vgroup, RIG, ungrouped RI8/CI8/II8) can select the compressed-raster driver for the image it finds."
PROPS["C09"]["rules"] = PROPS["C09"]["rules"] + [rules_gr.rule_import_compression]

PROPS["C15"]["rules"] = PROPS["C15"]["rules"] + [rules_gr.rule_rig_number_type]
PROPS["C15"]["explanation"] += " (RIGNT) the number types for which GR writes a compatibility RIG are accepted by both RIG readers (DFR8, DFGR/DF24)."

PROPS["C15"]["rules"] = PROPS["C15"]["rules"] + [rules_gr.rule_probe_tag]
PROPS["C15"]["explanation"] += " (PROBETAG) a branch taken because an element of a given tag exists records that tag (the IP8 palette of an ungrouped 8-bit image in GR and DFR8)."
PROPS["C09"]["rules"] = PROPS["C09"]["rules"] + [rules_gr.rule_probe_tag]

PROPS["C09"]["rules"] = PROPS["C09"]["rules"] + [rules_gr.rule_axis_stride]
PROPS["C09"]["explanation"] += " (AXISUSE) in the axis loops of GRreadimage and GRwriteimage an offset advanced once per iteration over count[A] takes its stride factor from stride[A]. (CRDRV, PROBETAG) see C15."

PROPS["C03"]["rules"] = PROPS["C03"]["rules"] + [rules_sd.rule_contiguity_full_extent]
PROPS["C03"]["explanation"] += " (CONTIG) the test that lets NCvcmaxcontig merge a dimension into a contiguous run compares the edge with the whole dimension, independently of the start coordinate."

PROPS["C20"]["rules"] = PROPS["C20"]["rules"] + [rules_sd.rule_refuse_before_mutation]
PROPS["C20"]["explanation"] += " (REFUSEFIRST) SDcreate compares the request with every documented maximum (rank, name length, number of data sets) before it first changes the file's dimension list, so a refused call leaves the file as it was."

PROPS["C13"]["rules"] = PROPS["C13"]["rules"] + [rules_handles.rule_table_bound_reset]
PROPS["C13"]["explanation"] += " (TABLEFREE) a routine that releases an id-indexed global table also resets the count that bounds the ids."

PROPS["C14"]["rules"] = PROPS["C14"]["rules"] + [rules_access.rule_close_version_guard]
PROPS["C14"]["explanation"] += " (CLOSEVER) the version element is brought up to date at close only under a test of write access, so a read-only file without a version element can be closed."

PROPS["C14"]["rules"] = PROPS["C14"]["rules"] + [rules_access.rule_readonly_shortcut_is_read]
PROPS["C14"]["explanation"] += " (ROSHORTCUT) the fill-value shortcut of the SD data path for read-only files is confined to reads."

PROPS["C07"]["rules"] = PROPS["C07"]["rules"] + [rules_idioms.rule_slot_filled_alike]
PROPS["C07"]["explanation"] += " (SLOTFILL) a field-definition entry is filled completely (name, type, size, order) on the redefinition path as on the new-entry path."

PROPS["C07"]["rules"] = PROPS["C07"]["rules"] + [rules_idioms.rule_snapshot_not_consulted]
PROPS["C07"]["explanation"] += " (SNAPSHOT) no decision reads the record count snapshot kept in the per-file instance node; the live count is the one in the Vdata record."

PROPS["C07"]["rules"] = PROPS["C07"]["rules"] + [rules_coders.rule_trailing_pointer]
PROPS["C04"]["rules"] = PROPS["C04"]["rules"] + [rules_coders.rule_trailing_pointer]
PROPS["C04"]["explanation"] += " (TRAIL) the linked-block write loop re-establishes its trailing table pointer whenever it moves to the next block table, so new block references are recorded in the table they belong to (appendable Vdatas and unlimited SDS growth use this path)."
PROPS["C07"]["explanation"] += " (TRAIL) see C04: appends to a Vdata stored as linked blocks record new blocks in the right block table."

PROPS["C13"]["rules"] = PROPS["C13"]["rules"] + [rules_handles.rule_cross_object_compare]
PROPS["C13"]["explanation"] += " (SELFCMP) a same-file guard in the V interface compares fields of two different objects on every path (the local it tests was not loaded from the field it is compared with)."

PROPS["C13"]["rules"] = PROPS["C13"]["rules"] + [rules_handles.rule_cache_full_scan]
PROPS["C13"]["explanation"] += " (FULLSCAN) every loop over the atom lookup cache covers all of its slots, so a released id is purged from each of them."

PROPS["C20"]["rules"] = PROPS["C20"]["rules"] + [rules_limits.rule_end_sum_terms]
PROPS["C20"]["explanation"] += " (ENDSUM) every INT32_MAX guard of Hwrite contains both per-call terms of the end-of-write sum, the position and the length."

PROPS["C04"]["rules"] = PROPS["C04"]["rules"] + [rules_cache.rule_fill_covers_chunk]
PROPS["C04"]["explanation"] += " (FILLCOVER) the fill of a never-written chunk's cache page is computed from the chunk's element count and element size, so it covers the whole page."

PROPS["C13"]["rules"] = PROPS["C13"]["rules"] + [rules_handles.rule_release_removes_key]
PROPS["C13"]["explanation"] += " (RELKEY) a public routine that releases the identifier it is given removes it from the atom table on every non-failing path, also when other users of a shared object remain."

PROPS["C01"]["rules"] = PROPS["C01"]["rules"] + [rules_idioms.rule_written_local_initialised]
PROPS["C01"]["explanation"] += " (INITWRITE) a local whose bytes are written to the file has been given a value (the byte that reserves a block is zero, so gaps read as zeros)."

PROPS["C20"]["rules"] = PROPS["C20"]["rules"] + [rules_limits.rule_dd_length_nonnegative]
PROPS["C20"]["explanation"] += " (NEGLEN) a caller-supplied length is compared with 0 before a public routine stores it in a descriptor."
PROPS["C01"]["rules"] = PROPS["C01"]["rules"] + [rules_limits.rule_dd_length_nonnegative]

PROPS["C08"]["rules"] = PROPS["C08"]["rules"] + [rules_idioms.rule_nullable_string_guarded]
PROPS["C08"]["explanation"] += " (NULLNAME) every string read of a Vgroup's name or class (NULL until set) sits under a NULL test of that field."

PROPS["C12"]["rules"] = PROPS["C12"]["rules"] + [rules_dd.rule_duplicate_refused_first]
PROPS["C12"]["explanation"] += " (DUPFIRST) HTPcreate looks an existing tag/ref up and refuses it before it claims and writes a descriptor."

PROPS["C12"]["rules"] = PROPS["C12"]["rules"] + [rules_dd.rule_failure_tested_wide]
PROPS["C12"]["explanation"] += " (NARROWFAIL) no search result of the directory code is compared with the failure value after narrowing to 16 bits (65535 is a legal reference)."
PROPS["C20"]["rules"] = PROPS["C20"]["rules"] + [rules_dd.rule_failure_tested_wide]

PROPS["C19"]["rules"] = PROPS["C19"]["rules"] + [rules_tools.rule_empty_keeps_attrs]
PROPS["C19"]["explanation"] += " (EMPTYATTR) the exit hdiff takes for a data set without data still reaches the attribute comparison."

PROPS["C18"]["rules"] = PROPS["C18"]["rules"] + [rules_idioms.rule_annotation_length_kept]
PROPS["C18"]["explanation"] = PROPS["C18"]["explanation"].replace(" Not decided (value-level)", " (ANNLEN) an annotation is written with the length ANannlen reported, not with the length enlarged for reading. Not decided (value-level)")

PROPS["C18"]["rules"] = PROPS["C18"]["rules"] + [rules_idioms.rule_reserved_test_reachable]
PROPS["C18"]["explanation"] = PROPS["C18"]["explanation"].replace(" Not decided (value-level)", " (RESERVED) the reserved-class filter is evaluated for non-empty class names. Not decided (value-level)")

PROPS["C18"]["rules"] = PROPS["C18"]["rules"] + [rules_idioms.rule_out_param_not_reseated]
PROPS["C18"]["explanation"] = PROPS["C18"]["explanation"].replace(" Not decided (value-level)", " (OUTPARAM) a pointer out-parameter is written through, never re-seated with a constant. Not decided (value-level)")

PROPS["C01"]["rules"] = PROPS["C01"]["rules"] + [rules_limits.rule_transfer_bound_has_position]
PROPS["C01"]["explanation"] += " (POSNTERM) every comparison of a transfer length with the element's length in Hread/Hwrite includes the handle's position. (NEGLEN) caller-supplied lengths are compared with 0 before they reach a descriptor."

PROPS["C05"]["rules"] = PROPS["C05"]["rules"] + [rules_ref.rule_preread_then_seek]
PROPS["C05"]["explanation"] += " (PREREADSEEK) a bit-I/O routine that fills the buffer by reading and leaves the bit file in write mode seeks the access element back afterwards."

PROPS["C06"]["rules"] = PROPS["C06"]["rules"] + [rules_conv.rule_flavour_mask_operand]
PROPS["C06"]["explanation"] = PROPS["C06"]["explanation"].replace(" Not decided: that other callers", " (NTMASK) the flavour flags DFNT_LITEND/DFNT_NATIVE are never applied to a value of type nc_type. Not decided: that other callers")

PROPS["C08"]["rules"] = PROPS["C08"]["rules"] + [rules_idioms.rule_member_pair_compare]
PROPS["C08"]["explanation"] += " (MEMBERPAIR) a look-up of a member in a Vgroup's tag/ref arrays compares tag and ref at the same index."

PROPS["C08"]["rules"] = PROPS["C08"]["rules"] + [rules_idioms.rule_internal_class_match]
PROPS["C08"]["explanation"] += " (INTERNALCLS) the reserved-class predicates compare over the length of the reserved name, never of the user's class."

PROPS["C11"]["rules"] = PROPS["C11"]["rules"] + [rules_ann.rule_fileinfo_groups]
PROPS["C11"]["explanation"] += " (ANINFO) each of the four count groups of ANfileinfo names one annotation type throughout and stores into one out-parameter."

PROPS["C12"]["rules"] = PROPS["C12"]["rules"] + [rules_dd.rule_special_variant_matched]
PROPS["C12"]["explanation"] += " (SPECIALMATCH) every tag match of HTIfind_dd accepts the special variant of the tag, in both directions."

PROPS["C12"]["rules"] = PROPS["C12"]["rules"] + [rules_dd.rule_tag_tree_key_is_base]
PROPS["C12"]["explanation"] += " (BASETAGKEY) every look-up in the tag tree uses a key reduced with BASETAG()."

PROPS["C18"]["rules"] = PROPS["C18"]["rules"] + [rules_repack.rule_attr_copy_unconditional, rules_repack.rule_copy_interlace_pair]
PROPS["C18"]["explanation"] = PROPS["C18"]["explanation"].replace(" Not decided (value-level)", " (ATTRCOND) attribute-copy calls are not conditioned on a property of the object's data; (RWIL) Vdata records are read and written with the same interlace argument. Not decided (value-level)")

PROPS["C19"]["rules"] = PROPS["C19"]["rules"] + [rules_tools.rule_float_abs]
PROPS["C19"]["explanation"] += " (FABS) the absolute value of a floating-point difference is never taken with the integer abs()."

PROPS["C19"]["rules"] = PROPS["C19"]["rules"] + [rules_tools.rule_fmt_local_type]
PROPS["C19"]["explanation"] += " (FMTTYPE) each hdp fmt<T> routine formats the value from a local of type T."

PROPS["C11"]["rules"] = PROPS["C11"]["rules"] + [rules_ann.rule_pending_ref_checked]
PROPS["C11"]["explanation"] += " (PENDINGREF) ANIcreate steps over references held by annotations that exist in memory only before it adds a new entry."

PROPS["C09"]["rules"] = PROPS["C09"]["rules"] + [rules_conv.rule_nt_record_class]
PROPS["C09"]["explanation"] += " (NTCLASS) the number-type record written for an image carries the byte-order class of the image's type."
PROPS["C06"]["rules"] = PROPS["C06"]["rules"] + [rules_conv.rule_nt_record_class]

PROPS["C03"]["rules"] = PROPS["C03"]["rules"] + [rules_sd.rule_shape_needs_rank]
PROPS["C03"]["explanation"] += " (SHAPE0) the public SD functions read var->shape[k] only under a test that implies rank > 0 (scalars have no shape)."

PROPS["C16"]["rules"] = PROPS["C16"]["rules"] + [rules_errors.rule_bool_result_vs_fail]
PROPS["C16"]["explanation"] = PROPS["C16"]["explanation"].replace(" Not decided: whether", " (BOOLFAIL) no bool_t result of the XDR/netCDF layer is compared with FAIL (-1), which it can never equal. Not decided: whether")

PROPS["C09"]["rules"] = PROPS["C09"]["rules"] + [rules_gr.rule_record_from_one_subrecord]
PROPS["C09"]["explanation"] += " (ONEREC) each dimension record GRIupdatemeta encodes takes all its values from one sub-record (palette or image)."

PROPS["C09"]["rules"] = PROPS["C09"]["rules"] + [rules_gr.rule_row_length_factor]
PROPS["C09"]["explanation"] += " (ROWLEN) row indices and row steps are scaled into offsets by the row length xdim."

PROPS["C03"]["rules"] = PROPS["C03"]["rules"] + [rules_sd.rule_written_buffer_is_filled]
PROPS["C03"]["explanation"] += " (FILLBUF) the temporary buffer written as fill is, on every path, the one that last received the fill pattern (converted or not)."

PROPS["C10"]["rules"] = PROPS["C10"]["rules"] + [rules_attr.rule_gr_cache_threshold]
PROPS["C10"]["explanation"] += " (CACHETHRESH) GRgetattr discards an attribute's in-memory copy under the same size test under which GRsetattr writes a replaced value through."

PROPS["C10"]["rules"] = PROPS["C10"]["rules"] + [rules_sd.rule_handle_numrecs_guarded]
PROPS["C10"]["explanation"] += " (UNLIMSIZE2) the SD functions read the file-wide record count only for netCDF files; an unlimited dimension's scale is read with the variable's own count."
PROPS["C03"]["rules"] = PROPS["C03"]["rules"] + [rules_sd.rule_handle_numrecs_guarded]

PROPS["C02"]["rules"] = PROPS["C02"]["rules"] + [rules_dd.rule_descriptor_offset_block]
PROPS["C02"]["explanation"] += " (OWNBLOCK) a descriptor's position on disk is computed from the offset of its own DD block."
PROPS["C12"]["rules"] = PROPS["C12"]["rules"] + [rules_dd.rule_descriptor_offset_block]

PROPS["C02"]["rules"] = PROPS["C02"]["rules"] + [rules_cache.rule_chunk_header_length]
PROPS["C02"]["explanation"] += " (HDRLEN) the header length HMCcreate stores reduces to the same linear expression for compressed and uncompressed chunked elements."

PROPS["C04"]["rules"] = PROPS["C04"]["rules"] + [rules_gr.rule_interlace_direction]
PROPS["C04"]["explanation"] += " (ILDIR) whole-chunk and whole-image GR access convert between pixel interlace and the same application-side interlace (requested on reads, creation interlace on writes)."
PROPS["C09"]["rules"] = PROPS["C09"]["rules"] + [rules_gr.rule_interlace_direction]

PROPS["C03"]["rules"] = PROPS["C03"]["rules"] + [rules_sd.rule_piecewise_loop_clamped]
PROPS["C03"]["explanation"] += " (PIECECLAMP) the piecewise fill loops re-clamp the piece size to what remains."
PROPS["C04"]["rules"] = PROPS["C04"]["rules"] + [rules_sd.rule_piecewise_loop_clamped]

PROPS["C17"]["rules"] = PROPS["C17"]["rules"] + [rules_ref.rule_newref_same_tag]
PROPS["C17"]["explanation"] += " (NEWREFTAG) a reference allocated with Htagnewref for a tag is used to create an element of that same tag, so a new object never takes the tag/ref of a live one."
PROPS["C12"]["rules"] = PROPS["C12"]["rules"] + [rules_ref.rule_newref_same_tag]

PROPS["C13"]["rules"] = PROPS["C13"]["rules"] + [rules_handles.rule_borrowed_accrec_not_released]
PROPS["C13"]["explanation"] += " (ACCRECOWN) a routine releases an access record it looked up from a caller's id only together with that id."

PROPS["C04"]["rules"] = PROPS["C04"]["rules"] + [rules_coders.rule_coder_write_guard]
PROPS["C04"]["explanation"] += " (WRITEGUARD) the write guard of each stream coder admits an append and a full rewrite from the start and refuses partial rewrites (evaluated on five representative situations)."
PROPS["C05"]["rules"] = PROPS["C05"]["rules"] + [rules_coders.rule_coder_write_guard]

PROPS["C03"]["rules"] = PROPS["C03"]["rules"] + [(lambda ctx: rules_loops.rule_len_pair(ctx, files=("mfhdf/src/putget.c", "mfhdf/src/hdf_xdr.c"), floor=8))]
PROPS["C03"]["explanation"] += " (LENPAIR) in every transfer loop the amount booked (remaining -= n) is the value of n the transferring call was given: nothing re-assigns n between the two."
PROPS["C05"]["rules"] = PROPS["C05"]["rules"] + [(lambda ctx: rules_loops.rule_len_pair(ctx, files=("hdf/src/cnbit.c", "hdf/src/crle.c", "hdf/src/dfcomp.c"), floor=8)), rules_loops.rule_block_advance]
PROPS["C05"]["explanation"] += " (LENPAIR) decode loops book the length they copied. (BLOCKADV) after Hbitwrite writes its buffer out, block_offset is advanced before the offset is used for the seek behind a pre-read or the routine returns."
PROPS["C07"]["rules"] = PROPS["C07"]["rules"] + [(lambda ctx: rules_loops.rule_len_pair(ctx, files=("hdf/src/hblocks.c", "hdf/src/vrw.c"), floor=8))]
PROPS["C07"]["explanation"] += " (LENPAIR) the linked-block and Vdata transfer loops book the amount they handed to Hread/Hwrite/DFKconvert."
PROPS["C04"]["rules"] = PROPS["C04"]["rules"] + [(lambda ctx: rules_loops.rule_len_pair(ctx, files=("hdf/src/hchunks.c",), floor=6))]
PROPS["C04"]["explanation"] += " (LENPAIR) HMCPread/HMCPwrite advance buffer pointer, byte count and position by the chunk piece they copied."
PROPS["C19"]["rules"] = PROPS["C19"]["rules"] + [rules_loops.rule_loop_reset, rules_loops.rule_consume_bound, rules_loops.rule_count_product,
                                                 (lambda ctx: rules_loops.rule_len_pair(ctx, files=("mfhdf/hdp/show.c",), floor=2))]
PROPS["C19"]["explanation"] += " (LOOPRESET) hdfimport clears every per-input latch flag at the top of its loop over input files. (CONSUMEBOUND) hdp's record walk behind VSread runs over the count that was read. (COUNTPROD) hdiff's strip element count is the product of the edges handed to SDreaddata."
PROPS["C18"]["rules"] = PROPS["C18"]["rules"] + [rules_loops.rule_count_product]
PROPS["C18"]["explanation"] += " (COUNTPROD) copy_sds counts a strip's elements as the product of the edges it reads and writes."
PROPS["C11"]["rules"] = PROPS["C11"]["rules"] + [rules_loops.rule_array_reset]
PROPS["C11"]["explanation"] += " (ARRAYRESET) a routine that clears slots of the DFAN directory table clears every slot of it."
PROPS["C17"]["rules"] = PROPS["C17"]["rules"] + [rules_loops.rule_end_scan]
PROPS["C17"]["explanation"] += " (ENDSCAN) HTPstart raises its end-of-file estimate inside the walk over the DD blocks, from the walk's current block and descriptor."
PROPS["C02"]["rules"] = PROPS["C02"]["rules"] + [rules_loops.rule_end_scan]

PROPS["C20"]["rules"] = PROPS["C20"]["rules"] + [rules_limits.rule_seek_product_bounded]
PROPS["C20"]["explanation"] += " (SEEKPROD) a caller-supplied integer that is multiplied into a seek offset is compared with an upper bound first."

PROPS["C13"]["rules"] = PROPS["C13"]["rules"] + [rules_handles.rule_attach_exclusive]
PROPS["C13"]["explanation"] += " (ATTACHEXCL) VSattach replaces the shared access element of an instance it found in the table only on paths where nothing is attached to it."

PROPS["C13"]["rules"] = PROPS["C13"]["rules"] + [rules_handles.rule_group_check_is_not_lookup]
PROPS["C13"]["explanation"] += " (GROUPONLY) a public routine that classifies an id with HAatom_group also looks it up in the atom table."

PROPS["C11"]["rules"] = PROPS["C11"]["rules"] + [rules_ann.rule_reserve_iff_terminated]
PROPS["C11"]["explanation"] += " (RESERVENUL) the annotation readers reserve a buffer byte exactly on the paths that store a terminator."

PROPS["C11"]["rules"] = PROPS["C11"]["rules"] + [rules_ann.rule_arm_globals]
PROPS["C11"]["explanation"] += " (ARMGLOBAL) each per-kind cursor variable of the DFAN interface is used under the same arm of the label/description test everywhere."

PROPS["C12"]["rules"] = PROPS["C12"]["rules"] + [rules_dd.rule_null_slots_skipped]
PROPS["C12"]["explanation"] += " (NULLSKIP) every descriptor walk of HTIfind_dd that can report a match steps over DFTAG_NULL slots first."

PROPS["C20"]["rules"] = PROPS["C20"]["rules"] + [rules_limits.rule_counter_wrap_guard]
PROPS["C20"]["explanation"] += " (COUNTERWRAP) every increment of a 16-bit counter field is reached only on paths that compared the field with a limit."

PROPS["C20"]["rules"] = PROPS["C20"]["rules"] + [rules_sd.rule_rank_fits_arrays]
PROPS["C20"]["explanation"] += " (RANKBOUND) the rank SDcreate admits is no larger than the smallest per-dimension array the SD routines fill up to the rank."

PROPS["C07"]["rules"] = PROPS["C07"]["rules"] + [rules_loops.rule_old_length_before_overwrite]
PROPS["C07"]["explanation"] += " (OLDLEN) VSsetname/VSsetclass measure the current string before the new one is copied over it, so a longer header is recognised."

PROPS["C20"]["rules"] = PROPS["C20"]["rules"] + [rules_limits.rule_limit_test_alive]
PROPS["C20"]["explanation"] += " (LIMITDEAD) a value compared with a named limit is not narrowed below that limit in the assignment that feeds the test."
PROPS["C07"]["rules"] = PROPS["C07"]["rules"] + [rules_limits.rule_limit_test_alive]

PROPS["C19"]["rules"] = PROPS["C19"]["rules"] + [rules_tools.rule_float_difference_kept_wide]
PROPS["C19"]["explanation"] += " (FLTNARROW) hdiff keeps |a-b| of float64 elements in float64 up to the comparison with the limit."

PROPS["C19"]["rules"] = PROPS["C19"]["rules"] + [rules_tools.rule_scale_siblings]
PROPS["C19"]["explanation"] += " (SCALESIB) the per-type copies of hdfimport's scale reader use the same dimension for the same scale."

PROPS["C15"]["rules"] = PROPS["C15"]["rules"] + [rules_gr.rule_interlace_shortcut, (lambda ctx: rules_ref.rule_inout_used(ctx, callees={"hdf_check_nt"}, floor=2))]
PROPS["C15"]["explanation"] += " (ILSHORT) GRIil_convert copies a buffer unchanged only when input and output interlace are equal. (INOUT) the number type hdf_check_nt rewrites in place (little-endian/native flag) is used afterwards by the NDG reader."
PROPS["C09"]["rules"] = PROPS["C09"]["rules"] + [rules_gr.rule_interlace_shortcut]

PROPS["C18"]["rules"] = PROPS["C18"]["rules"] + [rules_repack.rule_created_with_read_type, rules_repack.rule_copy_pairs_agree]
PROPS["C18"]["explanation"] += " (CREATETYPE) the copy of an object is created with the number type exactly as the info call of the input delivered it. (COPYPAIR) all copy helpers given one input object write to one output object."

PROPS["C13"]["rules"] = PROPS["C13"]["rules"] + [rules_handles.rule_replacement_opened_first]
PROPS["C13"]["explanation"] += " (SWAPSTREAM) Hopen closes the stream of a live file record only after its replacement has been opened."

PROPS["C07"]["rules"] = PROPS["C07"]["rules"] + [rules_loops.rule_redefinition_replaces]
PROPS["C07"]["explanation"] += " (REDEFINE) VSfdefine replaces a stored definition of the same name when the type or the order differs."

PROPS["C18"]["rules"] = PROPS["C18"]["rules"] + [(lambda ctx: rules_loops.rule_search_flag_reset(ctx, dirs=("mfhdf/hrepack/",), floor=2))]
PROPS["C18"]["explanation"] += " (SEARCHFLAG) the found-flag of hrepack's option-table searches gets its start value for every name of a list."
PROPS["C07"]["rules"] = PROPS["C07"]["rules"] + [(lambda ctx: rules_loops.rule_search_flag_reset(ctx, dirs=("hdf/src/vg.c", "hdf/src/vsfld.c"), floor=6))]
PROPS["C07"]["explanation"] += " (SEARCHFLAG) the field-name searches of VSsetfields/VSfpack/VSsizeof/VSfexist reset their found-flag per requested field."
PROPS["C19"]["rules"] = PROPS["C19"]["rules"] + [(lambda ctx: rules_loops.rule_search_flag_reset(ctx, dirs=("mfhdf/hdp/",), floor=3))]

PROPS["C13"]["rules"] = PROPS["C13"]["rules"] + [rules_handles.rule_end_removes_outstanding_ids]
PROPS["C13"]["explanation"] += " (ENDDANGLE) a routine that destroys a per-file tree whose nodes are registered as ids removes the outstanding ids (three known findings: GRend, and Vend's Remove_vfile for vgroups and vdatas)."

PROPS["C07"]["rules"] = PROPS["C07"]["rules"] + [rules_loops.rule_buffer_units]
PROPS["C07"]["explanation"] += " (UNITS) in VSread/VSwrite pointers into the caller's buffer advance by machine-size amounts and pointers into the transfer buffer by file-size amounts."

PROPS["C07"]["rules"] = PROPS["C07"]["rules"] + [rules_loops.rule_record_skip_siblings]
PROPS["C07"]["explanation"] += " (SKIPSIB) the four field-major re-positioning steps of VSread/VSwrite skip by the same quantity."

PROPS["C15"]["rules"] = PROPS["C15"]["rules"] + [rules_loops.rule_cursor_advances_with_use]
PROPS["C15"]["explanation"] += " (USEADV) the scales-record cursor of hdf_read_ndgs is advanced exactly in the arm that records it as a coordinate variable's data offset."

PROPS["C12"]["rules"] = PROPS["C12"]["rules"] + [rules_dd.rule_link_written_in_predecessor]
PROPS["C12"]["explanation"] += " (LINKPOS) HTInew_dd_block writes the link to a new DD block at a position computed from the block that was last."
PROPS["C02"]["rules"] = PROPS["C02"]["rules"] + [rules_dd.rule_link_written_in_predecessor]

PROPS["C09"]["rules"] = PROPS["C09"]["rules"] + [rules_gr.rule_axis_guards_independent]
PROPS["C09"]["explanation"] += " (AXISGUARD) in GRwriteimage a decision on one axis' start/stride is not nested inside a test on the other axis."

PROPS["C11"]["rules"] = PROPS["C11"]["rules"] + [rules_ann.rule_rewrite_reuses_element]
PROPS["C11"]["explanation"] += " (REUSEOLD) whether a rewritten annotation's old element is released depends only on the new/existing flag."

PROPS["C01"]["rules"] = PROPS["C01"]["rules"] + [rules_limits.rule_clamp_sign_checked]
PROPS["C01"]["explanation"] += " (NEGCLAMP) a request the read routines clamp to `length - posn` is compared with 0 before it is used (the position may lie beyond the end)."

PROPS["C10"]["rules"] = PROPS["C10"]["rules"] + [rules_attr.rule_xdr_encode_source]
PROPS["C10"]["explanation"] += " (XDRENC) a local handed to a bidirectional XDR primitive has been loaded from the object being encoded."
PROPS["C15"]["rules"] = PROPS["C15"]["rules"] + [rules_attr.rule_xdr_encode_source]

PROPS["C03"]["rules"] = PROPS["C03"]["rules"] + [rules_sd.rule_empty_request_tested]
PROPS["C03"]["explanation"] += " (EMPTYREQ) NCgenio turns a request with a zero count away before its transfer-first odometer loop."

PROPS["C04"]["rules"] = PROPS["C04"]["rules"] + [rules_cache.rule_cache_open_flags, rules_coders.rule_quotient_remainder_pair]
PROPS["C04"]["explanation"] += " (MCFLAG) every chunk cache is opened with flags 0, so pages come in through the filter that supplies the fill value. (QUOTREM) byte and bit index of a bit position are quotient and remainder of the same quantity."
PROPS["C05"]["rules"] = PROPS["C05"]["rules"] + [rules_coders.rule_quotient_remainder_pair]

PROPS["C20"]["rules"] = PROPS["C20"]["rules"] + [rules_bounds.rule_unbounded_name_reads]
PROPS["C20"]["explanation"] += " (NAMEBUF) inside the library a Vgroup's name or class is copied into a fixed array only after its length was queried."
PROPS["C08"]["rules"] = PROPS["C08"]["rules"] + [rules_bounds.rule_unbounded_name_reads]

PROPS["C03"]["rules"] = PROPS["C03"]["rules"] + [rules_sd.rule_api_name_set, rules_sd.rule_fill_length_in_bytes]
PROPS["C03"]["explanation"] += " (APINAME) every public SD routine that can reach NCcoordck sets cdf_routine_name first. (FILLBYTES) NC_arrayfill is handed a byte length."

PROPS["C01"]["rules"] = PROPS["C01"]["rules"] + [rules_limits.rule_origin_applied_first, rules_limits.rule_clamp_to_tested_bound]
PROPS["C01"]["explanation"] += " (ORIGINFIRST) Hseek takes no decision about the offset before both origin adjustments. (CLAMPSAME) a variable clamped inside an `if (x > a) x = b` is set to the bound it was tested against."

PROPS["C06"]["rules"] = PROPS["C06"]["rules"] + [rules_conv.rule_high_byte_by_shift]
PROPS["C06"]["explanation"] += " (BYTEDIV) no byte of a file image is a signed quotient by 256/65536/2^24 (shifts are used)."

PROPS["C05"]["rules"] = PROPS["C05"]["rules"] + [rules_loops.rule_cursor_advanced_by_copy, rules_coders.rule_difference_length_guarded]
PROPS["C05"]["explanation"] += " (CURSORADV) a buffer cursor is advanced by the bytes just copied through it. (POSLEN) a coder flush whose length is a difference is made only when the difference is positive."
PROPS["C01"]["rules"] = PROPS["C01"]["rules"] + [rules_loops.rule_cursor_advanced_by_copy]

PROPS["C03"]["rules"] = PROPS["C03"]["rules"] + [rules_sd.rule_fast_dimension_coadjusted]
PROPS["C03"]["explanation"] += " (COADJUST) NCgenio's whole-dimension optimisation adjusts the transfer count and both odometer steps of that dimension together."

PROPS["C02"]["rules"] = PROPS["C02"]["rules"] + [rules_loops.rule_last_block_needs_no_successor]
PROPS["C02"]["explanation"] += " (LASTBLOCK) HLgetdatainfo takes a block for the element's last one only under a test of its table's successor link."

PROPS["C09"]["rules"] = PROPS["C09"]["rules"] + [rules_gr.rule_image_record_fill_flag]
PROPS["C09"]["explanation"] += " (FILLFLAG) every place that builds the record of a new-style image sets fill_img, so a data-less image is filled by its first partial write in any session."

PROPS["C16"]["rules"] = PROPS["C16"]["rules"] + [rules_errors.rule_bit_io_count_checked]
PROPS["C16"]["explanation"] += " (BITCOUNT) every Hbitread/Hbitwrite in the coders is compared with the bit count it asked for."
PROPS["C05"]["rules"] = PROPS["C05"]["rules"] + [rules_errors.rule_bit_io_count_checked]

PROPS["C09"]["rules"] = PROPS["C09"]["rules"] + [rules_conv.rule_nt_class_from_type, rules_gr.rule_interlace_gate_matches, rules_idioms.rule_tag_ref_of_one_pair]
PROPS["C09"]["explanation"] += " (NTCLASS+) the little-endian class byte is recorded under a test of the type's DFNT_LITEND flag. (ILGATE) an interlace conversion is gated by a test of the interlace it converts to/from. (TAGREFPAIR) a tag and a reference handed to one call are the two halves of one pair of the record."
PROPS["C06"]["rules"] = PROPS["C06"]["rules"] + [rules_conv.rule_nt_class_from_type]
PROPS["C04"]["rules"] = PROPS["C04"]["rules"] + [rules_gr.rule_interlace_gate_matches]
PROPS["C13"]["rules"] = PROPS["C13"]["rules"] + [rules_handles.rule_table_shrink_keeps_highwater, rules_handles.rule_record_not_released_twice]
PROPS["C13"]["explanation"] += " (HIGHWATER) the SD file table is not replaced by one smaller than the high-water mark of used positions. (DOUBLEREL) Hendaccess never releases an access record it has handed to the element's own end-access routine."
PROPS["C15"]["rules"] = PROPS["C15"]["rules"] + [rules_idioms.rule_tag_ref_of_one_pair, rules_loops.rule_member_refs_reset_per_group]
PROPS["C15"]["explanation"] += " (TAGREFPAIR) as for C09: the RIG written for the single-file raster interface names the palette by its own tag/ref pair. (ITEMREF) hdf_read_ndgs gives every local that receives a group member's reference its start value per group."
PROPS["C20"]["rules"] = PROPS["C20"]["rules"] + [rules_limits.rule_new_flag_cleared_last, rules_limits.rule_replace_frees_after_success]
PROPS["C20"]["explanation"] += " (COMMITLAST) Hsetlength clears new_elem only after every call that can refuse the request. (REPLACESAFE) a rename frees the old name only on paths that can no longer fail."
PROPS["C18"]["rules"] = PROPS["C18"]["rules"] + [rules_repack.rule_presence_decided_by_info]
PROPS["C18"]["explanation"] += " (PRESENCE) whether hrepack copies a palette or a dimension scale is decided by what the info call reports about that part only."
PROPS["C17"]["rules"] = PROPS["C17"]["rules"] + [rules_dd.rule_cache_switch_polarity]
PROPS["C17"]["explanation"] += " (CACHEPOL) both stores of Hcache map a non-zero argument to caching ON."
PROPS["C16"]["rules"] = PROPS["C16"]["rules"] + [rules_errors.rule_failure_test_alive]
PROPS["C16"]["explanation"] += " (DEADFAIL) no call result is narrowed below the failure constant it is compared with."

PROPS["C20"]["rules"] = PROPS["C20"]["rules"] + [rules_limits.rule_byte_count_product_bounded]
PROPS["C20"]["explanation"] += " (PRODBOUND) VSread/VSwrite compare the record count with a bound before it is multiplied into the 32-bit byte count."

PROPS["C16"]["rules"] = PROPS["C16"]["rules"] + [rules_errors.rule_fallback_only_when_absent]
PROPS["C16"]["explanation"] += " (FALLBACK) the SD open path falls back on the old-style reader only when the SD metadata is absent, not when reading it failed."

PROPS["C10"]["rules"] = PROPS["C10"]["rules"] + [rules_attr.rule_retype_refused_before_change]
PROPS["C10"]["explanation"] += " (RETYPEFIRST) SDIgetcoordvar refuses a wider type for written scale values before it re-types the variable."

PROPS["C07"]["rules"] = PROPS["C07"]["rules"] + [rules_loops.rule_read_list_required]
PROPS["C07"]["explanation"] += " (READLIST) VSread tests that fields have been selected for reading before the loops that run over the read list."

PROPS["C12"]["rules"] = PROPS["C12"]["rules"] + [rules_dd.rule_free_hint_only_lowered]
PROPS["C12"]["explanation"] += " (LOWWATER) bv_set only lowers the free-bit hint of a tag's reference bit vector. (SPECIALMATCH now also covers the tag matches of HTIcount_dd.)"
PROPS["C11"]["rules"] = PROPS["C11"]["rules"] + [rules_ann.rule_append_at_walked_tail]
PROPS["C11"]["explanation"] += " (APPENDTAIL) a new DFAN directory block is linked behind the block the walk to the tail stopped at."
PROPS["C14"]["rules"] = PROPS["C14"]["rules"] + [rules_ref.rule_preread_then_seek]
PROPS["C14"]["explanation"] += " (PREREADSEEK) a bit file opened for writing over existing data is moved back to its block with an absolute seek after the pre-read, so that reading through a write-mode handle rewrites identical bytes in place."

PROPS["C10"]["rules"] = PROPS["C10"]["rules"] + [rules_attr.rule_class_flag_under_class_test, rules_attr.rule_attr_value_and_count_together]
PROPS["C10"]["explanation"] += " (CLASSFLAG) hdf_read_dims sets its DimVal flags directly under the class test of the Vdata. (ATTRLEN) GRsetattr stores the element count on every successful path that copies a new value into an attribute's buffer."
PROPS["C07"]["rules"] = PROPS["C07"]["rules"] + [rules_loops.rule_read_list_indirection, rules_loops.rule_matched_index_used]
PROPS["C07"]["explanation"] += " (IDXMAP) loops over the read list index the stored-field tables through r->item[j]. (MATCHIDX) after a field-name match the sibling tables are read at the matched index."

PROPS["C04"]["rules"] = PROPS["C04"]["rules"] + [rules_cache.rule_header_limit_shared]
PROPS["C04"]["explanation"] += " (HDRLIMIT) no routine that reads a chunk special header bounds its length by a limit HMCcreate does not enforce."
PROPS["C20"]["rules"] = PROPS["C20"]["rules"] + [rules_cache.rule_header_limit_shared]

PROPS["C04"]["rules"] = PROPS["C04"]["rules"] + [rules_ref.rule_external_io_positioned, rules_limits.rule_min_form_consistent]
PROPS["C04"]["explanation"] += " (EXTSEEK) every transfer on an external element's stream follows a seek on that stream. (MINFORM) a piece size taken as the smaller of two quantities tests the quantity it assigns."
PROPS["C01"]["rules"] = PROPS["C01"]["rules"] + [rules_ref.rule_external_io_positioned]
PROPS["C08"]["rules"] = PROPS["C08"]["rules"] + [rules_handles.rule_one_count_per_id, (lambda ctx: rules_ann.rule_rewrite_reuses_element(ctx, files=("hdf/src/vgp.c",), floor=1))]
PROPS["C08"]["explanation"] += " (IDCOUNT) every id Vattach/VSattach registers comes with a raised attach count. (REUSEOLD) Vdetach releases the old Vgroup element depending on flag tests only, never on lengths."
PROPS["C13"]["rules"] = PROPS["C13"]["rules"] + [rules_handles.rule_one_count_per_id]

PROPS["C09"]["rules"] = PROPS["C09"]["rules"] + [rules_gr.rule_gr_access_matches_direction]
PROPS["C09"]["explanation"] += " (GRPERM) GR routines that only read ask for read access; writers obtain write access unconditionally or after testing the open element's permission."
PROPS["C14"]["rules"] = PROPS["C14"]["rules"] + [rules_gr.rule_gr_access_matches_direction]

PROPS["C05"]["rules"] = PROPS["C05"]["rules"] + [rules_coders.rule_fill_extent_persisted]
PROPS["C05"]["explanation"] += " (FILLEXT) the extent a persisted expansion-buffer cursor is measured against persists with it, it is not recomputed from the current request."

for _p in ("C01", "C03"):
    PROPS[_p]["rules"] = PROPS[_p]["rules"] + [rules_loops.rule_do_loop_entry]
    PROPS[_p]["explanation"] += " (DOENTRY) a do-loop that continues while a remaining count is positive is entered only where that count is known to be positive."

PROPS["C05"]["rules"] = PROPS["C05"]["rules"] + [rules_coders.rule_state_reset_siblings]
PROPS["C05"]["explanation"] += " (STATEHIST) all transitions of a coder state machine into one state wipe the same history fields."

for _p in ("C11", "C02"):
    PROPS[_p]["rules"] = PROPS[_p]["rules"] + [rules_ann.rule_annlist_capacity]
    PROPS[_p]["explanation"] += " (LISTCAP) a list handed to ANannlist is allocated for the full ANnumann count."
for _p in ("C13", "C01"):
    PROPS[_p]["rules"] = PROPS[_p]["rules"] + [rules_handles.rule_detach_clears_pointer]
    PROPS[_p]["explanation"] += " (DETACHNULL) a routine that detaches an access record from a shared information record clears the record's pointer on every path where the start-access routine would otherwise detach a second time."
for _p in ("C09", "C17"):
    PROPS[_p]["rules"] = PROPS[_p]["rules"] + [rules_ref.rule_group_ref_free_for_all_tags]
    PROPS[_p]["explanation"] += " (GROUPREF) the reference handed to a routine that writes a whole group under one reference is free for every tag (Hnewref), not for one (Htagnewref)."
PROPS["C03"]["rules"] = PROPS["C03"]["rules"] + [rules_sd.rule_fill_pair_extent, rules_coders.rule_trailing_pointer]
PROPS["C03"]["explanation"] += " (FILLPAIR) the user-fill and default-fill arms of one pre-fill cover the same extent. (TRAIL) every advance of a block-table cursor keeps its trailing pointer."

for _p in ("C01", "C16"):
    PROPS[_p]["rules"] = PROPS[_p]["rules"] + [rules_ref.rule_seek_then_transfer]
    PROPS[_p]["explanation"] += " (SEEKGAP) nothing that can move the file pointer is called between an HPseek and the HP_read/HP_write it positions for."
for _p in ("C02", "C03"):
    PROPS[_p]["rules"] = PROPS[_p]["rules"] + [rules_sd.rule_record_count_owner]
    PROPS[_p]["explanation"] += " (RECOWNER) a file_type test that chooses a record count gives HDF files the variable's own count."
PROPS["C02"]["rules"] = PROPS["C02"]["rules"] + [rules_dd.rule_special_branch_inquires_same_dd]
PROPS["C02"]["explanation"] += " (SPECIALID) inside a branch chosen by HTPis_special(X) the descriptor inquired for the special header is X."

for _p in ("C17", "C08"):
    PROPS[_p]["rules"] = PROPS[_p]["rules"] + [rules_loops.rule_member_scan_bound]
    PROPS[_p]["explanation"] += " (MEMBERSCAN) a loop that indexes Vgettagref with its counter runs to the member count itself."
PROPS["C17"]["rules"] = PROPS["C17"]["rules"] + [rules_access.rule_version_flag_decided]
PROPS["C17"]["explanation"] += " (VERFLAG) a routine that stores the file record's version numbers decides version.modified before it leaves."

PROPS["C09"]["rules"] = PROPS["C09"]["rules"] + [rules_gr.rule_existence_through_open_aid]
PROPS["C09"]["explanation"] += " (OPENLEN) whether an image has data is decided with the open access element's length when there is one, not with the length recorded in the file."

for _p in ("C02", "C04"):
    PROPS[_p]["rules"] = PROPS[_p]["rules"] + [rules_cache.rule_chunk_coord_in_grid]
    PROPS[_p]["explanation"] += " (GRIDBOUND) a caller-supplied chunk coordinate vector is compared with num_chunks before a chunk number is computed from it."

PROPS["C11"]["rules"] = PROPS["C11"]["rules"] + [rules_ann.rule_listing_end_latched]
PROPS["C11"]["explanation"] += " (LISTEND) the end of a DFAN file-annotation listing is latched in a flag that every read from the saved next-reference tests."

for _p in ("C20", "C13"):
    PROPS[_p]["rules"] = PROPS[_p]["rules"] + [rules_limits.rule_narrowed_ref_bounded]
    PROPS[_p]["explanation"] += " (NARROWREF) an int32 id parameter is compared with MAX_REF before it is narrowed to uint16 for an instance look-up."

PROPS["C13"]["rules"] = PROPS["C13"]["rules"] + [rules_handles.rule_sd_file_id_halves]
PROPS["C13"]["explanation"] += " (IDHALVES) the SD id validator compares the two copies of the file slot that a file id carries."

PROPS["C13"]["rules"] = PROPS["C13"]["rules"] + [rules_handles.rule_index_below_count]
PROPS["C13"]["explanation"] += " (IDXCOUNT) an index that goes on to address an NC_array is turned away when it is >= count, not only when it is > count."

PROPS["C19"]["rules"] = PROPS["C19"]["rules"] + [rules_tools.rule_field_table_capacity]
PROPS["C19"]["explanation"] += " (FIELDCAP) a local per-field table indexed up to a Vdata's field count has VSFIELDMAX elements."

PROPS["C11"]["rules"] = PROPS["C11"]["rules"] + [rules_ann.rule_directory_slot_live]
PROPS["C11"]["explanation"] += " (SLOTLIVE) a DFAN directory slot's object tag/ref is read only under a test of that slot's annref."

# round 13
for _p in ("C12", "C08"):
    PROPS[_p]["rules"] = PROPS[_p]["rules"] + [rules_idioms.rule_comparator_width]
    PROPS[_p]["explanation"] += " (CMPWIDTH) the key comparators handed to tbbtdmake return their key difference without narrowing it."
PROPS["C12"]["rules"] = PROPS["C12"]["rules"] + [rules_idioms.rule_lookups_before_create]
PROPS["C12"]["explanation"] += " (LOOKFIRST) a routine that looks up one descriptor and creates another does the failing look-up before HTPcreate."
PROPS["C08"]["rules"] = PROPS["C08"]["rules"] + [rules_loops.rule_member_search_forward]
PROPS["C08"]["explanation"] += " (FIRSTHIT) a search for a tag/ref pair in a Vgroup's member list counts up from 0."
PROPS["C11"]["rules"] = PROPS["C11"]["rules"] + [rules_ann.rule_annotation_pair_out, rules_ann.rule_length_forwarded]
PROPS["C11"]["explanation"] += " (ANNREFOUT) a pair handed out under an annotation tag carries the annotation's own reference. (LENFWD) an annotation writer hands the caller's byte count to the element write unchanged."
PROPS["C13"]["rules"] = PROPS["C13"]["rules"] + [rules_handles.rule_refused_close_restores_count, rules_handles.rule_slot_id_consumed]
PROPS["C13"]["explanation"] += " (RESTORE) a refused Hclose leaves the file record's reference count as it found it. (SLOTID) the id returned by a special element's start-access slot is handed on or removed."
for _p in ("C15", "C03"):
    PROPS[_p]["rules"] = PROPS[_p]["rules"] + [rules_sd.rule_dimension_value_unlimited]
    PROPS[_p]["explanation"] += " (UNLIMVAL) each writer of a dimension's value Vdata has the NC_UNLIMITED case that stores numrecs."
for _p in ("C15", "C09"):
    PROPS[_p]["rules"] = PROPS[_p]["rules"] + [rules_gr.rule_id_record_interlace]
    PROPS[_p]["explanation"] += " (DISKIL) the image dimension record is built without the interlace the image was created with."
PROPS["C18"]["rules"] = PROPS["C18"]["rules"] + [rules_repack.rule_chunked_both_forms, rules_loops.rule_no_dead_element_store]
PROPS["C18"]["explanation"] += " (CHUNKFORMS) options_get_info accepts both spellings of \"chunked\" wherever it merges a compression request into a chunking. (DEADELEM) no constant-element store is killed by a following whole-array loop."
PROPS["C19"]["rules"] = PROPS["C19"]["rules"] + [rules_tools.rule_name_table_matches_codes, rules_tools.rule_lone_vdata_listed]
PROPS["C19"]["explanation"] += " (NAMECODE) the words of a table whose index is a code stand at the value of their like-named code constant. (LONEVS) hdiff's Vdata listing skips a reserved class only for an empty class."

PROPS["C07"]["rules"] = PROPS["C07"]["rules"] + [rules_loops.rule_single_field_stride]
PROPS["C07"]["explanation"] += " (ONEFIELD) the user-record size VSread's piece-wise loop advances by has a definition that does not depend on the read list, like its single-field arm."

PROPS["C06"]["rules"] = PROPS["C06"]["rules"] + [rules_conv.rule_element_count_from_type_size]
PROPS["C06"]["explanation"] += " (ELEMCOUNT) an element count handed to a conversion routine that is a quotient is divided by an element size, not by a literal."

PROPS["C10"]["rules"] = PROPS["C10"]["rules"] + [rules_sd.rule_coord_scan_skips_sds]
PROPS["C10"]["explanation"] += " (CRDSCAN) a scan for a dimension's coordinate variable never fails on a same-named data set."

PROPS["C14"]["rules"] = PROPS["C14"]["rules"] + [rules_access.rule_delete_checks_access_first]
PROPS["C14"]["explanation"] += " (DELACC) a routine that removes an instance from the in-memory table and deletes its descriptors tests the file's write access first."

PROPS["C10"]["rules"] = PROPS["C10"]["rules"] + [rules_sd.rule_generated_name_whole]
PROPS["C10"]["explanation"] += " (GENNAME) a dimension name is taken for a generated fakeDim<N> only on a test of the whole name."

for _p in ("C16", "C13"):
    PROPS[_p]["rules"] = PROPS[_p]["rules"] + [rules_handles.rule_start_access_keeps_record]
    PROPS[_p]["explanation"] += " (STACCOWN) no start-access routine of a special-element kind releases the access record it was handed."

for _p in ("C16", "C11"):
    PROPS[_p]["rules"] = PROPS[_p]["rules"] + [rules_mem.rule_handed_over_not_freed]
    PROPS[_p]["explanation"] += " (OWNXFER) a working pointer that a loop hands to a tree or atom group and the failure cleanup frees is cleared after the hand-over."

for _p in ("C16", "C13"):
    PROPS[_p]["rules"] = PROPS[_p]["rules"] + [rules_errors.rule_closed_stream_replaced]
    PROPS[_p]["explanation"] += " (STREAMKEPT) the arm taken when closing a shared file record's stream fails gives the record a stream again before it leaves."

# round 14
PROPS["C06"]["rules"] = PROPS["C06"]["rules"] + [rules_conv.rule_assembled_byte_unsigned]
PROPS["C06"]["explanation"] += " (BYTESIGN) a byte joined to a shifted value is read through an unsigned 8-bit type."
PROPS["C07"]["rules"] = PROPS["C07"]["rules"] + [(lambda ctx: rules_loops.rule_inner_accumulator_reset(ctx, files=None, floor=3))]
PROPS["C07"]["explanation"] += " (ACCRESET) a running offset of a field loop nested in a piece-wise loop is reset inside the outer loop."
PROPS["C04"]["rules"] = PROPS["C04"]["rules"] + [rules_loops.rule_cursor_advanced_by_copy, rules_idioms.rule_fieldwise_copy_names]
PROPS["C04"]["explanation"] += " (CURSORADV) a buffer cursor is advanced by the bytes just copied through it. (SAMEFIELD) a field-by-field copy between two records uses each source field once."
for _p in ("C10", "C20"):
    PROPS[_p]["rules"] = PROPS[_p]["rules"] + [rules_sd.rule_name_limit_same_side]
    PROPS[_p]["explanation"] += " (NAMELIMIT) every comparison of a length with H4_MAX_NC_NAME accepts a length equal to it."

PROPS["C16"]["rules"] = PROPS["C16"]["rules"] + [rules_mem.rule_alias_not_freed_before_cleanup]
PROPS["C16"]["explanation"] += " (ALIASFREE) a local that names the block the failure cleanup frees through a record field is not freed in an error branch that goes on to the cleanup."

PROPS["C14"]["rules"] = PROPS["C14"]["rules"] + [rules_access.rule_creator_checks_access]
PROPS["C14"]["explanation"] += " (CREATEACC) a routine that allocates a reference and registers an id for a new object tests write permission first."

for _p in ("C01", "C16"):
    PROPS[_p]["rules"] = PROPS[_p]["rules"] + [rules_errors.rule_failed_transfer_forgets_position]
    PROPS[_p]["explanation"] += " (POSUNKNOWN) every failing exit after a stdio transfer has reassigned the cached last_op."

PROPS["C01"]["rules"] = PROPS["C01"]["rules"] + [rules_limits.rule_append_gap_filled]
PROPS["C01"]["explanation"] += " (GAPZERO) the branch of Hwrite that extends an appendable element in place writes the gap between the old end and the write position."

# round 15
PROPS["C12"]["rules"] = PROPS["C12"]["rules"] + [rules_loops.rule_end_scan, rules_loops.rule_carried_index_reset]
PROPS["C12"]["explanation"] += " (ENDSCAN) HTPstart's end-of-file estimate measures every DD block and every element. (IDXRESET) a resumed scan of a DD block is given the next block's starting slot inside the walk over the blocks."
PROPS["C08"]["rules"] = PROPS["C08"]["rules"] + [rules_handles.rule_member_count_source]
PROPS["C08"]["explanation"] += " (LIVECOUNT) a Vgroup's member count is reported from vg->nvelt, never from the instance's attach-time copy."
for _p in ("C09",):
    PROPS[_p]["rules"] = PROPS[_p]["rules"] + [rules_gr.rule_data_length_positive, rules_gr.rule_whole_image_seek]
    PROPS[_p]["explanation"] += " (HASDATA) an image has data when its element's length is > 0. (WHOLESEEK) the whole-image arms seek to offset 0 before their transfer."

PROPS["C08"]["rules"] = PROPS["C08"]["rules"] + [rules_handles.rule_cross_object_compare]
PROPS["C08"]["explanation"] += " (SELFCMP) see C13: the same-file guard of Vinsert compares fields of two different objects."

PROPS["C02"]["rules"] = PROPS["C02"]["rules"] + [rules_dd.rule_contiguous_fallback_excludes_external]
PROPS["C02"]["explanation"] += " (EXTNOTHERE) a data-information routine with a contiguous fallback sets the external storage kind aside first."

# round 15, second batch
PROPS["C05"]["rules"] = PROPS["C05"]["rules"] + [rules_coders.rule_refill_moves_block_offset, rules_limits.rule_zero_length_is_rest]
PROPS["C05"]["explanation"] += " (REFILLADV) every refill of the bit buffer settles block_offset in the same block. (ZEROREST) a read length of 0 is translated into the rest from the current position."
PROPS["C01"]["rules"] = PROPS["C01"]["rules"] + [rules_limits.rule_zero_length_is_rest, rules_errors.rule_dirty_bits_independent, rules_dd.rule_reload_after_setlength]
PROPS["C01"]["explanation"] += " (ZEROREST) see C05. (DIRTYBITS) the tests of the file record's dirty bits are independent ifs. (RELOAD) a routine that keeps the descriptor in locals reads it again after Hsetlength."
PROPS["C02"]["rules"] = PROPS["C02"]["rules"] + [rules_errors.rule_dirty_bits_independent, rules_errors.rule_sync_before_cache_off, rules_dd.rule_diskblock_moveto]
PROPS["C02"]["explanation"] += " (DIRTYBITS) see C01. (SYNCFIRST) HIsync is called before the caching state is switched off. (MOVETO) a disk block reserved without positioning the stream is not written with a bare HP_write."
PROPS["C03"]["rules"] = PROPS["C03"]["rules"] + [rules_sd.rule_fill_mode_cleared_unconditionally]
PROPS["C03"]["explanation"] += " (FILLMODE) ncsetfill clears NC_NOFILL whether or not updates are pending."
PROPS["C17"]["rules"] = PROPS["C17"]["rules"] + [rules_dd.rule_open_ignores_physical_size, rules_dd.rule_new_block_header_nil]
PROPS["C17"]["explanation"] += " (OPENSIZE) HTPstart does not consult the physical size of the file. (NEWBLOCKNIL) the header written for a new descriptor block names no successor."

PROPS["C15"]["rules"] = PROPS["C15"]["rules"] + [rules_conv.rule_dfsd_records_keep_flavour]
PROPS["C15"]["explanation"] += " (RECFLAVOUR) the decoders of DFSD side records are given, and use, a number type that carries the data set's byte-order flavour."

# round 16
PROPS["C04"]["rules"] = PROPS["C04"]["rules"] + [rules_cache.rule_shared_seek_state_refreshed]
PROPS["C04"]["explanation"] += " (SEEKIDX) a chunk transfer routine recomputes the shared chunk coordinates from its own position before it uses them."
PROPS["C07"]["rules"] = PROPS["C07"]["rules"] + [rules_loops.rule_convert_stride_whole_field]
PROPS["C07"]["explanation"] += " (FIELDSTRIDE) no stride handed to DFKconvert in VSread/VSwrite is divided by order."
PROPS["C10"]["rules"] = PROPS["C10"]["rules"] + [rules_sd.rule_hash_match_confirmed]
PROPS["C10"]["explanation"] += " (HASHCONFIRM) a decision taken on equal name hashes is confirmed by comparing the names."
PROPS["C11"]["rules"] = PROPS["C11"]["rules"] + [rules_ann.rule_directory_match_both]
PROPS["C11"]["explanation"] += " (DIRMATCH) a DFAN directory look-up by tag/ref compares both."
PROPS["C15"]["rules"] = PROPS["C15"]["rules"] + [rules_conv.rule_nt_class_from_type]
PROPS["C15"]["explanation"] += " (NTCLASS+) every store of the little-endian class byte is chosen by a bit test of DFNT_LITEND."
PROPS["C18"]["rules"] = PROPS["C18"]["rules"] + [rules_repack.rule_image_annotations_both_tags, rules_tools.rule_grow_init_from_count]
PROPS["C18"]["explanation"] += " (ANBOTH) an image's annotations are copied for both of its tags. (GROWINIT) new table slots are initialised from the count of used slots."
PROPS["C19"]["rules"] = PROPS["C19"]["rules"] + [rules_tools.rule_double_parsed_as_double, rules_tools.rule_grow_init_from_count]
PROPS["C19"]["explanation"] += " (WIDEPARSE) nothing stored through a float64 pointer in hdfimport comes from a float32 local. (GROWINIT) see C18."

# round 17
PROPS["C05"]["rules"] = PROPS["C05"]["rules"] + [rules_coders.rule_coder_init_complete]
PROPS["C05"]["explanation"] += " (INITALL) a coder's init routine assigns every running-state field its other routines read."
for _p in ("C12", "C20"):
    PROPS[_p]["rules"] = PROPS[_p]["rules"] + [rules_limits.rule_maxref_inclusive]
    PROPS[_p]["explanation"] += " (MAXREFINCL) an enumeration of the reference range includes MAX_REF."
for _p in ("C02", "C01"):
    PROPS[_p]["rules"] = PROPS[_p]["rules"] + [rules_limits.rule_truncate_only_shrinks]
    PROPS[_p]["explanation"] += " (TRUNCONLY) Htrunc rewrites the descriptor's length only under the single test that it shrinks."
PROPS["C17"]["rules"] = PROPS["C17"]["rules"] + [(lambda ctx: rules_ann.rule_rewrite_reuses_element(ctx, files=("hdf/src/vgp.c",), floor=1))]
PROPS["C17"]["explanation"] += " (REUSEOLD) Vdetach releases the old header element on flag tests only, so that the rewritten header always goes to new space."

NOT_APPLICABLE = {}

