"""property -> rules"""
from . import rules_dd, rules_bounds, rules_limits, rules_tools

CLANG = "clang 14 parser, constant evaluator and CFG builder (via tools/h4x.cc)"
CDB = "compile flags taken from ninja -t compdb of /repo/_build (or a throw-away cmake configure)"

PROPS = {
    "C12": {
        "rules": [rules_dd.rule_F3, rules_dd.rule_F3b, rules_dd.rule_pairing, rules_dd.rule_F11c],
        "level": "other",
        "explanation": "Decides structural necessary conditions of the directory being a faithful persistent map: "
                       "(F3) on every non-failing path of every function that stores to dd_t.{tag,ref,offset,length} the last "
                       "store is followed by HTIupdate_dd on the same DD (interprocedural summaries); (PAIR) HTPcreate/HTPdelete/"
                       "HTPupdate register/unregister/persist on every non-failing path. Not decided: search and count correctness, "
                       "ref allocation after wrap.",
        "rule_text": "instances = functions storing to persisted dd_t fields (re-discovered each run) x DD access paths; "
                     "non-trivial = verdict needed the path-sensitive product-state analysis",
        "trusted": [CLANG, CDB, "failure-value convention (second argument of HGOTO_ERROR/HRETURN_ERROR)"],
        "assumptions": ["aliasing is by access path", "function pointers resolved by record field"],
        "level_text": "All-paths structural check of the persist-after-mutate discipline of the DD list and of the create/delete pairing; "
                      "a necessary condition of the directory equalling the set of live objects, decided for every path rather than for sampled histories.",
        "level_note": "Trusted: clang front end/CFG, compile flags of the build, failure-value convention. Decides the structural clause, not search/count behaviour.",
        "technique": "custom typestate dataflow (persist-after-mutate, must-call-on-success) over clang CFGs",
    },
}

PROPS["C17"] = {
    "rules": [rules_dd.rule_F11a, rules_dd.rule_F11b, rules_dd.rule_F11c],
    "level": "other",
    "explanation": "Decides the structural core of 'an adding session writes only beyond existing objects until the flush, and the flush "
                   "never exposes a dangling link': (F11a) in hfiledd.c's DD mutators every HPseek into the DD area is reachable only on "
                   "paths where file_rec->cache == 0; (F11b) file space has a single source: f_end_off is written only by the designated "
                   "allocator/loader functions and every offset given to HTPupdate comes from HPgetdiskblock, an existing descriptor or "
                   "a constant; (F11c) every DD-block creator writes the 6-byte header and the NIL list contiguously on every non-failing "
                   "path, before any predecessor's nextoffset is set. Not decided: the per-prefix file images themselves (an enumeration of "
                   "executions) and the metadata-replacing interfaces (SD/GR).",
    "rule_text": "instances = HPseek sites in DD mutators, stores to f_end_off, HTPupdate call sites, DD-block creator functions "
                 "(all re-discovered each run); non-trivial = needed path-sensitive typestate or reaching-definition provenance",
    "trusted": [CLANG, CDB, "HP_write/HPseek are the only file-position primitives of the DD layer"],
    "assumptions": ["file_rec->cache is not modified inside a DD mutator (checked: a store makes the instance unrecognised)"],
    "level_text": "All-paths structural check of write placement and of new-DD-block completeness before linking; necessary conditions of "
                  "crash safety for adding sessions, decided for every path and both cache modes rather than for sampled crash points.",
    "level_note": "Trusted: clang front end/CFG, build flags. Decides placement/ordering structure, not the byte images at each crash point.",
    "technique": "typestate dataflow + reaching-definition provenance + who-may-write over clang CFGs",
}

PROPS["C02"] = {
    "rules": [rules_bounds.rule_F2_arrays, rules_dd.rule_F3, rules_dd.rule_F3b, rules_dd.rule_F11b, rules_dd.rule_F11c],
    "level": "other",
    "explanation": "TODO",
    "rule_text": "TODO",
    "trusted": [CLANG, CDB],
    "assumptions": [],
    "level_text": "TODO", "level_note": "TODO", "technique": "TODO",
}

PROPS["C20"] = {
    "rules": [rules_limits.rule_F9a, rules_limits.rule_F9b, rules_limits.rule_F9c],
    "level": "other",
    "explanation": "TODO",
    "rule_text": "TODO",
    "trusted": [CLANG, CDB],
    "assumptions": [],
    "level_text": "TODO", "level_note": "TODO", "technique": "TODO",
}

PROPS["C19"] = {
    "rules": [rules_tools.rule_nt_switches, rules_tools.rule_truncating_difference, rules_tools.rule_count_propagation],
    "level": "other",
    "explanation": "TODO",
    "rule_text": "TODO",
    "trusted": [CLANG, CDB],
    "assumptions": [],
    "level_text": "TODO", "level_note": "TODO", "technique": "TODO",
}

NOT_APPLICABLE = {
    "C18": "hrepack content preservation/idempotence is value-level over file x option products; no structural clause is a genuine "
           "necessary condition that is not already another property's rule",
}
