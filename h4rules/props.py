"""property -> rules"""
from . import rules_dd

CLANG = "clang 14 parser, constant evaluator and CFG builder (via tools/h4x.cc)"
CDB = "compile flags taken from ninja -t compdb of /repo/_build (or a throw-away cmake configure)"

PROPS = {
    "C12": {
        "rules": [rules_dd.rule_F3, rules_dd.rule_pairing],
        "level": "other",
        "explanation": "Decides structural necessary conditions of the directory being a faithful persistent map: "
                       "(F3) on every non-failing path of every function that stores to dd_t.{tag,ref,offset,length} the last "
                       "store is followed by HTIupdate_dd on the same DD (interprocedural summaries); (PAIR) HTPcreate/HTPdelete/"
                       "HTPupdate register/unregister/persist on every non-failing path. Not decided: search and count correctness, "
                       "ref allocation after wrap.",
        "rule_text": "instances = functions storing to persisted dd_t fields (re-discovered each run) x DD access paths; "
                     "non-trivial = verdict needed the path-sensitive product-state analysis",
        "trusted": [CLANG, CDB, "failure-value convention (second argument of HGOTO_ERROR/HRETURN_ERROR)"],
        "assumptions": ["aliasing is by access path", "function pointers resolved by record field"],
        "level_text": "All-paths structural check of the persist-after-mutate discipline of the DD list and of the create/delete pairing; "
                      "a necessary condition of the directory equalling the set of live objects, decided for every path rather than for sampled histories.",
        "level_note": "Trusted: clang front end/CFG, compile flags of the build, failure-value convention. Decides the structural clause, not search/count behaviour.",
        "technique": "custom typestate dataflow (persist-after-mutate, must-call-on-success) over clang CFGs",
    },
}

NOT_APPLICABLE = {
    "C18": "hrepack content preservation/idempotence is value-level over file x option products; no structural clause is a genuine "
           "necessary condition that is not already another property's rule",
}
