"""Reference-number allocation and external-element addressing rules.

MAXREF  (C12, C20) `filerec_t.maxref` is the highest reference number in use; Hnewref hands out `++maxref` without
        looking at the directory while it is below MAX_REF.  It must therefore never decrease: every store to it is
        the constant 0 of a constructor, an increment guarded by `maxref < MAX_REF`, or `= e` guarded by `e > maxref`.
CURSOR  (C12, C17) HTIfind_dd continues from `*pdd` when it is not NULL.  A search that is meant to cover the whole
        directory (Hnewref's free-ref scan, HTPcreate's free-slot search, the first search of Hfind) must pass a cursor
        that is NULL on every path reaching the call; the one continuation (Hfind's second call) is listed.
EXTOFF  (C01, C16) an external element's bytes live at `extern_offset + posn` of the external file: every seek on the
        external stream that is positioned by `posn` also adds `extern_offset` (the write-retry path included).
"""
from .facts import kind, strip, walk, path, render, int_val, is_int, calls_in, mem_field, base_var
from .codec import ast_walk
from .flow import PathAnalysis, fail_values, classify_ret

MAX_REF = 65535


def _mentions_field(e, field):
    return any(x[0] == "mem" and x[2] == field for x in walk(e, True))


def rule_maxref(ctx):
    prog = ctx.prog
    n = 0
    for f in prog.lib_funcs():
        stores = []

        def vis(node, stack):
            if node[0] == "s":
                for x in walk(node[1], True):
                    if x[0] == "asg" and (mem_field(x[2]) or (0, 0))[1] == "maxref":
                        stores.append(("asg", x, list(stack)))
                    elif x[0] == "incdec" and (mem_field(x[3]) or (0, 0))[1] == "maxref":
                        stores.append(("inc", x, list(stack)))
            elif node[0] in ("if", "while", "for", "do"):
                # stores inside conditions
                c = node[1] if node[0] in ("if", "while") else None
                if c is not None:
                    for x in walk(c, True):
                        if x[0] == "asg" and (mem_field(x[2]) or (0, 0))[1] == "maxref":
                            stores.append(("asg", x, list(stack)))
                        elif x[0] == "incdec" and (mem_field(x[3]) or (0, 0))[1] == "maxref":
                            stores.append(("inc", x, list(stack)))
            return True
        if not any(n2[0] in ("asg", "incdec") and _mentions_field(n2, "maxref") for _b, _i, _s, n2 in f.nodes(True)):
            continue
        ast_walk(f.raw.get("ast"), vis)
        for i, (k, x, stack) in enumerate(stores):
            n += 1
            key = "MAXREF:%s#%d" % (f.name, i + 1)
            line = x[4] if k == "asg" else x[4]
            guards = [strip(s[1]) for s in stack if s[0] == "if"]
            ok = None
            if k == "asg" and x[1] == "=" and is_int(x[3]) and int_val(x[3]) == 0:
                ok = "constructor: maxref = 0"
            elif k == "asg" and x[1] == "=":
                rhs = render(strip(x[3]))
                for g in guards:
                    if kind(g) == "bin" and g[1] in ("<", ">", "<=", ">="):
                        l, r = render(strip(g[2])), render(strip(g[3]))
                        lm, rm = _mentions_field(g[2], "maxref"), _mentions_field(g[3], "maxref")
                        if (g[1] in (">", ">=") and l == rhs and rm) or (g[1] in ("<", "<=") and r == rhs and lm):
                            ok = "guarded by `%s`" % render(g)
            elif k == "inc" and x[1] == "++":
                for g in guards:
                    if kind(g) == "bin" and g[1] == "<" and _mentions_field(g[2], "maxref") and is_int(g[3]) and int_val(g[3]) == MAX_REF:
                        ok = "increment guarded by `maxref < MAX_REF`"
            if ok:
                ctx.holds("MAXREF", key, f.where(line), ok, nontrivial=(k != "asg" or not is_int(x[3])))
            else:
                ctx.violated("MAXREF", key, f.where(line), "`%s` can lower (or wrap) the file's highest reference number: Hnewref's fast path `++maxref` would then hand out references "
                             "that are already in use" % render(x)[:80])
    ctx.floor("MAXREF", 5, n, "(stores to filerec_t.maxref)")
    return n


class _Cursor(PathAnalysis):
    """user = frozenset of cursor variables known to be NULL"""

    def __init__(self, prog):
        super().__init__(prog)
        self.sites = {}

    def init_user(self, func):
        return frozenset()

    def on_stmt(self, func, bid, idx, stmt, env, user):
        nulls = set(user)
        e = stmt["e"]
        for c in calls_in(e):
            if c[1] == "HTIfind_dd" and len(c[3]) >= 4:
                a = strip(c[3][3])
                v = strip(a[1])[1] if kind(a) == "addr" and kind(strip(a[1])) == "var" else None
                k = (c[5], c[6])
                if v is not None:
                    self.sites[k] = self.sites.get(k, True) and (v in nulls)
                    nulls.discard(v)  # the callee stores where it stopped
                else:
                    self.sites.setdefault(k, None)
        for x in walk(e, True):
            if x[0] == "asg" and x[1] == "=" and kind(strip(x[2])) == "var":
                v = strip(x[2])[1]
                r = strip(x[3])
                if is_int(r) and int_val(r) == 0:
                    nulls.add(v)
                else:
                    nulls.discard(v)
            elif x[0] == "decl":
                for d in x[1]:
                    if d[2] is not None and is_int(strip(d[2])) and int_val(strip(d[2])) == 0:
                        nulls.add(d[0])
                    else:
                        nulls.discard(d[0])
        return frozenset(nulls)


CURSOR_CONTINUATIONS = {
    ("Hfind", 2): "the second search of Hfind deliberately continues after the entry the first search positioned on (find-next semantics)",
}


def rule_fresh_cursor(ctx):
    prog = ctx.prog
    n = 0
    for f in prog.lib_funcs():
        if not any(c[1] == "HTIfind_dd" for _, _, _, c in f.calls()):
            continue
        a = _Cursor(prog)
        a.fails = fail_values(f, prog)
        a.run(f)
        for i, (k, ok) in enumerate(sorted(a.sites.items())):
            n += 1
            key = "CURSOR:%s#%d" % (f.name, i + 1)
            exc = CURSOR_CONTINUATIONS.get((f.name, i + 1))
            if ok is None:
                ctx.unrecognised("CURSOR", key, f.where(k[0]), "cursor argument of HTIfind_dd is not `&local`")
            elif ok:
                ctx.holds("CURSOR", key, f.where(k[0]), "the search cursor is NULL on every path reaching the call: the whole directory is searched", nontrivial=True)
            elif exc:
                ctx.excepted("CURSOR", key, f.where(k[0]), exc)
            else:
                ctx.violated("CURSOR", key, f.where(k[0]), "HTIfind_dd is called with a cursor that may still point at the entry a previous search stopped on: "
                             "the search then starts there and misses every earlier descriptor (a reference in use can be reported free)")
    ctx.floor("CURSOR", 4, n, "(HTIfind_dd call sites)")
    return n


def rule_ext_offset(ctx):
    prog = ctx.prog
    n = 0
    for f in prog.lib_funcs():
        if not f.rel.endswith("hextelt.c"):
            continue
        for _b, _i, st, c in f.calls():
            if c[1] != "fseek" or len(c[3]) < 2:
                continue
            off = c[3][1]
            if not _mentions_field(off, "posn"):
                continue
            n += 1
            key = "EXTOFF:%s#%d" % (f.name, sum(1 for k in ctx.instances if k.key.startswith("EXTOFF:%s#" % f.name)) + 1)
            if _mentions_field(off, "extern_offset"):
                ctx.holds("EXTOFF", key, f.where(c[5]), "seek to `%s`" % render(off)[:70], nontrivial=True)
            else:
                ctx.violated("EXTOFF", key, f.where(c[5]), "the external stream is positioned at `%s` without adding the element's extern_offset: the bytes land in (or come from) "
                             "another region of the external file" % render(off)[:70])
    ctx.floor("EXTOFF", 3, n, "(posn-relative seeks on the external stream)")
    return n


class _Guarded(PathAnalysis):
    """generic: record, for every site produced by site_fn, whether guard_fn was assumed true on the path"""

    def __init__(self, prog, site_fn, guard_fn):
        super().__init__(prog)
        self.site_fn = site_fn
        self.guard_fn = guard_fn
        self.sites = {}

    def init_user(self, func):
        return False

    def on_assume(self, func, bid, cond, pol, env, user):
        g = self.guard_fn(strip(cond), pol)
        if g is not None:
            return g
        return user

    def on_stmt(self, func, bid, idx, stmt, env, user):
        for k in self.site_fn(stmt):
            self.sites[k] = self.sites.get(k, True) and bool(user)
        return user


def rule_shared_access_monotone(ctx):
    """MONO (C08): an object that is already attached (nattach > 0) is shared by its handles; attaching it once more may
    widen its access mode but never narrow it, or the earlier handle silently loses its write access (its later changes are
    refused or never flushed).  Every store to `->access` of a Vgroup/Vdata on a path where `nattach > 0` was seen true
    must combine the old value (MAX / conditional mentioning the old access)."""
    prog = ctx.prog
    n = 0
    for fname in ("Vattach", "VSattach"):
        f = prog.func(fname)
        if f is None:
            ctx.unrecognised("MONO", "MONO:%s" % fname, "-", "%s not found" % fname)
            continue

        def guard(c, pol):
            if kind(c) == "bin" and c[1] == ">" and (mem_field(c[2]) or (0, 0))[1] == "nattach" and is_int(c[3]) and int_val(c[3]) == 0:
                return pol
            return None
        stores = {}

        def sites(stmt):
            out = []
            for x in walk(stmt["e"], True):
                if x[0] == "asg" and x[1] == "=" and (mem_field(x[2]) or (0, 0))[1] == "access":
                    k = (x[4], render(x)[:60])
                    stores[k] = x
                    out.append(k)
            return out
        a = _Guarded(prog, sites, guard)
        a.fails = fail_values(f, prog)
        a.run(f)
        for k, shared in sorted(a.sites.items()):
            if not shared:
                continue
            n += 1
            x = stores[k]
            key = "MONO:%s:access" % fname
            if _mentions_field(x[3], "access"):
                ctx.holds("MONO", key, f.where(k[0]), "re-attach combines the old access mode: `%s`" % k[1], nontrivial=True)
            else:
                ctx.violated("MONO", key, f.where(k[0]), "`%s` overwrites the access mode of an object that is already attached (nattach > 0): an earlier write handle is silently downgraded" % k[1])
    ctx.floor("MONO", 1, n, "(access stores on the already-attached path)")
    return n


def rule_bitflush_mode(ctx):
    """BITFLUSH (C14, C05): HIbitflush writes the bit buffer to the element.  It may only run when the buffer holds bits
    that were *written* (mode == 'w'); a bitfile opened for writing but currently in read mode holds bits read from the
    file at a different offset.  Every call is reached only on paths where `->mode == 'w'` was seen true, in the function or
    (HIwrite2read, Hbitseek's caller contract) in every caller."""
    prog = ctx.prog

    def guard(c, pol):
        if kind(c) == "bin" and c[1] in ("==", "!=") and (mem_field(c[2]) or (0, 0))[1] == "mode" and is_int(c[3]):
            if int_val(c[3]) == ord("w"):
                return (c[1] == "==") == pol
            if int_val(c[3]) == ord("r"):
                return (c[1] == "!=") == pol
        return None

    def run(f, callee):
        def sites(stmt):
            return [(c[5], c[6]) for c in calls_in(stmt["e"]) if c[1] == callee]
        a = _Guarded(prog, sites, guard)
        a.fails = fail_values(f, prog)
        a.run(f)
        return a.sites
    n = 0
    for f in prog.lib_funcs():
        if not any(c[1] == "HIbitflush" for _, _, _, c in f.calls()):
            continue
        for k, ok in sorted(run(f, "HIbitflush").items()):
            n += 1
            key = "BITFLUSH:%s" % f.name
            if ok:
                ctx.holds("BITFLUSH", key, f.where(k[0]), "flush only when mode == 'w'", nontrivial=True)
                continue
            # caller lemma
            callers = prog.callers().get(f.name, [])
            okc = bool(callers)
            for g, c in callers:
                s = run(g, f.name)
                if not s or not all(s.values()):
                    okc = False
            if okc:
                ctx.holds("BITFLUSH", key, f.where(k[0]), "every caller of %s tests mode == 'w' first (%d call site(s))" % (f.name, len(callers)), nontrivial=True)
            else:
                ctx.violated("BITFLUSH", key, f.where(k[0]), "HIbitflush() can be reached without `mode == 'w'` having been established (in %s or in all of its callers): "
                             "bits that were read would be written back at the current position" % f.name)
    ctx.floor("BITFLUSH", 3, n, "(HIbitflush call sites)")
    return n


def _inout_params(prog):
    """function -> indices of pointer parameters that the function both reads through and stores through"""
    c = getattr(prog, "_inout_params", None)
    if c is not None:
        return c
    c = {}
    for f in prog.lib_funcs():
        pn = [q[0] for q in f.params]
        tot = {}
        lhs = {}
        for _b, _i, _s, x in f.nodes(True):
            if x[0] == "deref" and kind(strip(x[1])) == "var" and strip(x[1])[1] in pn:
                tot[strip(x[1])[1]] = tot.get(strip(x[1])[1], 0) + 1
            if x[0] == "asg" and kind(strip(x[2])) == "deref" and kind(strip(strip(x[2])[1])) == "var":
                v = strip(strip(x[2])[1])[1]
                if v in pn:
                    lhs.setdefault(v, [0, 0])
                    lhs[v][0] += 1
                    if x[1] == "=":
                        lhs[v][1] += 1
        for v, (nst, nplain) in lhs.items():
            if tot.get(v, 0) > nplain:
                c.setdefault(f.name, []).append(pn.index(v))
    prog._inout_params = c
    return c


def _read_after(f, var, line, col):
    """is `var` read on some CFG path after the call at (line, col) before being assigned?"""
    site = None
    for bid, i, st in f.stmts():
        for c in calls_in(st["e"]):
            if c[5] == line and c[6] == col:
                site = (bid, i)
    if site is None:
        return True

    def ud(e):
        cnt = sum(1 for x in walk(e, True) if x[0] == "var" and x[1] == var)
        lhs = sum(1 for x in walk(e, True) if x[0] == "asg" and x[1] == "=" and kind(strip(x[2])) == "var" and strip(x[2])[1] == var)
        return cnt > lhs, lhs > 0
    seen = set()
    work = [(site[0], site[1] + 1)]
    # the rest of the call's own statement may read it too (e.g. `if (f(&v) == FAIL || v > 3)`): conservative yes
    while work:
        bid, idx = work.pop()
        if (bid, idx) in seen:
            continue
        seen.add((bid, idx))
        b = f.blocks[bid]
        stop = False
        for j in range(idx, len(b["s"])):
            u, d = ud(b["s"][j]["e"])
            if u:
                return True
            if d:
                stop = True
                break
        if not stop:
            for sb in b["succ"]:
                if sb >= 0:
                    work.append((sb, 0))
    return False


INOUT_EXCEPT = {}


def rule_inout_used(ctx, files=None, callees=None, floor=5):
    """INOUT (C06): armed for the number-type normalisation helper(s) named by the caller only -- library-wide the pattern
    also matches search cursors and stream closers, where not reading the rewritten value is normal.  When a helper both reads and rewrites `*p` (it normalises a value in place: number-type
    flavour, header position, buffer size ...), a caller that passes `&local` and never reads `local` again has thrown the
    normalised value away -- typically it keeps using a stale copy."""
    prog = ctx.prog
    io = _inout_params(prog)
    n = 0
    for f in prog.lib_funcs():
        if files and not f.rel.endswith(tuple(files)):
            continue
        k = 0
        for _b, _i, st, c in f.calls():
            idxs = io.get(c[1] or "")
            if not idxs or (callees is not None and c[1] not in callees):
                continue
            for ai in idxs:
                if ai >= len(c[3]):
                    continue
                a = strip(c[3][ai])
                if not (kind(a) == "addr" and kind(strip(a[1])) == "var" and strip(a[1])[2] == "l"):
                    continue
                v = strip(a[1])[1]
                n += 1
                k += 1
                key = "INOUT:%s:%s:%s" % (f.name, c[1], v)
                if _read_after(f, v, c[5], c[6]):
                    ctx.holds("INOUT", key, f.where(c[5]), "`%s` is read again after %s() rewrote it" % (v, c[1]), nontrivial=True)
                elif (f.name, c[1], v) in INOUT_EXCEPT:
                    ctx.excepted("INOUT", key, f.where(c[5]), INOUT_EXCEPT[(f.name, c[1], v)])
                else:
                    ctx.violated("INOUT", key, f.where(c[5]), "%s() reads and rewrites `%s` in place, but `%s` is never read after the call: the rewritten value is lost" % (c[1], v, v))
    ctx.floor("INOUT", floor, n, "(call sites passing &local to an in-out parameter)")
    return n


def rule_access_from_mode(ctx):
    """ACCMODE (C14): the shared start-access routine of each special-element kind is called with the access mode that was
    requested (`acc_mode`); Hwrite's only permission test is `access_rec->access & DFACC_WRITE`, so the routine must derive
    `access_rec->access` from that parameter.  A constant there hands write access to every read opener."""
    prog = ctx.prog
    n = 0
    for f in prog.lib_funcs():
        pn = [p[0] for p in f.params]
        if "acc_mode" not in pn:
            continue
        stores = []
        for _b, _i, st, x in f.nodes(True):
            if x[0] == "asg" and x[1] == "=" and mem_field(x[2]) == ("accrec_t", "access"):
                stores.append(x)
        if not stores:
            continue
        for i, x in enumerate(stores):
            n += 1
            key = "ACCMODE:%s#%d" % (f.name, i + 1)
            if any(y[0] == "var" and y[1] == "acc_mode" for y in walk(x[3], True)):
                ctx.holds("ACCMODE", key, f.where(x[4]), "`%s`" % render(x)[:70], nontrivial=True)
            else:
                ctx.violated("ACCMODE", key, f.where(x[4]), "`%s` does not depend on the requested access mode: an element opened for reading gets the same access bits as one opened for writing, "
                             "and Hwrite's permission test passes on it" % render(x)[:70])
    # routines that build an access record without a requested mode (conversions of an existing element: HRPconvert) must take
    # the access bits from what the file was opened with
    for f in prog.lib_funcs():
        pn = [p[0] for p in f.params]
        if "acc_mode" in pn or not f.rel.startswith("hdf/src/"):
            continue
        for i, x in enumerate([x for _b, _i, _s, x in f.nodes(True) if x[0] == "asg" and x[1] == "=" and mem_field(x[2]) == ("accrec_t", "access")]):
            r = strip(x[3])
            if not (is_int(r) and int_val(r) & 2):
                continue  # not a constant that grants write access
            n += 1
            guarded = any(t.get("cond") is not None and (t.get("l") or 0) < x[4] and any(y[0] == "mem" and y[2] == "access" and y[3] == "filerec_t" for y in walk(t["cond"], True))
                          for t in (b.get("term") for b in f.blocks.values()) if t)
            if guarded:
                ctx.holds("ACCMODE", "ACCMODE:%s#c%d" % (f.name, i + 1), f.where(x[4]), "a creator: the file's write access was tested before the record is given read/write access", nontrivial=True)
                continue
            ctx.violated("ACCMODE", "ACCMODE:%s#c%d" % (f.name, i + 1), f.where(x[4]), "`%s` grants write access by a constant in a routine that is not told the requested mode: the access "
                         "record of an element of a file opened read-only passes Hwrite's permission test" % render(x)[:60])
        for i, x in enumerate([x for _b, _i, _s, x in f.nodes(True) if x[0] == "asg" and x[1] == "=" and mem_field(x[2]) == ("accrec_t", "access") and not is_int(strip(x[3]))]):
            if any(y[0] == "mem" and y[2] == "access" and y[3] == "filerec_t" for y in walk(x[3], True)):
                n += 1
                ctx.holds("ACCMODE", "ACCMODE:%s#f%d" % (f.name, i + 1), f.where(x[4]), "access bits taken from the file's access mode", nontrivial=True)
    ctx.floor("ACCMODE", 4, n, "(stores to access_rec->access in mode-parameterised start-access routines)")
    return n


def _used_after(f, var, line, col, ignore=("free",)):
    """is `var` used (other than as the argument of the ignored calls) on some CFG path after the call at (line, col)?"""
    site = None
    for bid, i, st in f.stmts():
        for c in calls_in(st["e"]):
            if c[5] == line and c[6] == col:
                site = (bid, i)
    if site is None:
        return True

    def uses(e):
        ign = 0
        for c in calls_in(e):
            if c[1] in ignore:
                for a in c[3]:
                    ign += sum(1 for x in walk(a, True) if x[0] == "var" and x[1] == var)
        cnt = sum(1 for x in walk(e, True) if x[0] == "var" and x[1] == var)
        lhs = sum(1 for x in walk(e, True) if x[0] == "asg" and x[1] == "=" and kind(strip(x[2])) == "var" and strip(x[2])[1] == var)
        return cnt - ign - lhs > 0, lhs > 0
    seen = set()
    work = [(site[0], site[1] + 1)]
    while work:
        bid, idx = work.pop()
        if (bid, idx) in seen:
            continue
        seen.add((bid, idx))
        b = f.blocks[bid]
        stop = False
        for j in range(idx, len(b["s"])):
            u, d = uses(b["s"][j]["e"])
            if u:
                return True
            if d:
                stop = True
                break
        if not stop:
            for sb in b["succ"]:
                if sb >= 0:
                    work.append((sb, 0))
    return False


def rule_converted_value_used(ctx):
    """CONVUSED (C04, C06): DFKconvert(src, dst, ..) produces the file-order (or memory-order) representation in `dst`.
    When `dst` is a local buffer, something other than free() must consume it afterwards; if only `src` is passed on, the
    unconverted bytes are stored (e.g. the fill value of a chunked dataset in the wrong byte order)."""
    prog = ctx.prog
    n = 0
    for f in prog.lib_funcs():
        k = 0
        for _b, _i, st, c in f.calls():
            if c[1] != "DFKconvert" or len(c[3]) < 2:
                continue
            d = strip(c[3][1])
            while kind(d) in ("cast",):
                d = strip(d[2])
            if kind(d) == "addr":
                d = strip(d[1])
            if kind(d) != "var" or d[2] != "l":
                continue
            if strip(c[3][0]) == strip(c[3][1]) or (kind(strip(c[3][0])) == "var" and strip(c[3][0])[1] == d[1]):
                continue  # in-place conversion: the same buffer is source and destination
            n += 1
            k += 1
            key = "CONVUSED:%s:%s#%d" % (f.name, d[1], k)
            if _used_after(f, d[1], c[5], c[6]):
                ctx.holds("CONVUSED", key, f.where(c[5]), "`%s` is consumed after the conversion" % d[1], nontrivial=True)
            else:
                ctx.violated("CONVUSED", key, f.where(c[5]), "DFKconvert() writes the converted bytes to `%s`, but nothing except free() uses `%s` afterwards: the unconverted source is what gets stored" % (d[1], d[1]))
    ctx.floor("CONVUSED", 10, n, "(DFKconvert calls with a local destination)")
    return n


def rule_seek_resets_cursor(ctx):
    """SEEKRESET (C04, C05): a coder's seek must leave no stale decode position behind.  For every coder, the `seek` slot
    function either re-runs the coder's init/staccess routine (and decodes forward) or assigns every cursor field (name
    contains `pos`, or `offset`) of the coder's state record that the init routine assigns."""
    prog = ctx.prog

    def assigned(f):
        out = set()
        for _b, _i, _s, x in f.nodes(True):
            if x[0] == "asg":
                mf = mem_field(x[2])
                if mf:
                    out.add(mf)
            elif x[0] == "incdec":
                mf = mem_field(x[3])
                if mf:
                    out.add(mf)
        return out
    n = 0
    for c in ("rle", "nbit", "skphuff", "deflate", "szip"):
        ini = prog.func("HCIc%s_init" % c)
        sk = prog.func("HCPc%s_seek" % c)
        if ini is None or sk is None:
            if c != "szip":
                ctx.unrecognised("SEEKRESET", "SEEKRESET:%s" % c, "-", "init or seek routine of the %s coder not found" % c)
            continue
        n += 1
        key = "SEEKRESET:%s" % c
        callees = {x[1] for _, _, _, x in sk.calls()}
        reinit = {"HCIc%s_init" % c, "HCIc%s_staccess2" % c, "HCIc%s_staccess" % c} & callees
        cursor = {mf for mf in assigned(ini) if c in mf[0].lower() and "coder" in mf[0].lower() and ("pos" in mf[1] or mf[1] == "offset")}
        if reinit:
            ctx.holds("SEEKRESET", key, sk.where(), "seek re-runs %s" % sorted(reinit)[0], nontrivial=True)
            continue
        missing = sorted(mf[1] for mf in cursor - assigned(sk))
        if not cursor:
            ctx.unrecognised("SEEKRESET", key, ini.where(), "no cursor field recognised in the init routine")
        elif missing:
            ctx.violated("SEEKRESET", key, sk.where(), "seek neither re-initialises the coder nor resets `%s` (which the init routine sets): the next read continues from the buffer position of the previous one" % ", ".join(missing))
        else:
            ctx.holds("SEEKRESET", key, sk.where(), "seek assigns every cursor field of the coder state (%s)" % ", ".join(sorted(mf[1] for mf in cursor)), nontrivial=True)
    ctx.floor("SEEKRESET", 4, n, "(coders with a seek routine)")
    return n


class _RegMax(PathAnalysis):
    def __init__(self, prog, refparam):
        super().__init__(prog)
        self.refparam = refparam
        self.bad = []

    def init_user(self, func):
        return False

    def on_assume(self, func, bid, cond, pol, env, user):
        c = strip(cond)
        if kind(c) == "bin" and c[1] in (">", "<", ">=", "<="):
            l, r = strip(c[2]), strip(c[3])
            lm = (mem_field(l) or (0, 0))[1] == "maxref"
            rm = (mem_field(r) or (0, 0))[1] == "maxref"
            lp = kind(l) == "var" and l[1] == self.refparam
            rp = kind(r) == "var" and r[1] == self.refparam
            # ref > maxref false  /  maxref < ref false  ==> maxref already covers ref
            if (lp and rm and c[1] == ">" and not pol) or (lm and rp and c[1] == "<" and not pol):
                return True
        return user

    def on_stmt(self, func, bid, idx, stmt, env, user):
        for x in walk(stmt["e"], True):
            if x[0] == "asg" and x[1] == "=" and (mem_field(x[2]) or (0, 0))[1] == "maxref" and kind(strip(x[3])) == "var" and strip(x[3])[1] == self.refparam:
                return True
        return user

    def on_exit(self, func, bid, retval, env, user):
        if not user and classify_ret(retval, self.fails) != "fail":
            self.bad.append(bid)


def rule_maxref_registered(ctx):
    """MAXREG (C12): HTPcreate is the one routine that enters a new tag/ref into the directory.  Because Hnewref's fast path
    returns ++maxref without searching, HTPcreate leaves `maxref >= ref` on every non-failing path (callers such as Hdupdd pass
    reference numbers chosen by the application)."""
    prog = ctx.prog
    f = prog.func("HTPcreate")
    if f is None:
        ctx.unrecognised("MAXREG", "MAXREG:HTPcreate", "-", "HTPcreate not found")
        return 0
    refparam = f.params[2][0] if len(f.params) >= 3 else "ref"
    a = _RegMax(prog, refparam)
    a.fails = fail_values(f, prog)
    a.run(f)
    if a.bad:
        ctx.violated("MAXREG", "MAXREG:HTPcreate", f.where(), "HTPcreate can return successfully without `maxref >= %s`: a later Hnewref may hand out a reference that is already in use" % refparam)
    else:
        ctx.holds("MAXREG", "MAXREG:HTPcreate", f.where(), "every non-failing path leaves maxref >= the registered reference", nontrivial=True)
    return 1


class _SeekOrigin(PathAnalysis):
    def __init__(self, prog):
        super().__init__(prog)
        self.bad = None
        self.adjusts = False

    def init_user(self, func):
        return False

    def on_stmt(self, func, bid, idx, stmt, env, user):
        for c in calls_in(stmt["e"]):
            args = [strip(a) for a in c[3]]
            if user and any(kind(a) == "var" and a[1] == "offset" for a in args) and any(kind(a) == "var" and a[1] == "origin" for a in args):
                self.bad = c
        for x in walk(stmt["e"], True):
            if x[0] == "asg" and x[1] == "+=" and kind(strip(x[2])) == "var" and strip(x[2])[1] == "offset":
                self.adjusts = True
                user = True
        return user


def rule_seek_origin(ctx):
    """SEEKORIGIN (C05, C01): a seek routine that converts (offset, origin) into an absolute offset (`offset += posn` under
    `origin == DF_CURRENT`, `offset += length` under DF_END) must not, after that adjustment, hand the same `origin` on together
    with the adjusted offset: whoever receives both applies the origin a second time."""
    prog = ctx.prog
    n = 0
    for f in prog.lib_funcs():
        pn = [p[0] for p in f.params]
        if "offset" not in pn or "origin" not in pn:
            continue
        a = _SeekOrigin(prog)
        a.fails = fail_values(f, prog)
        a.run(f)
        if not a.adjusts:
            continue
        n += 1
        key = "SEEKORIGIN:%s" % f.name
        if a.bad is not None:
            from .flow import call_name
            ctx.violated("SEEKORIGIN", key, f.where(a.bad[5]), "%s adjusts `offset` by the origin and afterwards passes both `offset` and `origin` to %s(): the origin is applied twice" % (f.name, call_name(a.bad)))
        else:
            ctx.holds("SEEKORIGIN", key, f.where(), "the adjusted offset is never forwarded together with the original origin", nontrivial=True)
    ctx.floor("SEEKORIGIN", 3, n, "(seek routines that make the offset absolute)")
    return n


class _SpecialFirst(PathAnalysis):
    """user = True once `access_rec->special` was seen to be zero on the path"""

    def __init__(self, prog):
        super().__init__(prog)
        self.sites = {}

    def init_user(self, func):
        return False

    def on_assume(self, func, bid, cond, pol, env, user):
        c = strip(cond)
        if (mem_field(c) or (0, 0)) == ("accrec_t", "special"):
            return (not pol) or user if not pol else user
        if kind(c) == "bin" and c[1] in ("==", "!=") and (mem_field(c[2]) or (0, 0)) == ("accrec_t", "special") and is_int(c[3]) and int_val(c[3]) == 0:
            if (c[1] == "==") == pol:
                return True
        if kind(c) == "un" and c[1] == "!" and (mem_field(c[2]) or (0, 0)) == ("accrec_t", "special") and pol:
            return True
        return user

    def on_stmt(self, func, bid, idx, stmt, env, user):
        for c in calls_in(stmt["e"]):
            if c[1] == "HTPupdate" and c[3] and (mem_field(c[3][0]) or (0, 0)) == ("accrec_t", "ddid"):
                k = (c[5], c[6])
                self.sites[k] = self.sites.get(k, True) and bool(user)
        return user


SPECIALFIRST_EXCEPT = {
    "Hsetlength": "guarded by `access_rec->new_elem == TRUE`, which only Hstartaccess sets, for a plain element it has just created (special creators leave new_elem 0)",
}


def rule_special_first(ctx):
    """SPECIALFIRST (C01): the descriptor behind an access record of a *special* element describes the element's header, not
    its data.  A generic H-layer routine may therefore rewrite offset/length of `access_rec->ddid` (HTPupdate) only on paths
    where `access_rec->special` was seen to be zero (special elements are dispatched to their table or refused first)."""
    prog = ctx.prog
    n = 0
    for f in prog.lib_funcs():
        if not f.rel.endswith("hfile.c"):
            continue
        if not any(c[1] == "HTPupdate" and c[3] and (mem_field(c[3][0]) or (0, 0)) == ("accrec_t", "ddid") for _b, _i, _s, c in f.calls()):
            continue
        a = _SpecialFirst(prog)
        a.fails = fail_values(f, prog)
        a.run(f)
        for k, ok in sorted(a.sites.items()):
            n += 1
            key = "SPECIALFIRST:%s" % f.name
            if ok:
                ctx.holds("SPECIALFIRST", key, f.where(k[0]), "HTPupdate on the element's descriptor only after `special` was seen zero", nontrivial=True)
            elif f.name in SPECIALFIRST_EXCEPT:
                ctx.excepted("SPECIALFIRST", key, f.where(k[0]), SPECIALFIRST_EXCEPT[f.name])
            else:
                ctx.violated("SPECIALFIRST", key, f.where(k[0]), "%s rewrites the descriptor of the element behind the access record without having excluded special elements: "
                             "for a linked-block / compressed / chunked / external element this truncates or moves the special header" % f.name)
    ctx.floor("SPECIALFIRST", 3, n, "(HTPupdate calls on access_rec->ddid in hfile.c)")
    return n


class _Classless(PathAnalysis):
    """user = True while the class pointer of the vgroup/vdata being looked at is known to be NULL"""

    def __init__(self, prog, counter, field):
        super().__init__(prog)
        self.counter = counter
        self.field = field
        self.sites = {}

    def init_user(self, func):
        return False

    def on_assume(self, func, bid, cond, pol, env, user):
        c = strip(cond)
        if kind(c) == "bin" and c[1] in ("==", "!=") and (mem_field(c[2]) or (0, 0))[1] == self.field and is_int(strip(c[3])) and int_val(strip(c[3])) == 0:
            return (c[1] == "==") == pol
        return user

    def on_stmt(self, func, bid, idx, stmt, env, user):
        for x in walk(stmt["e"], True):
            if x[0] == "incdec" and x[1] == "++" and kind(strip(x[3])) == "var" and strip(x[3])[1] == self.counter:
                self.sites[x[4]] = self.sites.get(x[4], False) or bool(user)
        return user


def rule_classless_counted(ctx):
    """CLASSLESS (C08): a Vgroup without a class is a user-created one.  Every place where Vgetvgroups counts user-created
    vgroups (whole file, and members of a vgroup) must be reachable with `vgclass == NULL`; otherwise enumeration by parent skips
    objects that enumeration by file reports."""
    prog = ctx.prog
    f = prog.func("Vgetvgroups")
    if f is None:
        ctx.unrecognised("CLASSLESS", "CLASSLESS:Vgetvgroups", "-", "Vgetvgroups not found")
        return 0
    a = _Classless(prog, "user_vgs", "vgclass")
    a.fails = fail_values(f, prog)
    a.run(f)
    for i, (line, ok) in enumerate(sorted(a.sites.items())):
        key = "CLASSLESS:Vgetvgroups#%d" % (i + 1)
        if ok:
            ctx.holds("CLASSLESS", key, f.where(line), "`user_vgs++` is reached for a vgroup whose class is NULL", nontrivial=True)
        else:
            ctx.violated("CLASSLESS", key, f.where(line), "this count of user-created vgroups is never reached for a vgroup without a class: such vgroups are skipped in this mode")
    ctx.floor("CLASSLESS", 2, len(a.sites), "(places where Vgetvgroups counts user-created vgroups)")
    return len(a.sites)


class _PreRead(PathAnalysis):
    def __init__(self, prog):
        super().__init__(prog)
        self.exits = []
        self.reads = 0

    def init_user(self, func):
        return (False, False)  # (the element was read since its last seek, the bit file is in write mode)

    def on_stmt(self, func, bid, idx, stmt, env, user):
        from .facts import is_int, int_val
        r, w = user
        for x in walk(stmt["e"]):
            if x[0] == "call" and x[3] and (mem_field(x[3][0]) or (0, 0))[1] == "acc_id":
                if x[1] == "Hread":
                    r = True
                    self.reads += 1
                elif x[1] == "Hseek" and len(x[3]) > 2 and is_int(x[3][2]) and int_val(x[3][2]) == 0:
                    r = False  # only an absolute seek (DF_START) to block_offset undoes the move of the read
            elif x[0] == "asg" and (mem_field(x[2]) or (0, 0))[1] == "mode" and is_int(x[3]):
                w = int_val(x[3]) == ord("w")
        return (r, w)

    def on_exit(self, func, bid, retval, env, user):
        self.exits.append((classify_ret(retval, self.fails), user))


def rule_preread_then_seek(ctx):
    """PREREADSEEK (C05): a bit file in write mode keeps a block of the element in its buffer and writes the buffer back at
    `block_offset` with a plain Hwrite on the underlying access element.  When the buffer is filled by *reading* that block
    (rewriting an existing element), the read moves the access element to the end of the block; a routine that leaves the bit
    file in write mode must have moved it back (an absolute Hseek, origin DF_START) after its last read, or the first flush lands one block further on."""
    prog = ctx.prog
    n = 0
    for f in prog.lib_funcs():
        if not f.rel.endswith("hbitio.c"):
            continue
        a = _PreRead(prog)
        a.fails = fail_values(f, prog)
        try:
            a.run(f)
        except Exception:
            continue
        ends_w = [u for cls, u in a.exits if cls != "fail" and u[1]]
        if not a.reads or not ends_w:
            continue
        n += 1
        key = "PREREADSEEK:%s" % f.name
        if any(r for r, w in ends_w):
            ctx.violated("PREREADSEEK", key, f.where(), "%s can return with the bit file in write mode and the access element still positioned behind the block it has just read into "
                         "the buffer: the buffer will be written back at the wrong offset" % f.name)
        else:
            ctx.holds("PREREADSEEK", key, f.where(), "every pre-read is followed by a seek back before the routine returns in write mode", nontrivial=True)
    ctx.floor("PREREADSEEK", 1, n, "(bit-I/O routines that pre-read a block and end in write mode)")
    return n


NEWREF_USERS = {"Hstartwrite": 2, "Hputelement": 2, "Hstartaccess": 2, "Hstartread": 2, "HTPcreate": 2, "HLcreate": 2, "HCcreate": 2, "HXcreate": 2, "HMCcreate": 2, "Hdupdd": 2, "Hexist": 2, "Hlength": 2}


def rule_newref_same_tag(ctx):
    """NEWREFTAG (C17, C12): reference numbers are allocated per tag: Htagnewref(file, T) answers with a reference that is free *for
    tag T*.  The element then created with that reference must carry the same tag T; created under another tag, the reference may
    belong to a live object of that tag, and the 'new' object is written over it (DFANIputann taking an annotation's reference
    from the annotated object's tag)."""
    prog = ctx.prog
    n = 0
    for f in prog.lib_funcs():
        defs = {}
        for _b, _i, _s, x in f.nodes(True):
            if x[0] == "asg" and x[1] == "=":
                r = strip(x[3])
                if kind(r) == "call" and r[1] == "Htagnewref" and len(r[3]) >= 2:
                    t = path(strip(x[2])) or render(strip(x[2]))
                    defs.setdefault(t, []).append(render(strip(r[3][1])))
        if not defs:
            continue
        # only the first element created with the fresh reference is the one it was allocated for; the old raster conventions
        # then give companion elements (ID8, IP8, LUT) the same reference on purpose
        firsts = {}
        for _b, _i, _s, c in f.calls():
            pos = NEWREF_USERS.get(c[1])
            if pos is None or len(c[3]) <= pos:
                continue
            ra = strip(c[3][pos])
            rp = path(ra) or render(ra)
            if rp in defs and (rp not in firsts or (c[5], c[6]) < (firsts[rp][5], firsts[rp][6])):
                firsts[rp] = c
        for rp, c in sorted(firsts.items()):
            pos = NEWREF_USERS[c[1]]
            n += 1
            key = "NEWREFTAG:%s:%s@%s" % (f.name, rp[:30], c[1])
            tag = render(strip(c[3][pos - 1]))
            if tag in defs[rp]:
                ctx.holds("NEWREFTAG", key, f.where(c[5]), "reference allocated for `%s` and used with `%s`" % (tag, tag), nontrivial=True)
            else:
                ctx.violated("NEWREFTAG", key, f.where(c[5]), "`%s` was allocated with Htagnewref for tag `%s` but %s() uses it with tag `%s`: it need not be free for that tag, a live object "
                             "may be overwritten" % (rp, "/".join(sorted(set(defs[rp]))), c[1], tag))
    ctx.floor("NEWREFTAG", 5, n, "(uses of a reference obtained from Htagnewref)")
    return n


class _SeekThenIO(PathAnalysis):
    """user = frozenset of stream expressions (rendered) that have been positioned with fseek since they were opened"""

    def __init__(self, prog):
        super().__init__(prog)
        self.sites = {}

    def init_user(self, func):
        return frozenset()

    def on_stmt(self, func, bid, idx, stmt, env, user):
        from .facts import kind, strip, render
        u = set(user)
        # assignments from fopen re-open a stream: not positioned any more
        for x in walk(stmt["e"]):
            if x[0] == "asg" and x[1] == "=" and any(y[0] == "call" and y[1] == "fopen" for y in walk(x[3], True)):
                u.discard(render(strip(x[2])))
        for x in walk(stmt["e"]):
            if x[0] == "call" and x[1] == "fseek" and x[3]:
                u.add(render(strip(x[3][0])))
            elif x[0] == "call" and x[1] in ("fwrite", "fread") and len(x[3]) > 3:
                st = render(strip(x[3][3]))
                k = (x[1], st, stmt.get("l", 0))
                self.sites[k] = self.sites.get(k, True) and (st in u)
                u.discard(st)  # the transfer moves the stream: the next one needs its own seek
        return frozenset(u)


def rule_external_io_positioned(ctx):
    """EXTSEEK (C04, C01): the data of an external element live at `extern_offset` in a file the library shares with nobody's
    bookkeeping: the stream is opened, closed and re-opened at need, and nothing about its current position can be assumed.
    Every transfer on the external stream in hextelt.c (fwrite / fread) is therefore preceded, on every path since the stream
    was opened or last used, by an fseek on that same stream.  A transfer without its seek puts the bytes wherever the stream
    happens to stand — at 0 for a freshly opened file — while the header goes on pointing at extern_offset."""
    prog = ctx.prog
    n = 0
    for f in prog.lib_funcs():
        if not f.rel.endswith("hdf/src/hextelt.c"):
            continue
        if not any(c[1] in ("fwrite", "fread") for _b, _i, _s, c in f.calls()):
            continue
        a = _SeekThenIO(prog)
        a.fails = fail_values(f, prog)
        a.run(f)
        for i, ((call, st, line), ok) in enumerate(sorted(a.sites.items(), key=lambda kv: kv[0][2])):
            n += 1
            key = "EXTSEEK:%s#%d" % (f.name, i + 1)
            if ok:
                ctx.holds("EXTSEEK", key, f.where(line), "%s on `%s` follows an fseek on that stream on every path" % (call, st), nontrivial=True)
            else:
                ctx.violated("EXTSEEK", key, f.where(line), "%s on the external stream `%s` can be reached without an fseek on that stream since it was opened or last used: the bytes go to the stream's current position, not to the element's offset in the external file" % (call, st))
    ctx.floor("EXTSEEK", 3, n, "(transfers on an external element's stream)")
    return n


# ---------------------------------------------------------------------------------------------------------------------
_GROUP_SINKS = {"Hputelement": (1, 2), "Hstartwrite": (1, 2), "DFdiwrite": (2, 3), "Hdupdd": (1, 2), "DFputcomp": (1, 2),
                "HLcreate": (1, 2), "HCcreate": (1, 2), "Hstartaccess": (1, 2)}


def rule_group_ref_free_for_all_tags(ctx):
    """GROUPREF (C09, C17): the single-file interfaces store an object as a group whose members all carry the group's
    reference: DFGRaddrig writes ID, NT, LD, LUT and RIG under one `ref`, DFR8putrig and DFSDIputndg do the same for their
    groups.  Hputelement on a tag/ref that already exists *replaces* that element.  So the reference handed to such a group
    writer must be unused for every tag (Hnewref); one taken from Htagnewref(file, T) is unused for T only, and in a file that
    already holds an image written through GR the ID/NT/LD records of that image are overwritten."""
    from .facts import int_name
    prog = ctx.prog
    writers = {}
    for f in prog.lib_funcs():
        pn = [(p[0] if isinstance(p, (list, tuple)) else p.get("name")) for p in f.params]
        use = {}
        for _b, _i, _s, c in f.calls():
            if c[1] in _GROUP_SINKS:
                ti, ri = _GROUP_SINKS[c[1]]
                if len(c[3]) > ri:
                    r, t = strip(c[3][ri]), strip(c[3][ti])
                    if kind(r) == "var" and r[1] in pn and kind(t) == "int" and int_name(t):
                        use.setdefault(r[1], set()).add(int_name(t))
        for v, ts in use.items():
            if len(ts) >= 3:
                writers[f.name] = (pn.index(v), sorted(ts))
    # where does a variable get its value from, anywhere in the file (the DF interfaces keep refs in file-scope variables)
    n = 0
    for f in prog.lib_funcs():
        k = 0
        for _b, _i, s, c in f.calls():
            if c[1] not in writers:
                continue
            idx, tags = writers[c[1]]
            if len(c[3]) <= idx:
                continue
            k += 1
            n += 1
            key = "GROUPREF:%s:%s#%d" % (f.name, c[1], k)
            a = strip(c[3][idx])
            line = s.get("l", f.line)
            if kind(a) != "var":
                ctx.holds("GROUPREF", key, f.where(line), "the reference handed to %s is `%s` (not a local allocation)" % (c[1], render(a)[:40]), nontrivial=False)
                continue
            srcs = []
            for g in prog.lib_funcs():
                if g.file != f.file:
                    continue
                for _b2, _i2, _s2, x in g.nodes(True):
                    rhs = None
                    if x[0] == "asg" and x[1] == "=" and kind(strip(x[2])) == "var" and strip(x[2])[1] == a[1] and (g is f or len(a) > 2 and a[2] == "g"):
                        rhs = x[3]
                    elif x[0] == "decl" and g is f:
                        for d in x[1]:
                            if d[0] == a[1] and d[2] is not None:
                                rhs = d[2]
                    if rhs is not None:
                        for cc in calls_in(rhs, True):
                            if cc[1] in ("Htagnewref", "Hnewref"):
                                srcs.append((cc[1], g.name))
            bad = [s_ for s_ in srcs if s_[0] == "Htagnewref"]
            if bad:
                ctx.violated("GROUPREF", key, f.where(line), "`%s` comes from Htagnewref (in %s) and is handed to %s, which writes %s under it: the reference is unused for one tag only, existing elements of the other tags are overwritten" % (a[1], bad[0][1], c[1], ", ".join(tags)))
            else:
                ctx.holds("GROUPREF", key, f.where(line), "`%s` handed to %s (%s) %s" % (a[1], c[1], ", ".join(tags)[:50], "comes from Hnewref" if srcs else "is not allocated with Htagnewref"), nontrivial=bool(srcs))
    ctx.floor("GROUPREF", 3, n, "(calls of a routine that writes a whole group under one reference)")
    return n


# ---------------------------------------------------------------------------------------------------------------------
_FILE_PRIMS = {"fseek", "fread", "fwrite", "fseeko", "lseek", "read", "write"}
_io_closure_cache = {}


def _io_closure(prog):
    """library functions that can move the position of the HDF file (reach a stdio seek/read/write through calls)"""
    if id(prog) in _io_closure_cache:
        return _io_closure_cache[id(prog)]
    callers = prog.callers()
    clo, work = set(), []
    for f in prog.lib_funcs():
        for _b, _i, _s, c in f.calls():
            if c[1] in _FILE_PRIMS and f.name not in clo:
                clo.add(f.name)
                work.append(f.name)
    while work:
        g = work.pop()
        for cf, _call in callers.get(g, []):
            if cf.name not in clo:
                clo.add(cf.name)
                work.append(cf.name)
    _io_closure_cache[id(prog)] = clo
    return clo


def rule_seek_then_transfer(ctx):
    """SEEKGAP (C01, C16): HPseek(file_rec, off) positions the one file pointer of the file record for the HP_read/HP_write that
    follows; the transfer itself takes no offset.  Between the two, on every path that is not already an error exit, nothing
    is called that can itself reach a seek, read or write of the file - such a call (a descriptor update with the DD cache
    switched off writes the DD block at once) leaves the pointer somewhere else and the transfer lands there: appended bytes
    end up inside the DD block and the element keeps stale data."""
    prog = ctx.prog
    clo = _io_closure(prog)
    n = 0
    for f in prog.lib_funcs():
        k = 0
        for bid, b in f.blocks.items():
            for i, s in enumerate(b["s"]):
                if not any(c[1] == "HPseek" for c in calls_in(s["e"])):
                    continue
                seen, bad, hit = set(), [], 0
                stack = [(bid, i + 1)]
                while stack:
                    bb, ii = stack.pop()
                    if (bb, ii) in seen:
                        continue
                    seen.add((bb, ii))
                    blk = f.blocks.get(bb)
                    if not blk:
                        continue
                    stop = False
                    for j in range(ii, len(blk["s"])):
                        for c2 in calls_in(blk["s"][j]["e"]):
                            if c2[1] in ("HP_read", "HP_write"):
                                stop = True
                                hit += 1
                            elif c2[1] in ("HPseek", "HEpush", "HEreport"):
                                stop = True       # a new positioning, or an error exit
                            elif c2[1] in clo and not stop:
                                bad.append((c2[1], blk["s"][j].get("l", 0)))
                        if stop:
                            break
                    if not stop:
                        for su in blk["succ"]:
                            if su >= 0:
                                stack.append((su, 0))
                if not hit:
                    continue          # a seek for its own sake (Hseek-like), nothing to protect
                k += 1
                n += 1
                key = "SEEKGAP:%s#%d" % (f.name, k)
                line = s.get("l", f.line)
                if bad:
                    ctx.violated("SEEKGAP", key, f.where(line), "between this HPseek and the transfer it positions for, %s (line %d) is called, which can itself seek/read/write the file: the transfer happens wherever that call left the file pointer" % (bad[0][0], bad[0][1]))
                else:
                    ctx.holds("SEEKGAP", key, f.where(line), "nothing that can move the file pointer is called between the HPseek and its transfer", nontrivial=True)
    ctx.floor("SEEKGAP", 12, n, "(HPseek calls that position for an HP_read/HP_write)")
    return n
