"""C13: handle validation — F6a null-before-use of id->object lookups, F6b kind-before-cast,
F6c atom-cache coherence, F6d attach accounting."""
from .facts import kind, strip, walk, path, render, int_val, is_int, calls_in, mem_field, unseen
from .flow import PathAnalysis, fail_values, classify_ret, normalise_cmp, NEG

LOOKUPS = {"HAatom_object", "HAremove_atom", "SDIhandle_from_id", "SDIget_var", "SDIget_dim", "NC_check_id",
           "NC_hlookupvar", "Get_vfile", "vginst", "vsinst", "HAsearch_atom"}

REC_GROUP = {
    "filerec_t": "FIDGROUP", "accrec_t": "AIDGROUP", "vginstance_t": "VGIDGROUP", "vsinstance_t": "VSIDGROUP",
    "gr_info_t": "GRIDGROUP", "ri_info_t": "RIIDGROUP", "ANnode": "ANIDGROUP", "ANfile": "ANIDGROUP?", "bitrec_t": "BITIDGROUP",
    "struct bitrec_t": "BITIDGROUP", "dd_t": "DDGROUP", "compinfo_t": None,
}


def _assigned_lookup(n):
    """`v = [cast] LOOKUP(...)` -> (var name, call) else None"""
    if n[0] == "asg" and n[1] == "=":
        t = strip(n[2])
        r = strip(n[3])
        if kind(t) == "var" and kind(r) == "call" and r[1] in LOOKUPS:
            return t[1], r, n[5]
    return None


_NULLFAIL = {}


class _NullProbe(PathAnalysis):
    def __init__(self, prog, pname):
        super().__init__(prog)
        self.pname = pname
        self.rets = []

    def tracked_vars(self, func):
        return super().tracked_vars(func) | {self.pname}

    def run(self, func):
        self._func = func
        return super().run(func)

    def init_user(self, func):
        return None

    def on_exit(self, func, bid, retval, env, user):
        self.rets.append(classify_ret(retval, self.fails))


def returns_fail_when_null(prog, fname, idx, tu=None):
    """does `fname` return its failure value on every path when parameter #idx is NULL?"""
    k = (fname, idx)
    if k in _NULLFAIL:
        return _NULLFAIL[k]
    _NULLFAIL[k] = False
    f = prog.func(fname, tu)
    if f is None or idx >= len(f.params):
        return False
    pn = f.params[idx][0]
    a = _NullProbe(prog, pn)
    a.fails = fail_values(f, prog)
    # seed the environment with param == NULL by wrapping init
    orig = a.run

    from .flow import freeze
    tracked = a.tracked_vars(f)
    calls = {}
    start = (freeze({pn: ("c", 0)}), None)
    seen = {f.entry: {start}}
    work = [(f.entry, start)]
    steps = 0
    ok = True
    while work and steps < 20000:
        steps += 1
        bid, st = work.pop()
        b = f.blocks[bid]
        env = dict(st[0])
        retval = "noret"
        for s in b["s"]:
            env = a.transfer(f, s["e"], env, tracked, calls)
            if kind(s["e"]) == "ret":
                retval = a.eval(s["e"][1], env) if s["e"][1] is not None else ("void",)
                if retval is None:
                    retval = ("top",)
        succs = b["succ"]
        term = b.get("term")
        if retval != "noret" or not succs or bid == f.exit:
            if classify_ret(retval if retval != "noret" else ("void",), a.fails) != "fail":
                ok = False
            continue
        outs = []
        if term and term.get("cond") is not None and len(succs) == 2 and term["k"] != "SwitchStmt":
            for pol, sb in ((True, succs[0]), (False, succs[1])):
                if sb < 0:
                    continue
                r = a.assume(f, bid, term["cond"], pol, env, None, tracked, calls)
                if r is not None:
                    outs.append((sb, r[0]))
        else:
            outs = [(sb, env) for sb in succs if sb >= 0]
        for sb, e2 in outs:
            ns = (freeze(e2), None)
            if ns not in seen.setdefault(sb, set()):
                seen[sb].add(ns)
                work.append((sb, ns))
    _NULLFAIL[k] = ok and steps < 20000
    return _NULLFAIL[k]


def _library_issued(func, arg):
    """id expression whose provenance is the library itself: a record field, or a local assigned from a call"""
    a = strip(arg)
    if kind(a) == "mem":
        return "id read from a library record (%s)" % render(a)
    if kind(a) == "var" and a[2] != "p":
        for bid, i, s, n in func.nodes(True):
            if n[0] == "asg" and n[1] == "=" and kind(strip(n[2])) == "var" and strip(n[2])[1] == a[1]:
                r = strip(n[3])
                if kind(r) == "call":
                    return "id issued in this function by %s()" % r[1]
                if kind(r) == "mem":
                    return "id read from a library record (%s)" % render(r)
            if n[0] == "decl":
                for d in n[1]:
                    if d[0] == a[1] and d[2] is not None and kind(strip(d[2])) in ("call", "mem"):
                        return "id issued/recorded by the library (%s)" % render(d[2])[:40]
    return None


class F6a(PathAnalysis):
    """user = frozenset of variables holding a lookup result not yet tested against NULL"""

    def __init__(self, prog):
        super().__init__(prog)
        self.sites = {}  # (var, lookup line) -> [ok, deref line, lookup name]
        self.prov = {}
        self.sigs = {}

    def init_user(self, func):
        return frozenset()

    def on_stmt(self, func, bid, idx, stmt, env, user):
        u = dict(user)
        for n in walk(stmt["e"]):
            k = n[0]
            if k in ("mem", "deref", "idx"):
                b = strip(n[1])
                if kind(b) == "var" and b[1] in u and not isinstance(b[1], tuple) and (k != "mem" or n[5]):
                    site = u[b[1]]
                    self.sites[site] = [False, stmt["l"], site[2]]
            elif k == "asg":
                t = strip(n[2])
                if kind(t) == "var":
                    al = _assigned_lookup(n)
                    if al:
                        site = (al[0], al[1][5], al[1][1])
                        sig = ("$ok", al[1][1], tuple(render(x) for x in al[1][3]))
                        prov = _library_issued(func, al[1][3][-1 if al[1][1] in ("SDIget_var", "SDIget_dim", "NC_hlookupvar") else 0]) if al[1][3] else None
                        if sig in u or (prov and al[1][1] in ("HAatom_object",)):
                            u.pop(al[0], None)
                            self.sites.setdefault(site, [True, None, al[1][1]])
                            self.prov[site] = prov or "same lookup already verified on this path"
                        else:
                            u[al[0]] = site
                            self.sigs[al[0]] = sig
                            self.sites.setdefault(site, [True, None, al[1][1]])
                    else:
                        u.pop(t[1], None)
            elif k == "decl":
                for d in n[1]:
                    if d[2] is not None:
                        r = strip(d[2])
                        if kind(r) == "call" and r[1] in LOOKUPS:
                            site = (d[0], r[5], r[1])
                            u[d[0]] = site
                            self.sites.setdefault(site, [True, None, r[1]])
                        else:
                            u.pop(d[0], None)
        return frozenset(u.items())

    def on_assume(self, func, bid, cond, pol, env, user):
        l, op, r = normalise_cmp(cond)
        if l is None or not is_int(r, 0):
            return user
        if not pol:
            op = NEG[op]
        l = strip(l)
        if kind(l) == "asg":
            l = strip(l[2])
        if kind(l) == "var" and op == "!=":
            u = dict(user)
            if l[1] in u:
                u.pop(l[1])
                sg = self.sigs.get(l[1])
                if sg:
                    u[sg] = True
                return frozenset(u.items())
        return user

    def on_call_outcome(self, func, call, outcome, env, user):
        if outcome != "ok" or not call[1]:
            return user
        u = dict(user)
        ch = False
        for j, a in enumerate(call[3]):
            a = strip(a)
            if kind(a) == "var" and a[1] in u and returns_fail_when_null(self.prog, call[1], j, func.tu):
                u.pop(a[1])
                ch = True
        return frozenset(u.items()) if ch else user


def rule_F6a(ctx):
    prog = ctx.prog
    n = 0
    for f in prog.lib_funcs():
        if not any(c[1] in LOOKUPS for _, _, _, c in f.calls()):
            continue
        a = F6a(prog)
        try:
            a.run(f)
        except Exception as e:
            ctx.unrecognised("F6a", "F6a:%s" % f.name, f.where(), "analysis failed: %s" % e)
            continue
        per = {}
        for (var, line, lk), (ok, dl, _) in a.sites.items():
            k = (var, lk)
            cur = per.get(k)
            if cur is None or (cur[0] and not ok):
                per[k] = (ok, dl, line)
        for (var, lk), (ok, dl, line) in sorted(per.items()):
            n += 1
            key = "F6a:%s:%s=%s" % (f.name, var, lk)
            if ok:
                ctx.holds("F6a", key, f.where(line), "result of %s is tested against NULL before any dereference on every path" % lk, nontrivial=True)
            else:
                ctx.violated("F6a", key, f.where(dl),
                             "`%s` (result of %s at line %d) is dereferenced on a path where it was not tested against NULL: a stale or "
                             "never-issued id makes the lookup return NULL" % (var, lk, line))
    ctx.floor("F6a", 250, n, "(id->object lookups whose result is held in a variable)")


# ---------------------------------------------------------------------------------------
# F6b kind-before-cast


class F6b(PathAnalysis):
    def __init__(self, prog, params):
        super().__init__(prog)
        self.params = params
        self.sites = {}

    def init_user(self, func):
        return frozenset()

    def on_call_outcome(self, func, call, outcome, env, user):
        return user

    def on_assume(self, func, bid, cond, pol, env, user):
        c = strip(cond)
        if kind(c) == "bin" and c[1] in ("==", "!="):
            l, r = strip(c[2]), strip(c[3])
            if kind(r) == "call":
                l, r = r, l
            if kind(l) == "call" and l[1] == "HAatom_group" and l[3] and kind(r) == "int":
                eq = (c[1] == "==") == pol
                p = path(l[3][0])
                if p and eq:
                    return user | {(p, r[2] if len(r) > 2 else str(r[1]))}
        return user

    def on_switch_edge(self, func, bid, cond, case, env, user):
        c = strip(cond) if cond is not None else None
        if c is not None and kind(c) == "call" and c[1] == "HAatom_group" and case and case.get("name"):
            p = path(c[3][0])
            if p:
                return user | {(p, case["name"])}
        return user

    def on_stmt(self, func, bid, idx, stmt, env, user):
        for n in walk(stmt["e"]):
            if n[0] == "asg" and n[1] == "=":
                r = strip(n[3])
                if kind(r) == "call" and r[1] == "HAatom_object" and r[3]:
                    a = strip(r[3][0])
                    if kind(a) == "var" and a[2] == "p" and a[1] in self.params:
                        t = n[5].replace("*", "").replace("struct ", "").strip()
                        groups = {g for (p, g) in user if p == a[1]}
                        k = (a[1], t)
                        cur = self.sites.get(k)
                        want = REC_GROUP.get(t)
                        ok = want is not None and want in groups
                        if t not in REC_GROUP:
                            ok = None
                        if cur is None or (cur[0] and not ok):
                            self.sites[k] = [ok, n[4], sorted(groups)]
        return user


def rule_F6b(ctx):
    prog = ctx.prog
    n = 0
    by_layer = {}
    results = []
    for f in prog.lib_funcs():
        if not prog.is_public(f.name) or f.static:
            continue
        params = {p[0] for p in f.params if prog.int_bits(p[1])}
        if not params:
            continue
        if not any(c[1] == "HAatom_object" for _, _, _, c in f.calls()):
            continue
        a = F6b(prog, params)
        a.run(f)
        for (pv, t), (ok, line, groups) in sorted(a.sites.items()):
            results.append((f, pv, t, ok, line, groups))
    import os
    unconf = set()
    up = os.path.join(os.path.dirname(os.path.dirname(os.path.abspath(__file__))), "rules", "f6b_unconfirmed.txt")
    if os.path.exists(up):
        unconf = {l.strip() for l in open(up) if l.strip() and not l.startswith("#")}
    for f, pv, t, ok, line, groups in results:
        n += 1
        key = "F6b:%s:%s:%s" % (f.name, pv, t)
        if ok is False and key in unconf:
            ctx.excepted("F6b", key, f.where(line), "no kind test, but the wrong-kind-id replay (triage/c13_wrong_kind_ids.c, 3 states) ended in a "
                         "failure return: not shown to misbehave, so neither listed as a finding nor armed")
            continue
        if ok is None:
            ctx.unrecognised("F6b", key, f.where(line), "object of record type %s looked up from a user id: no group is listed for it" % t)
        elif ok:
            ctx.holds("F6b", key, f.where(line), "HAatom_group(%s) == %s dominates the use as %s" % (pv, REC_GROUP[t], t))
        else:
            ctx.violated("F6b", key, f.where(line),
                         "the user-supplied id `%s` is looked up and used as %s with no dominating `HAatom_group(%s) == %s` test: an id of "
                         "another kind (e.g. a file id where an access id is expected) is type-confused" % (pv, t, pv, REC_GROUP[t]))
    ctx.floor("F6b", 150, n, "(public functions using a user id as a typed record)")


# ---------------------------------------------------------------------------------------
# F6d attach accounting: every created access id is counted in file_rec->attach exactly once,
# every endaccess un-counts it once, and Hclose refuses to tear down while attach > 0

F6D_EXCEPT = {
    "HBconvert": "converts an existing AID in place: by its own comment it does not get a new DD id nor increment the number of attached AIDs "
                 "(the buffered AID wraps the original one, which stays counted)",
}


def _callee(call):
    ce = strip(call[2])
    while kind(ce) == "deref":
        ce = strip(ce[1])
    return ce


class Attach(PathAnalysis):
    def __init__(self, prog, delta_op):
        super().__init__(prog)
        self.op = delta_op
        self.exits = []

    def init_user(self, func):
        return (0, 0)  # (attach changes, AIDs registered / removed)

    def on_stmt(self, func, bid, idx, stmt, env, user):
        cnt, reg = user
        for n in walk(stmt["e"]):
            if n[0] == "incdec" and n[1] == self.op and mem_field(n[3]) == ("filerec_t", "attach"):
                cnt = min(cnt + 1, 2)
            elif n[0] == "call" and n[1] is None and self.op == "--" and mem_field(_callee(n)) == ("funclist_t", "endaccess"):
                cnt = min(cnt + 1, 2)  # delegated to the special element's endaccess (each target is checked itself)
            elif n[0] == "call":
                if self.op == "++" and n[1] == "HAregister_atom" and n[3] and (strip(n[3][0])[2:3] == ["AIDGROUP"]):
                    reg = min(reg + 1, 2)
                elif self.op == "--" and n[1] == "HAremove_atom":
                    reg = min(reg + 1, 2)
        return (cnt, reg)

    def on_exit(self, func, bid, retval, env, user):
        self.exits.append((classify_ret(retval, self.fails), user))


def rule_F6d(ctx):
    prog = ctx.prog
    n = 0
    for f in prog.lib_funcs():
        creates = any(c[1] == "HAregister_atom" and c[3] and strip(c[3][0])[2:3] == ["AIDGROUP"] for _, _, _, c in f.calls())
        decs = any(nn[0] == "incdec" and nn[1] == "--" and mem_field(nn[3]) == ("filerec_t", "attach") for _, _, _, nn in f.nodes(True))
        if creates:
            n += 1
            key = "F6d:%s:attach++" % f.name
            if f.name in F6D_EXCEPT:
                ctx.excepted("F6d", key, f.where(), F6D_EXCEPT[f.name])
            else:
                a = Attach(prog, "++")
                a.fails = fail_values(f, prog)
                a.run(f)
                bad = [(u) for cls, u in a.exits if cls != "fail" and u[1] >= 1 and u[0] != u[1]]
                if bad:
                    ctx.violated("F6d", key, f.where(),
                                 "a non-failing path registers %d access id(s) but increments file_rec->attach %d time(s): Hclose's "
                                 "`attach > 0` test then lets the file be closed out from under a live access id (or never lets it close)" % (bad[0][1], bad[0][0]))
                else:
                    ctx.holds("F6d", key, f.where(), "every non-failing path that registers an AID increments file_rec->attach exactly once")
        if decs:
            n += 1
            key = "F6d:%s:attach--" % f.name
            a = Attach(prog, "--")
            a.fails = fail_values(f, prog)
            a.run(f)
            bad = [u for cls, u in a.exits if cls != "fail" and u[0] != 1]
            if bad:
                ctx.violated("F6d", key, f.where(), "a non-failing path decrements file_rec->attach %d time(s) (expected exactly once)" % bad[0][0])
            else:
                ctx.holds("F6d", key, f.where(), "every non-failing path decrements file_rec->attach exactly once")
    # endaccess slot functions must un-count (or be a listed wrapper)
    fp = prog.fp_targets().get(("funclist_t", "endaccess"), set())
    for nm in sorted(fp):
        f = prog.func(nm)
        if f is None or not f.rel.startswith("hdf/src/h"):
            continue
        decs = any(nn[0] == "incdec" and nn[1] == "--" and mem_field(nn[3]) == ("filerec_t", "attach") for _, _, _, nn in f.nodes(True))
        if not decs:
            key = "F6d:%s:attach--" % nm
            if nm == "HBPendaccess":
                ctx.excepted("F6d", key, f.where(), "buffered elements never counted a second AID (see HBconvert); the wrapped AID's own endaccess un-counts")
            elif nm.startswith("HCPc") or nm.startswith("HCPmstdio"):
                continue  # coder/model tables reuse funclist_t but are not special-element tables
            else:
                ctx.violated("F6d", key, f.where(), "endaccess function of a special element never decrements file_rec->attach")
    # Hclose: teardown only after the attach test
    hc = prog.func("Hclose")
    if hc is None:
        ctx.unrecognised("F6d", "F6d:Hclose", "-", "Hclose not found")
    else:
        class T(PathAnalysis):
            def init_user(s, func):
                return False

            def on_assume(s, func, bid, cond, pol, env, user):
                for x in walk(cond, True):
                    if x[0] == "mem" and (x[3], x[2]) == ("filerec_t", "attach"):
                        return True
                return user

            def on_stmt(s, func, bid, idx, stmt, env, user):
                for c in calls_in(stmt["e"]):
                    if c[1] in ("HTPend", "HIrelease_filerec_node", "HIsync", "HIextend_file") or (c[7] and c[7][0] == "HI_CLOSE"):
                        s.sites[c[1] or "HI_CLOSE"] = s.sites.get(c[1], True) and user
                return user
        t = T(prog)
        t.sites = {}
        t.run(hc)
        n += 1
        bad = [k for k, v in t.sites.items() if not v]
        if not t.sites:
            ctx.unrecognised("F6d", "F6d:Hclose", hc.where(), "no teardown calls recognised in Hclose")
        elif bad:
            ctx.violated("F6d", "F6d:Hclose", hc.where(), "Hclose reaches %s on a path that has not tested file_rec->attach: a file can be closed "
                         "out from under attached access elements" % ", ".join(bad))
        else:
            ctx.holds("F6d", "F6d:Hclose", hc.where(), "teardown (%s) only after the `file_rec->attach > 0` test" % ", ".join(sorted(t.sites)))
    ctx.floor("F6d", 18, n, "(AID creators / endaccess functions / Hclose)")


# ---------------------------------------------------------------------------------------
# F6c atom-cache coherence

CACHE_GLOBALS = ("atom_id_cache", "atom_obj_cache")
CACHE_WRITERS = {"HAatom_object", "HAIfind_atom", "HAremove_atom", "HAdestroy_group", "HAPatom_object", "HAinit_group", "HAshutdown"}


def rule_F6c(ctx):
    prog = ctx.prog
    n = 0
    writers = {}
    for f in prog.lib_funcs():
        for bid, i, s, nn in f.nodes(True):
            if nn[0] == "asg":
                t = strip(nn[2])
                b = t
                while kind(b) == "idx":
                    b = strip(b[1])
                if kind(b) == "var" and b[1] in CACHE_GLOBALS:
                    writers.setdefault(f.name, f)
    for nm, f in sorted(writers.items()):
        n += 1
        key = "F6c:writer:%s" % nm
        if nm in CACHE_WRITERS:
            ctx.holds("F6c", key, f.where(), "atom cache written by a designated atom-table function", nontrivial=False)
        else:
            ctx.violated("F6c", key, f.where(), "the atom id/object cache is written outside atom.c's designated functions")
    # HAremove_atom: every non-failing path that unlinks a node purges the cache
    for fname, what in (("HAremove_atom", "unlinked atom"), ("HAdestroy_group", "destroyed group")):
        f = prog.func(fname)
        if f is None:
            ctx.unrecognised("F6c", "F6c:%s" % fname, "-", "not found")
            continue
        n += 1
        has_purge = any(nn[0] == "asg" and kind(strip(nn[2])) == "idx" and kind(strip(strip(nn[2])[1])) == "var" and
                        strip(strip(nn[2])[1])[1] in CACHE_GLOBALS for _, _, _, nn in f.nodes(True))
        if fname == "HAremove_atom":
            class P(PathAnalysis):
                def init_user(s, func):
                    return (False, False)  # (node unlinked, cache scanned)

                def on_stmt(s, func, bid, idx, stmt, env, user):
                    unl, scan = user
                    for x in walk(stmt["e"]):
                        if x[0] == "asg" and mem_field(x[2]) in (("atom_info_t", "next"), ("atom_info_struct_tag", "next")):
                            unl = True
                        if x[0] == "asg":
                            t = strip(x[2])
                            if kind(t) == "idx" and kind(strip(t[1])) == "var" and strip(t[1])[1] in CACHE_GLOBALS:
                                scan = True
                        if x[0] == "mem" and x[2] == "next":
                            pass
                    return (unl, scan)

                def on_assume(s, func, bid, cond, pol, env, user):
                    # the purge loop compares atom_id_cache[i] with the id: reaching that comparison = cache scanned
                    for x in walk(cond, True):
                        if x[0] == "var" and x[1] in CACHE_GLOBALS:
                            return (user[0], True)
                    return user

                def on_exit(s, func, bid, retval, env, user):
                    s.exits.append((classify_ret(retval, s.fails), user))
            a = P(prog)
            a.exits = []
            a.fails = fail_values(f, prog)
            a.run(f)
            ok_paths = [u for cls, u in a.exits if cls != "fail"]
            bad = [u for u in ok_paths if not u[1]]
            key = "F6c:HAremove_atom:purge"
            if not ok_paths:
                ctx.unrecognised("F6c", key, f.where(), "no non-failing exit")
            elif bad:
                ctx.violated("F6c", key, f.where(), "a non-failing path removes the atom without scanning the id/object cache for it: a released id "
                             "would still be served from the cache (stale handle accepted)")
            else:
                ctx.holds("F6c", key, f.where(), "every non-failing path scans the cache for the removed id")
        else:
            key = "F6c:%s:purge" % fname
            if has_purge:
                ctx.holds("F6c", key, f.where(), "purges cache slots of the destroyed group")
            else:
                ctx.violated("F6c", key, f.where(), "destroying a group does not purge its ids from the atom cache")
    ctx.floor("F6c", 3, n, "(atom cache writers and purge sites)")


# ---------------------------------------------------------------------------------------
# SD identifiers: every constructor must place the file slot / type where SDIhandle_from_id decodes them


def _terms(e):
    e = strip(e)
    if kind(e) == "bin" and e[1] in ("+", "|"):
        return _terms(e[2]) + _terms(e[3])
    return [e]


def rule_sdid_layout(ctx):
    prog = ctx.prog
    dec = prog.func("SDIhandle_from_id")
    if dec is None:
        ctx.unrecognised("SDID", "SDID:decoder", "-", "SDIhandle_from_id not found")
        return
    fields = {}  # shift -> mask
    for bid, i, s, n in dec.nodes(True):
        if n[0] == "bin" and n[1] == "&" and is_int(n[3]):
            l = strip(n[2])
            if kind(l) == "bin" and l[1] == ">>" and is_int(l[3]):
                fields[int_val(l[3])] = int_val(n[3])
    if 20 not in fields or 16 not in fields:
        ctx.unrecognised("SDID", "SDID:decoder", dec.where(), "expected `(id >> 20) & M` and `(id >> 16) & M` in the decoder, found %s" % fields)
        return
    slot_mask = fields[20] << 20
    n_sites = 0
    for f in prog.lib_funcs():
        if not f.rel.startswith("mfhdf/src/"):
            continue
        ordn = 0
        for bid, i, s, n in f.nodes(True):
            if n[0] != "asg" or n[1] != "=":
                continue
            terms = _terms(n[3])
            if len(terms) < 2:
                continue
            has_type = any(kind(strip(t)) == "int" and (int_val(t) & ~(fields[16] << 16)) == 0 and int_val(t) != 0 and (int_val(t) >> 16) != 0 for t in terms) or \
                any(kind(strip(t)) == "bin" and strip(t)[1] == "<<" and is_int(strip(t)[3], 16) for t in terms)
            if not has_type:
                continue
            ordn += 1
            n_sites += 1
            key = "SDID:%s:%d" % (f.name, ordn)
            problems = []
            slot_seen = False
            for t in terms:
                t = strip(t)
                if kind(t) == "bin" and t[1] == "<<" and is_int(t[3], 20):
                    slot_seen = True
                    x = strip(t[2])
                    if kind(x) == "bin" and x[1] == "&" and is_int(x[3]) and (int_val(x[3]) & fields[20]) != fields[20]:
                        problems.append("file slot masked with 0x%x before the shift, the decoder reads 0x%x" % (int_val(x[3]), fields[20]))
                elif kind(t) == "bin" and t[1] == "&" and is_int(t[3]) and (int_val(t[3]) & 0xffff0000):
                    slot_seen = True
                    k = int_val(t[3]) & 0xffffffff
                    if (k & slot_mask) != slot_mask or (k & ~slot_mask & 0xffffffff):
                        problems.append("file slot copied with mask 0x%x, the decoder reads bits 0x%x" % (k, slot_mask))
            if not slot_seen:
                continue
            if problems:
                ctx.violated("SDID", key, f.where(n[4]), "SD identifier built inconsistently with SDIhandle_from_id: %s — ids of files in high "
                             "slots designate objects of another open file" % "; ".join(problems))
            else:
                ctx.holds("SDID", key, f.where(n[4]), "file slot and type fields placed as the decoder reads them (slot mask 0x%x)" % fields[20])
    ctx.floor("SDID", 3, n_sites, "(SD id constructors)")


def rule_slot_table_copy(ctx):
    """SLOTCOPY (C13): SD file ids are positions in the `_cdfs` table.  Whenever entries of `_cdfs` are copied into another table
    (re-allocation in NC_reset_maxopenfiles), source and destination use the same index expression; a compacting copy
    (`new[k++] = _cdfs[i]`) would give every open file above a free slot a new position, i.e. invalidate or redirect its id."""
    prog = ctx.prog
    n = 0
    for f in prog.lib_funcs():
        for _b, _i, st, x in f.nodes(True):
            if x[0] != "asg" or x[1] != "=":
                continue
            l, r = strip(x[2]), strip(x[3])
            if kind(l) != "idx" or kind(r) != "idx":
                continue
            rb = strip(r[1])
            if not (kind(rb) == "var" and rb[1] == "_cdfs"):
                continue
            lb = strip(l[1])
            if kind(lb) == "var" and lb[1] == "_cdfs":
                continue
            n += 1
            key = "SLOTCOPY:%s" % f.name
            if render(strip(l[2])) == render(strip(r[2])):
                ctx.holds("SLOTCOPY", key, f.where(x[4]), "`%s`: positions preserved" % render(x)[:60], nontrivial=True)
            else:
                ctx.violated("SLOTCOPY", key, f.where(x[4]), "`%s` moves open files to new positions of the file table: the SD file ids already handed out are positions in that table" % render(x)[:70])
    ctx.floor("SLOTCOPY", 1, n, "(copies out of the _cdfs table)")
    return n


def rule_table_bound_reset(ctx):
    """TABLEFREE (C13): ids that index a global table are validated as `id < N ? G[id] : NULL` with N a global count of positions
    in use.  A routine that releases the table (`free(G)` / `G = NULL`) must reset N in the same breath; otherwise every id below
    the stale N is looked up through the NULL (or freed) table — a stale id crashes instead of being rejected."""
    from .facts import kind, strip, walk, render, base_var, is_int
    prog = ctx.prog
    pairs = set()
    gl = lambda e: kind(strip(e)) == "var" and strip(e)[2] in ("g", "s")  # global / file-static
    for f in prog.lib_funcs():
        for _b, _i, _s, x in f.nodes(True):
            if x[0] != "cond":
                continue
            bounds = [strip(y[3])[1] for y in walk(x[1], True) if y[0] == "bin" and y[1] == "<" and gl(y[3])]
            tabs = [strip(y[1])[1] for y in walk(x[2], True) if y[0] == "idx" and gl(y[1])]
            for g in tabs:
                for nvar in bounds:
                    pairs.add((g, nvar, f.tu))
    n = 0
    for g, nvar, tu in sorted(pairs):
        for f in prog.lib_funcs():
            if f.tu != tu:
                continue
            frees = [x for _b, _i, _s, x in f.nodes(True) if x[0] == "asg" and x[1] == "=" and kind(strip(x[2])) == "var" and strip(x[2])[1] == g and is_int(x[3], 0)]
            if not frees:
                continue
            n += 1
            key = "TABLEFREE:%s:%s" % (f.name, g)
            resets = [x for _b, _i, _s, x in f.nodes(True) if x[0] == "asg" and x[1] == "=" and kind(strip(x[2])) == "var" and strip(x[2])[1] == nvar]
            if resets:
                ctx.holds("TABLEFREE", key, f.where(frees[0][4]), "`%s = NULL` comes with `%s`" % (g, render(resets[0])[:30]), nontrivial=True)
            else:
                ctx.violated("TABLEFREE", key, f.where(frees[0][4]), "%s releases the table `%s` but leaves its bound `%s` as it was: ids below the stale bound are then looked up through the NULL table" % (f.name, g, nvar))
    ctx.floor("TABLEFREE", 1, n, "(routines that release an id-indexed global table)")
    return n


class _SelfCmp(PathAnalysis):
    """user = frozenset of (variable, rendered expression it was last assigned from)"""

    def __init__(self, prog):
        super().__init__(prog)
        self.hits = {}
        self.seen = set()

    def init_user(self, func):
        return frozenset()

    def on_stmt(self, func, bid, idx, stmt, env, user):
        from .facts import kind, strip, walk, render
        u = dict(user)
        for x in walk(stmt["e"]):
            if x[0] == "asg" and kind(strip(x[2])) == "var":
                v = strip(x[2])[1]
                r = strip(x[3])
                if x[1] == "=" and kind(r) == "mem":
                    u[v] = render(r)
                else:
                    u.pop(v, None)
            elif x[0] == "asg" and kind(strip(x[2])) == "mem":
                # a store to the field invalidates copies of it
                tr = render(strip(x[2]))
                for v in [v for v, e in u.items() if e == tr]:
                    u.pop(v)
            elif x[0] == "call":
                pass
        return frozenset(u.items())

    def on_assume(self, func, bid, cond, pol, env, user):
        from .facts import kind, strip, render
        c = strip(cond)
        if kind(c) == "bin" and c[1] in ("!=", "=="):
            l, r = strip(c[2]), strip(c[3])
            u = dict(user)
            for a, b in ((l, r), (r, l)):
                if kind(a) == "var" and kind(b) == "mem":
                    key = (render(c), c[4] if len(c) > 4 else 0)
                    self.seen.add(key)
                    if u.get(a[1]) == render(b):
                        self.hits.setdefault(key, set()).add(True)
                    else:
                        self.hits.setdefault(key, set()).add(False)
        return user


def rule_cross_object_compare(ctx):
    """SELFCMP (C13): the V interface refuses to link objects of different files (`if (vg->f != newfid) DFE_DIFFFILES`).  Such a
    guard compares a field of one object with a local that must have been loaded from the *other* object.  If, on some path, the
    local was loaded from the very field it is compared with, the guard is vacuous on that path: an identifier issued for
    another file is accepted."""
    from .facts import render
    prog = ctx.prog
    n = 0
    for f in prog.lib_funcs():
        if not f.rel.endswith(("vgp.c", "vio.c", "vattr.c", "vg.c", "vsfld.c")):
            continue
        a = _SelfCmp(prog)
        a.fails = fail_values(f, prog)
        try:
            a.run(f)
        except Exception:
            continue
        for key, outcomes in sorted(a.hits.items()):
            n += 1
            k = "SELFCMP:%s:%s" % (f.name, key[0][:40])
            if True in outcomes:
                ctx.violated("SELFCMP", k, f.where(), "`%s` compares a field with a local that, on some path, was loaded from that same field: the test cannot fail there and objects of "
                             "different files (or kinds) are accepted" % key[0][:70])
            else:
                ctx.holds("SELFCMP", k, f.where(), "`%s` compares values of two different objects on every path" % key[0][:60], nontrivial=True)
    ctx.floor("SELFCMP", 1, n, "(comparisons of an object's field with a local loaded from a field)")
    return n


def rule_cache_full_scan(ctx):
    """FULLSCAN (C13): the atom layer keeps the last looked-up ids in a small fixed array (the lookup cache).  Releasing an id
    must purge it from *every* slot; a loop over the cache that runs over a constant number of slots therefore runs over exactly
    the array's dimension.  A shorter scan leaves a released id (with its object pointer) resolvable through the slot that was
    skipped — the stale id then designates a freed or recycled object."""
    import re
    from .codec import ast_walk, ast_exprs
    from .facts import kind, strip, walk, is_int, int_val, render
    prog = ctx.prog
    G = {}
    for name, gl in prog.globals.items():
        for g in gl:
            m = re.fullmatch(r".*\[(\d+)\]", g.get("type", ""))
            if m and g.get("file", "").endswith("atom.c"):
                G[name] = int(m.group(1))
    n = 0
    for f in prog.lib_funcs():
        if not f.rel.endswith("atom.c"):
            continue
        loops = []

        def vis(nn, st):
            if nn[0] == "for" and nn[2] is not None:
                c = strip(nn[2])
                if kind(c) == "bin" and c[1] in ("<", "<=") and kind(strip(c[2])) == "var":
                    loops.append((nn, strip(c[2])[1], c))
            return True
        ast_walk(f.raw.get("ast"), vis)
        ordn = 0
        for lp, iv, c in loops:
            arrs = {strip(x[1])[1] for e in ast_exprs(lp[4]) for x in walk(e, True)
                    if x[0] == "idx" and kind(strip(x[1])) == "var" and strip(x[1])[1] in G and kind(strip(x[2])) == "var" and strip(x[2])[1] == iv}
            if not arrs:
                continue
            ordn += 1
            n += 1
            key = "FULLSCAN:%s#%d" % (f.name, ordn)
            dim = min(G[a] for a in arrs)
            bound = strip(c[3])
            if not is_int(bound):
                ctx.unrecognised("FULLSCAN", key, f.where(lp[5] if len(lp) > 5 else None), "cache loop bounded by `%s`, not by a constant" % render(bound)[:30])
                continue
            cnt = int_val(bound) + (1 if c[1] == "<=" else 0)
            if cnt == dim:
                ctx.holds("FULLSCAN", key, f.where(), "loop over %s covers all %d slots" % ("/".join(sorted(arrs)), dim), nontrivial=True)
            else:
                ctx.violated("FULLSCAN", key, f.where(), "the loop over the lookup cache (%s, %d slots) runs over %d slot(s): %s" % (
                    "/".join(sorted(arrs)), dim, cnt, "a released id stays resolvable through the slot that is skipped" if cnt < dim else "it runs past the array"))
    ctx.floor("FULLSCAN", 2, n, "(loops over the atom lookup cache)")
    return n


class _RelKey(PathAnalysis):
    def __init__(self, prog, param):
        super().__init__(prog)
        self.param = param
        self.exits = []

    def init_user(self, func):
        return False

    def on_stmt(self, func, bid, idx, stmt, env, user):
        from .facts import kind, strip
        for c in calls_in(stmt["e"]):
            if c[1] == "HAremove_atom" and c[3] and kind(strip(c[3][0])) == "var" and strip(c[3][0])[1] == self.param:
                user = True
        return user

    def on_exit(self, func, bid, retval, env, user):
        self.exits.append((classify_ret(retval, self.fails), user))


def rule_release_removes_key(ctx):
    """RELKEY (C13): a routine whose job is to release the identifier it is given (it calls HAremove_atom on its own id parameter)
    removes that identifier on *every* non-failing path.  Objects that can be reached through several identifiers (a Vdata attached
    twice for reading, a GR interface started twice) count their users; the path 'others are still using it, nothing to tear down'
    must release the caller's identifier all the same, or the identifier stays valid after its release and outlives the object
    when the last user tears it down."""
    prog = ctx.prog
    n = 0
    for f in prog.lib_funcs():
        if not f.params or not prog.is_public(f.name):
            continue
        p0 = f.params[0][0]
        from .facts import kind, strip
        if not any(c[1] == "HAremove_atom" and c[3] and kind(strip(c[3][0])) == "var" and strip(c[3][0])[1] == p0 for _b, _i, _s, c in f.calls()):
            continue
        a = _RelKey(prog, p0)
        a.fails = fail_values(f, prog)
        try:
            a.run(f)
        except Exception:
            continue
        n += 1
        key = "RELKEY:%s" % f.name
        ok = [u for cls, u in a.exits if cls != "fail"]
        if not ok:
            ctx.unrecognised("RELKEY", key, f.where(), "no non-failing exit")
        elif all(ok):
            ctx.holds("RELKEY", key, f.where(), "`%s` is removed from the atom table on every non-failing path" % p0, nontrivial=len(ok) > 1)
        else:
            ctx.violated("RELKEY", key, f.where(), "%s returns success on a path that does not remove `%s` from the atom table: the released identifier stays valid "
                         "(and dangles once the shared object is torn down by its last user)" % (f.name, p0))
    ctx.floor("RELKEY", 6, n, "(public routines that release their identifier)")
    return n


def rule_borrowed_accrec_not_released(ctx):
    """ACCRECOWN (C13, C16): an access record is owned by its access id.  A routine that only *looks the record up* from an id it was
    given (`rec = HAatom_object(aid)`) has borrowed it: it may release the record (HIrelease_accrec_node) only if it also takes the
    id out of the atom table (HAremove_atom(aid)), as the end-access routines do.  Releasing a borrowed record on an error path
    leaves a registered id pointing at a record on the free list: the caller's Hendaccess releases it a second time and two later
    access ids share one record."""
    from .facts import kind, strip, base_var
    prog = ctx.prog
    n = 0
    pop = 0
    for f in prog.lib_funcs():
        params = {p[0] for p in f.params}
        borrowed = {}
        for _b, _i, _s, x in f.nodes(True):
            if x[0] == "asg" and x[1] == "=" and kind(strip(x[2])) == "var":
                r = strip(x[3])
                if kind(r) == "call" and r[1] == "HAatom_object" and r[3] and kind(strip(r[3][0])) == "var" and strip(r[3][0])[1] in params:
                    borrowed[strip(x[2])[1]] = strip(r[3][0])[1]
        if not borrowed:
            continue
        pop += 1
        rel = [c for _b, _i, _s, c in f.calls() if c[1] == "HIrelease_accrec_node" and c[3] and base_var(c[3][0]) in borrowed]
        if not rel:
            continue
        for c in rel:
            n += 1
            v = base_var(c[3][0])
            key = "ACCRECOWN:%s:%s" % (f.name, v)
            removed = any(k[1] == "HAremove_atom" and k[3] and base_var(k[3][0]) == borrowed[v] for _b, _i, _s, k in f.calls())
            if removed:
                ctx.holds("ACCRECOWN", key, f.where(c[5]), "the id `%s` is removed from the atom table by the same routine" % borrowed[v], nontrivial=True)
            else:
                ctx.violated("ACCRECOWN", key, f.where(c[5]), "%s releases the access record it looked up from its caller's id `%s` without removing that id: the id stays valid and its record is released "
                             "a second time by the caller" % (f.name, borrowed[v]))
    ctx.holds("ACCRECOWN", "ACCRECOWN:population", "-", "%d routines look a record up from a caller's id; %d of them release one" % (pop, n), nontrivial=False)
    ctx.floor("ACCRECOWN", 30, pop, "(routines that look a record up from a caller's id)")
    return n


class _AttachExcl(PathAnalysis):
    """user = frozenset of 'L' (an existing instance was looked up with vsinst/vginst), 'Z' (its attach count is known to be 0 on this
    path), 'B' (a store to the shared access id happened with L and without Z)"""

    def __init__(self, prog, lookup, count, shared):
        super().__init__(prog)
        self.lookup, self.count, self.shared = lookup, count, shared
        self.sites = {}

    def init_user(self, func):
        return frozenset()

    def on_stmt(self, func, bid, idx, stmt, env, user):
        from .facts import kind, strip
        u = set(user)
        for x in walk(stmt["e"]):
            if x[0] == "call" and x[1] in self.lookup:
                u.add("L")
                u.discard("Z")
            elif x[0] == "asg" and x[1] == "=" and (mem_field(x[2]) or (0, 0))[1] == self.shared:
                if "L" in u:
                    line = stmt.get("l", 0)
                    self.sites[line] = self.sites.get(line, True) and ("Z" in u)
            elif x[0] == "asg" and (mem_field(x[2]) or (0, 0))[1] == self.count:
                u.discard("Z")
            elif x[0] == "incdec" and (mem_field(x[3]) or (0, 0))[1] == self.count:
                u.discard("Z")
        return frozenset(u)

    def on_assume(self, func, bid, cond, pol, env, user):
        from .facts import kind, strip, is_int
        c = strip(cond)
        zero = None
        if (mem_field(c) or (0, 0))[1] == self.count:
            zero = not pol
        elif kind(c) == "bin" and c[1] in ("==", "!=", ">") and (mem_field(c[2]) or (0, 0))[1] == self.count and is_int(c[3], 0):
            zero = (pol if c[1] == "==" else not pol)
        elif kind(c) == "un" and c[1] == "!" and (mem_field(c[2]) or (0, 0))[1] == self.count:
            zero = pol
        if zero:
            return frozenset(set(user) | {"Z"})
        return user


def rule_attach_exclusive(ctx):
    """ATTACHEXCL (C13): all ids of one Vdata share one instance record, and the instance holds *one* access element (`vs->aid`) and one
    access mode.  VSattach may therefore start a new access element for an instance it found in the table only when nothing is
    attached to it (`nattach == 0` on that path); otherwise it replaces the element the outstanding ids are using — a reader starts
    reading at record 0 again, a read id can write, the replaced element is never ended and Hclose fails after every id was
    released.  (Sharing an existing *read* attachment does not store into vs->aid and is not an instance.)"""
    prog = ctx.prog
    f = prog.func("VSattach")
    if f is None:
        ctx.unrecognised("ATTACHEXCL", "ATTACHEXCL:VSattach", "-", "VSattach not found")
        return 0
    a = _AttachExcl(prog, {"vsinst"}, "nattach", "aid")
    a.fails = fail_values(f, prog)
    a.run(f)
    for i, (line, ok) in enumerate(sorted(a.sites.items())):
        key = "ATTACHEXCL:VSattach#%d" % (i + 1)
        if ok:
            ctx.holds("ATTACHEXCL", key, f.where(line), "the shared access id of a looked-up instance is replaced only on paths where its attach count is 0", nontrivial=True)
        else:
            ctx.violated("ATTACHEXCL", key, f.where(line), "VSattach stores a new access element into `vs->aid` of an instance found in the table on a path where that instance may still be attached "
                         "(nattach not known to be 0): the outstanding ids of that Vdata now use the wrong access element and mode")
    ctx.floor("ATTACHEXCL", 2, len(a.sites), "(stores to the shared access id of a looked-up Vdata instance)")
    return len(a.sites)


def rule_group_check_is_not_lookup(ctx):
    """GROUPONLY (C13): HAatom_group(id) reads the group number out of the id's bits; it says nothing about whether the id is (still)
    registered.  A public routine that validates an id parameter with HAatom_group must therefore also look it up
    (HAatom_object / HAremove_atom on that id, in the routine itself) before it can answer with success: otherwise a released
    id is accepted whenever no later step happens to need the object."""
    from .facts import kind, strip
    prog = ctx.prog
    n = 0
    LOOK = {"HAatom_object", "HAPatom_object", "HAremove_atom"}
    for f in prog.lib_funcs():
        if not prog.is_public(f.name):
            continue
        params = {q[0] for q in f.params}
        grp, obj = {}, set()
        for _b, _i, s, c in f.calls():
            if not c[3] or kind(strip(c[3][0])) != "var":
                continue
            v = strip(c[3][0])[1]
            if c[1] == "HAatom_group" and v in params:
                grp.setdefault(v, s.get("l", f.line))
            elif c[1] in LOOK:
                obj.add(v)
        for v, line in sorted(grp.items()):
            n += 1
            key = "GROUPONLY:%s:%s" % (f.name, v)
            if v in obj:
                ctx.holds("GROUPONLY", key, f.where(line), "`%s` is looked up in the atom table, not only classified by its group bits" % v, nontrivial=True)
            else:
                ctx.violated("GROUPONLY", key, f.where(line), "%s validates `%s` with HAatom_group only and never looks it up: an id that was released (or never issued) with the right group bits is accepted" % (f.name, v))
    ctx.floor("GROUPONLY", 60, n, "(public routines that classify an id parameter with HAatom_group)")
    return n


_CLOSERS = ("fclose", "close", "HI_CLOSE", "hi_close_stdio")


def _is_rec_stream(a):
    from .facts import kind, strip
    a = strip(a)
    if kind(a) == "addr":
        a = strip(a[1])
    return (mem_field(a) or (0, 0)) == ("filerec_t", "file")


class _SwapStream(PathAnalysis):
    """user: True once a replacement stream has been opened (fopen seen) on this path"""

    def __init__(self, prog):
        super().__init__(prog)
        self.sites = {}

    def init_user(self, func):
        return False

    def on_stmt(self, func, bid, idx, stmt, env, user):
        u = user
        for x in walk(stmt["e"]):
            if x[0] == "call" and x[1] in ("fopen", "open", "HI_OPEN"):
                u = True
            elif x[0] == "call" and x[1] in _CLOSERS and x[3] and _is_rec_stream(x[3][0]):
                line = stmt.get("l", 0)
                self.sites[line] = self.sites.get(line, True) and u
        return u


def rule_replacement_opened_first(ctx):
    """SWAPSTREAM (C13): all ids of an open file share one file record and its one OS stream.  A routine that *replaces* that stream
    (Hopen upgrading a file that is open read-only to read/write) may close the old stream only after the replacement has been
    opened: if it closes first and the open then fails, it returns FAIL to its caller and leaves every id that was already
    issued on that file with a closed stream — the earlier, valid file id no longer designates a usable file."""
    prog = ctx.prog
    n = 0
    for f in prog.lib_funcs():
        if not f.rel.endswith("hfile.c"):
            continue
        closes = [c for _b, _i, _s, c in f.calls() if c[1] in _CLOSERS and c[3] and _is_rec_stream(c[3][0])]
        stores = [x for _b, _i, _s, x in f.nodes(True) if x[0] == "asg" and x[1] == "=" and mem_field(x[2]) == ("filerec_t", "file") and kind(strip(x[3])) == "var"]
        if not closes or not stores:
            continue
        a = _SwapStream(prog)
        a.fails = fail_values(f, prog)
        a.run(f)
        for i, (line, ok) in enumerate(sorted(a.sites.items())):
            n += 1
            key = "SWAPSTREAM:%s#%d" % (f.name, i + 1)
            if ok:
                ctx.holds("SWAPSTREAM", key, f.where(line), "the record's stream is closed only on paths that have already opened its replacement", nontrivial=True)
            else:
                ctx.violated("SWAPSTREAM", key, f.where(line), "%s closes the file record's stream before the replacement stream has been opened: when that open fails the ids already issued on the file are left with a closed stream" % f.name)
    ctx.floor("SWAPSTREAM", 1, n, "(routines that replace the stream of a live file record)")
    return n


def rule_end_removes_outstanding_ids(ctx):
    """ENDDANGLE (C13): the per-file state of an interface keeps its objects in a tree, and ids for those objects are atoms whose
    object pointer is the tree node (the routine that hands an id out both finds/inserts the node in the tree and registers it).
    The routine that ends the interface for one file destroys the tree; ids that are still outstanding then point at freed or
    recycled nodes.  It must therefore take those ids out of the atom table — in the destroy callback, with a search of the
    group, or by destroying the group.  Trees whose destroyers only run at library shutdown next to HAdestroy_group, and the
    clean-up of a tree the same routine is still building, are not instances."""
    from .facts import kind, strip, render, int_name
    prog = ctx.prog
    assoc = {}
    for f in prog.lib_funcs():
        node_of = {}  # variable -> tree it is a node of
        found = {}  # variable holding a tbbtdfind result -> tree
        for _b, _i, _s, x in f.nodes(True):
            if x[0] == "call" and x[1] == "tbbtdins" and len(x[3]) > 1 and mem_field(x[3][0]) and kind(strip(x[3][1])) == "var":
                node_of[strip(x[3][1])[1]] = mem_field(x[3][0])
            elif x[0] == "asg" and x[1] == "=" and kind(strip(x[2])) == "var":
                r = strip(x[3])
                if kind(r) == "call" and r[1] == "tbbtdfind" and r[3] and mem_field(r[3][0]):
                    found[strip(x[2])[1]] = mem_field(r[3][0])
                elif kind(r) == "deref" and kind(strip(r[1])) == "var" and strip(r[1])[1] in found:
                    node_of[strip(x[2])[1]] = found[strip(r[1])[1]]
        for _b, _i, _s, c in f.calls():
            if c[1] == "HAregister_atom" and len(c[3]) > 1 and kind(strip(c[3][1])) == "var" and strip(c[3][1])[1] in node_of:
                assoc.setdefault(node_of[strip(c[3][1])[1]], set()).add(int_name(c[3][0]) or render(c[3][0]))
    n = 0
    for f in prog.lib_funcs():
        names = {c[1] for _b, _i, _s, c in f.calls()}
        if names & {"HAregister_atom", "HAinit_group"}:
            continue  # still building: clean-up of a tree no id was handed out for yet
        for _b, _i, s, c in f.calls():
            if c[1] != "tbbtdfree" or not c[3] or mem_field(c[3][0]) not in assoc:
                continue
            tree = mem_field(c[3][0])
            cb = strip(c[3][1]) if len(c[3]) > 1 else None
            cbn = cb[1] if kind(cb) in ("var", "fn") else (render(cb) if cb is not None else "")
            cbf = prog.func(cbn, f.tu) if cbn else None
            cb_calls = {k[1] for _b2, _i2, _s2, k in cbf.calls()} if cbf else set()
            for g in sorted(assoc[tree]):
                covered = ("HAremove_atom" in cb_calls) or ("HAsearch_atom" in names) or any(k[1] == "HAdestroy_group" and k[3] and (int_name(k[3][0]) or render(k[3][0])) == g for _b2, _i2, _s2, k in f.calls())
                # a node destructor of an *enclosing* tree (called as a tbbtdfree callback itself) runs at shutdown
                is_callback = any(k[1] == "tbbtdfree" and len(k[3]) > 1 and f.name in render(k[3][1]) for g2 in prog.lib_funcs() for _b2, _i2, _s2, k in g2.calls())
                if is_callback:
                    continue
                n += 1
                key = "ENDDANGLE:%s:%s:%s" % (f.name, tree[1], g)
                if covered:
                    ctx.holds("ENDDANGLE", key, f.where(s.get("l", f.line)), "%s takes the outstanding %s ids out of the atom table when it destroys %s" % (f.name, g, tree[1]), nontrivial=True)
                else:
                    ctx.violated("ENDDANGLE", key, f.where(s.get("l", f.line)), "%s destroys the tree `%s` whose nodes are registered as %s ids, and neither it nor its destroy callback %s() removes those ids: an id that is still open afterwards "
                                 "points at a freed or recycled node" % (f.name, tree[1], g, cbn))
    ctx.floor("ENDDANGLE", 3, n, "(per-file interface trees destroyed while their nodes are registered as ids)")
    return n


def rule_table_shrink_keeps_highwater(ctx):
    """HIGHWATER (C13): SD file ids are positions in the table `_cdfs`; the global high-water mark of used positions bounds every
    walk over the table in the other routines (`for (i = 0; i < H; i++) .. _cdfs[i]`).  The one routine that replaces the table
    by one of another size must refuse a size below that high-water mark — the count of *open* files says nothing about where
    they sit — or the other routines index past the new allocation and the ids of files in the dropped positions turn invalid
    while the files are still open."""
    from .facts import kind, strip, walk, render
    prog = ctx.prog
    marks = {}
    for f in prog.lib_funcs():
        if not f.rel.startswith("mfhdf/src/"):
            continue
        for b in f.blocks.values():
            t = b.get("term")
            if not t or t.get("cond") is None:
                continue
            for c in walk(t["cond"], True):
                if c[0] == "bin" and c[1] in ("<", "<=") and kind(strip(c[2])) == "var" and kind(strip(c[3])) == "var" and strip(c[3])[2] == "g":
                    iv, hv = strip(c[2])[1], strip(c[3])[1]
                    if any(x[0] == "idx" and kind(strip(x[1])) == "var" and strip(x[1])[1] == "_cdfs" and kind(strip(x[2])) == "var" and strip(x[2])[1] == iv for _b, _i, _s, x in f.nodes(True)):
                        marks.setdefault(hv, set()).add(f.name)
    n = 0
    for f in prog.lib_funcs():
        if not f.rel.startswith("mfhdf/src/"):
            continue
        repl = [x for _b, _i, _s, x in f.nodes(True) if x[0] == "asg" and x[1] == "=" and kind(strip(x[2])) == "var" and strip(x[2])[1] == "_cdfs" and kind(strip(x[3])) == "var"]
        if not repl:
            continue
        params = {q[0] for q in f.params}
        for hv, users in sorted(marks.items()):
            if hv.endswith("_size") or users == {f.name}:
                continue
            n += 1
            key = "HIGHWATER:%s:%s" % (f.name, hv)
            ok = False
            for b in f.blocks.values():
                t = b.get("term")
                if t and t.get("cond") is not None:
                    for c in walk(t["cond"], True):
                        if c[0] == "bin" and c[1] in ("<", "<=", ">", ">="):
                            vs = {y[1] for y in walk(c, True) if y[0] == "var"}
                            if hv in vs and (vs & params):
                                ok = True
            if ok:
                ctx.holds("HIGHWATER", key, f.where(), "the requested size is compared with the high-water mark `%s` (used by %s) before the table is replaced" % (hv, ", ".join(sorted(users))[:60]), nontrivial=True)
            else:
                ctx.violated("HIGHWATER", key, f.where(), "%s replaces the table `_cdfs` without comparing the requested size with `%s`, the bound %s use for their walks over it: ids of open files above the new size become invalid" % (f.name, hv, ", ".join(sorted(users))[:60]))
    ctx.floor("HIGHWATER", 1, n, "(routines that replace the SD file table)")
    return n


class _DoubleRel(PathAnalysis):
    """user: True while the access record has been handed to the element's own end-access routine and the local still points at it"""

    def __init__(self, prog, var):
        super().__init__(prog)
        self.var = var
        self.bad = []
        self.handed = 0

    def init_user(self, func):
        return False

    def on_stmt(self, func, bid, idx, stmt, env, user):
        from .facts import kind, strip, is_null
        u = user
        for x in walk(stmt["e"]):
            if x[0] == "call" and x[1] is None or (x[0] == "call" and isinstance(x[1], str) and x[1].startswith("(*")):
                pass
            if x[0] == "call":
                tgt = render(x)[:80]
                args = [strip(a) for a in x[3]]
                if "endaccess" in tgt and x[1] != "Hendaccess" and any(kind(a) == "var" and a[1] == self.var for a in args) and "special_func" in tgt:
                    u = True
                    self.handed += 1
                elif x[1] == "HIrelease_accrec_node" and any(kind(a) == "var" and a[1] == self.var for a in args) and u:
                    self.bad.append(stmt.get("l", 0))
            elif x[0] == "asg" and x[1] == "=" and kind(strip(x[2])) == "var" and strip(x[2])[1] == self.var:
                u = False
        return u


def rule_record_not_released_twice(ctx):
    """DOUBLEREL (C13): the end-access routine of a special element releases the access record on every one of its exits (its
    failure exit included: each of them ends in `if (access_rec != NULL) HIrelease_accrec_node(access_rec)`).  Hendaccess, which dispatches to it, must therefore forget the record once the call has been
    made: on no path may its own `HIrelease_accrec_node(access_rec)` be reached with the pointer it handed over.  Released twice,
    the free-list node points at itself, every later access id gets the same record, and concurrently valid ids alias."""
    prog = ctx.prog
    f = prog.func("Hendaccess")
    if f is None:
        ctx.unrecognised("DOUBLEREL", "DOUBLEREL:Hendaccess", "-", "Hendaccess not found")
        return 0
    a = _DoubleRel(prog, "access_rec")
    a.fails = fail_values(f, prog)
    a.run(f)
    key = "DOUBLEREL:Hendaccess"
    if not a.handed:
        ctx.unrecognised("DOUBLEREL", key, f.where(), "the dispatch to the special end-access routine was not found")
        return 0
    if a.bad:
        ctx.violated("DOUBLEREL", key, f.where(a.bad[0]), "Hendaccess can release `access_rec` after the special end-access routine has already released it (its failure exit does): the record is on the free list twice")
    else:
        ctx.holds("DOUBLEREL", key, f.where(), "after the dispatch to the special end-access routine the local pointer is cleared before any release", nontrivial=True)
    ctx.floor("DOUBLEREL", 1, 1, "(dispatches of an access record to its element's end-access routine)")
    return 1


class _CountPerId(PathAnalysis):
    """user: True once the attach count of the instance was raised or set on this path"""

    def __init__(self, prog):
        super().__init__(prog)
        self.sites = {}

    def init_user(self, func):
        return False

    def on_stmt(self, func, bid, idx, stmt, env, user):
        u = user
        for x in walk(stmt["e"]):
            if x[0] == "incdec" and x[1] == "++" and (mem_field(x[3]) or (0, 0))[1] == "nattach":
                u = True
            elif x[0] == "asg" and (mem_field(x[2]) or (0, 0))[1] == "nattach":
                u = True
            elif x[0] == "call" and x[1] == "HAregister_atom":
                line = stmt.get("l", 0)
                self.sites[line] = self.sites.get(line, True) and u
        return u


def rule_one_count_per_id(ctx):
    """IDCOUNT (C08, C13): every id that Vattach / VSattach hands out is released by one Vdetach / VSdetach, which lowers the instance's
    attach count; the instance is torn down (and, for a write attachment, written back) when the count reaches 0.  On every
    path that registers an id (HAregister_atom) the count was therefore raised or set on that same path.  An id handed out
    without its count makes the *other* handle's detach bring the count to 0: the next attach re-initialises the instance,
    dropping the `marked` flag and with it every change made through the handle that is still open."""
    prog = ctx.prog
    n = 0
    for fn in ("Vattach", "VSattach"):
        f = prog.func(fn)
        if f is None:
            ctx.unrecognised("IDCOUNT", "IDCOUNT:%s" % fn, "-", "%s not found" % fn)
            continue
        a = _CountPerId(prog)
        a.fails = fail_values(f, prog)
        a.run(f)
        for i, (line, ok) in enumerate(sorted(a.sites.items())):
            n += 1
            key = "IDCOUNT:%s#%d" % (fn, i + 1)
            if ok:
                ctx.holds("IDCOUNT", key, f.where(line), "every path to this id registration has raised or set the attach count", nontrivial=True)
            else:
                ctx.violated("IDCOUNT", key, f.where(line), "%s can register an id on a path that did not raise the instance's attach count: detaching another handle then ends the attachment this id still uses" % fn)
    ctx.floor("IDCOUNT", 3, n, "(id registrations in Vattach / VSattach)")
    return n


def rule_detach_clears_pointer(ctx):
    """DETACHNULL (C13, C01): several access records on one special element share its information record and count themselves
    in `->attached`.  The start-access routines of the linked-block and chunked kinds begin with "if this access record still
    points at an information record, detach from it" (`if (access_rec->special_info != NULL) { if (--(t->attached) == 0) free.. }`).
    For those kinds every *other* routine that detaches (decrements `->attached` of the same record type) must therefore clear
    `access_rec->special_info` on every path, not only when it freed the record: Hnextread calls the close routine and then
    the start-access routine on the same access record, and a pointer left standing is counted out twice - the record is
    freed while the other access records still read through it."""
    from .rules_coders import MustStore
    from .codec import ast_walk
    from .facts import is_null
    prog = ctx.prog

    def decrements(f):
        out = set()
        for _b, _i, _s, x in f.nodes(True):
            t = None
            if x[0] == "incdec" and x[1] == "--":
                t = strip(x[3])
            elif x[0] == "asg" and x[1] == "-=":
                t = strip(x[2])
            if t is not None and kind(t) == "mem" and t[2] == "attached":
                out.add(t[3])
        return out

    redetach = {}
    for f in prog.lib_funcs():
        ast = f.raw.get("ast")
        if not ast:
            continue

        def vis(nd, st, f=f):
            if nd[0] == "if" and nd[1] is not None:
                c = strip(nd[1])
                if kind(c) == "bin" and c[1] == "!=" and mem_field(c[2]) == ("accrec_t", "special_info") and is_null(c[3]):
                    inner = []
                    ast_walk(nd[2], lambda k, s2: (inner.extend(x for x in (walk(k[1], True) if k[0] in ("s", "if") and k[1] is not None else []) if x[0] == "incdec" and x[1] == "--" and kind(strip(x[3])) == "mem" and strip(x[3])[2] == "attached"), True)[1])
                    for x in inner:
                        redetach.setdefault(strip(x[3])[3], set()).add(f.name)
            return True

        ast_walk(ast, vis)
    n = 0
    for f in prog.lib_funcs():
        recs = decrements(f) & set(redetach)
        for rec in sorted(recs):
            if f.name in redetach[rec]:
                continue
            n += 1
            key = "DETACHNULL:%s" % f.name
            a = MustStore(prog, ("accrec_t", "special_info"))
            a.fails = fail_values(f, prog)
            a.run(f)
            ok_exits = [u for cls, u in a.exits if cls != "fail"]
            if ok_exits and all(ok_exits):
                ctx.holds("DETACHNULL", key, f.where(), "detaches from a %s and clears access_rec->special_info on every non-failing path (%s re-detaches through a pointer left standing)" % (rec, ", ".join(sorted(redetach[rec]))), nontrivial=True)
            else:
                ctx.violated("DETACHNULL", key, f.where(), "decrements %s.attached but leaves access_rec->special_info standing when the record is still shared; %s then detaches through it a second time and frees the record under the other access records" % (rec, ", ".join(sorted(redetach[rec]))))
    ctx.floor("DETACHNULL", 2, n, "(detaching routines of kinds whose start-access re-detaches)")
    return n


def rule_sd_file_id_halves(ctx):
    """IDHALVES (C13): SDstart issues `(slot << 20) + (CDFTYPE << 16) + slot`: the file's slot twice.  SDIhandle_from_id looks
    the file up with the top copy; file-level routines (SDend, SDsetfillmode) then act on the low copy (`id & 0xffff` handed
    to ncclose/ncsetfill).  An id is one that was issued only if the copies agree, so the validator compares them for file
    ids - otherwise the top half of one open file with the low half of another passes and the call lands on the other file."""
    from .facts import calls_in
    prog = ctx.prog
    v = prog.func("SDIhandle_from_id")
    n = 0
    if v is None:
        ctx.unrecognised("IDHALVES", "IDHALVES:SDIhandle_from_id", "-", "validator not found")
        return 0

    def has(e, pred):
        return any(pred(x) for x in walk(e, True))

    low = lambda x: x[0] == "bin" and x[1] == "&" and is_int(x[3]) and int_val(x[3]) == 0xffff
    agree = False
    shifted = set()
    for _b, _i, _s, x in v.nodes(True):
        if x[0] == "asg" and x[1] == "=" and kind(strip(x[2])) == "var" and has(x[3], lambda y: y[0] == "bin" and y[1] == ">>" and is_int(y[3]) and int_val(y[3]) == 20):
            shifted.add(strip(x[2])[1])
    for _b, _i, _s, x in v.nodes(True):
        if x[0] == "bin" and x[1] in ("==", "!="):
            for a_, b_ in ((x[2], x[3]), (x[3], x[2])):
                if has(a_, low) and (has(b_, lambda y: y[0] == "bin" and y[1] == ">>") or (kind(strip(b_)) == "var" and strip(b_)[1] in shifted)):
                    agree = True
    for f in prog.lib_funcs():
        if not f.rel.endswith("mfhdf/src/mfsd.c") or f is v:
            continue
        validates = any(c[1] == "SDIhandle_from_id" and len(c[3]) > 1 and "CDFTYPE" in render(c[3][1]) for _b, _i, _s, c in f.calls())
        uses_low = False
        for _b, _i, _s, x in f.nodes(True):
            if low(x) and kind(strip(x[2])) == "var" and strip(x[2])[1] in {(p[0] if isinstance(p, (list, tuple)) else p.get("name")) for p in f.params}:
                uses_low = True
        if not (validates and uses_low):
            continue
        n += 1
        key = "IDHALVES:%s" % f.name
        if agree:
            ctx.holds("IDHALVES", key, f.where(), "acts on the low copy of the file slot; SDIhandle_from_id compares it with the top copy it validates", nontrivial=True)
        else:
            ctx.violated("IDHALVES", key, f.where(), "acts on `id & 0xffff` while SDIhandle_from_id validates only `id >> 20`: an id mixing two open files passes and the call lands on the other file")
    ctx.floor("IDHALVES", 2, n, "(file-level SD routines that act on the low half of the id)")
    return n


def rule_index_below_count(ctx):
    """IDXCOUNT (C13): ids of data sets, dimensions and attributes carry an index into an NC_array (`values[0 .. count-1]`).
    A routine that turns away a bad index with a comparison against `->count` and then steps into `->values` with that index
    (`ap += index`, `values[index]`) must turn away `index == count` as well: the comparison is `>=`, not `>`.  One slot past
    the table is whatever the allocator left there, and the routine goes on to dereference it."""
    from .codec import ast_walk
    from .rules_loops import _terminates
    prog = ctx.prog
    n = 0
    for f in prog.lib_funcs():
        ast = f.raw.get("ast")
        if not ast or not f.rel.startswith("mfhdf/src/"):
            continue
        guards = []

        def vis(nd, st):
            if nd[0] == "if" and nd[1] is not None and _terminates(nd[2]):
                for x in walk(nd[1], True):
                    if x[0] == "bin" and x[1] in (">", ">="):
                        l_, r_ = strip(x[2]), strip(x[3])
                        if kind(l_) == "var" and kind(r_) == "mem" and r_[2] == "count":
                            guards.append((nd, l_[1], x[1], render(r_)))
            return True

        ast_walk(ast, vis)
        if not guards:
            continue
        used = set()
        for _b, _i, _s, x in f.nodes(True):
            if x[0] == "asg" and x[1] == "+=" and kind(strip(x[3])) == "var":
                used.add(strip(x[3])[1])
            elif x[0] == "idx" and kind(strip(x[2])) == "var":
                used.add(strip(x[2])[1])
            elif x[0] == "bin" and x[1] == "+" and kind(strip(x[3])) == "var" and "*" in str(x[-1] if isinstance(x[-1], str) else ""):
                used.add(strip(x[3])[1])
        k = 0
        for nd, v, op, cnt in guards:
            if v not in used:
                continue
            k += 1
            n += 1
            key = "IDXCOUNT:%s:%s#%d" % (f.name, v, k)
            line = nd[-3] if isinstance(nd[-3], int) else f.line
            if op == ">=":
                ctx.holds("IDXCOUNT", key, f.where(line), "`%s >= %s` is turned away before `%s` indexes the table" % (v, cnt[:30], v), nontrivial=True)
            else:
                ctx.violated("IDXCOUNT", key, f.where(line), "`%s > %s` lets %s == count through, and `%s` then indexes the table: the slot behind the last element is read and dereferenced" % (v, cnt[:30], v, v))
    ctx.floor("IDXCOUNT", 2, n, "(index guards against an NC_array count)")
    return n


class _NetCount(PathAnalysis):
    """user = net change applied to the counted field along the path (None = not touched)"""

    def __init__(self, prog, field):
        super().__init__(prog)
        self.field = field
        self.exits = []

    def init_user(self, func):
        return None

    def on_stmt(self, func, bid, idx, stmt, env, user):
        for n in walk(stmt["e"]):
            d = 0
            # once the routine has started to act (any call but error reporting) a later failure is not a refusal any more
            if n[0] == "call" and isinstance(user, int) and user != 0 and n[1] not in ("HEpush", "HEreport", "HEclear"):
                return "set"
            if n[0] == "incdec" and mem_field(n[3]) == self.field:
                d = 1 if n[1] == "++" else -1
            elif n[0] == "asg" and mem_field(n[2]) == self.field:
                if n[1] == "+=" and is_int(n[3]):
                    d = int_val(n[3])
                elif n[1] == "-=" and is_int(n[3]):
                    d = -int_val(n[3])
                else:
                    return "set"
            if d and user != "set":
                user = (user or 0) + d
        return user

    def on_exit(self, func, bid, retval, env, user):
        self.exits.append((classify_ret(retval, self.fails), user))


def rule_refused_close_restores_count(ctx):
    """RESTORE (C13): Hclose takes its reference off the file record first (`--refcount`) and only then finds out whether the
    close can go ahead: with access elements still attached it refuses.  A refusal leaves the record as it found it - every
    failing exit that was reached after the count went down has put it back - because `refcount == 0` is what makes every
    other call reject the (still registered) file id: the file would be unusable and could not even be closed again.
    (Failures after the tear-down has begun - a call other than error reporting was made with the count down - are not
    refusals and are not examined.)"""
    prog = ctx.prog
    n = 0
    for f in prog.lib_funcs():
        if not f.rel.endswith("hdf/src/hfile.c"):
            continue
        touches = any((x[0] == "incdec" and x[1] == "--" and mem_field(x[3]) == ("filerec_t", "refcount")) for _b, _i, _s, x in f.nodes(True))
        if not touches:
            continue
        n += 1
        key = "RESTORE:%s" % f.name
        a = _NetCount(prog, ("filerec_t", "refcount"))
        a.fails = fail_values(f, prog)
        a.run(f)
        bad = [u for cls, u in a.exits if cls == "fail" and isinstance(u, int) and u < 0]
        if bad:
            ctx.violated("RESTORE", key, f.where(), "a failing exit is reached with file_rec->refcount %d lower than on entry: the refused call has consumed the caller's reference, and the file id that is still registered is rejected by every later call" % -bad[0])
        else:
            ctx.holds("RESTORE", key, f.where(), "every failing exit leaves file_rec->refcount as it was on entry (%d exit(s) examined)" % len(a.exits), nontrivial=True)
    ctx.floor("RESTORE", 1, n, "(routines that take a reference off the file record)")
    return n


def rule_slot_id_consumed(ctx):
    """SLOTID (C13): the start-access routine of a special element (`special_func->stread` / `->stwrite`) registers a fresh
    access id for the access record it is given and returns it.  The caller either hands that id on (Hstartaccess returns
    it) or, when it re-targets a record that already *has* an id (Hnextread), removes it again - it is never just compared
    with FAIL and dropped: a second id on the same record stays valid after the first is ended, points at a recycled record
    and then answers for another object."""
    prog = ctx.prog
    n = 0
    for f in prog.lib_funcs():
        sites = []
        for _b, _i, s, x in f.nodes(True):
            if x[0] == "asg" and x[1] == "=" and kind(strip(x[2])) == "var":
                r = strip(x[3])
                if kind(r) == "call" and r[1] is None:
                    ce = strip(r[2])
                    while kind(ce) in ("deref",):
                        ce = strip(ce[1])
                    mf = mem_field(ce)
                    if mf and mf[0] == "funclist_t" and mf[1] in ("stread", "stwrite"):
                        sites.append((strip(x[2])[1], s.get("l", f.line), mf[1], id(x)))
        for v, line, slot, xid in sites:
            n += 1
            key = "SLOTID:%s:%s@%s" % (f.name, v, slot)
            used = False
            for _b, _i, s, x in f.nodes(True):
                if x[0] == "call":
                    if any(kind(strip(a)) == "var" and strip(a)[1] == v for a in x[3]):
                        used = True
                elif x[0] == "ret" and x[1] is not None and any(y[0] == "var" and y[1] == v for y in walk(x[1], True)):
                    used = True
                elif x[0] == "asg" and id(x) != xid and any(y[0] == "var" and y[1] == v for y in walk(x[3], True)) and not (kind(strip(x[3])) == "call" and strip(x[3])[1] is None):
                    used = True       # copied on (ret_value = aid)
            if used:
                ctx.holds("SLOTID", key, f.where(line), "the id returned by %s is handed on or removed" % slot, nontrivial=True)
            else:
                ctx.violated("SLOTID", key, f.where(line), "the id returned by %s is only compared and then dropped: it stays registered for this access record next to the record's real id" % slot)
    ctx.floor("SLOTID", 2, n, "(ids returned by a special element's start-access slot)")
    return n


def rule_start_access_keeps_record(ctx):
    """STACCOWN (C16, C13): the start-access routines of the special-element kinds (the `stread` / `stwrite` slots and the
    `..Istaccess` helper they share) are handed an access record that belongs to their caller: Hstartaccess releases it when
    the slot fails, Hnextread keeps it for the access id it already belongs to.  None of them releases that record itself -
    released twice it sits twice on the free list and the next two access ids share one record."""
    from .rules_coders import _tables, _table_flow
    prog = ctx.prog
    tables = _tables(prog)
    roots = set()
    for t, (slots, _w) in tables.items():
        for slot in ("stread", "stwrite"):
            fn = slots.get(slot)
            if fn:
                roots.add(fn)
    # one level down: helpers that receive the slot routine's access record parameter
    funcs = set()
    for r in sorted(roots):
        f = prog.func(r)
        if f is None:
            continue
        funcs.add(r)
        params = [(p[0] if isinstance(p, (list, tuple)) else p.get("name")) for p in f.params]
        for _b, _i, _s, c in f.calls():
            if c[1] and any(kind(strip(a)) == "var" and strip(a)[1] in params for a in c[3]):
                g = prog.func(c[1])
                if g is not None and g.rel.startswith("hdf/src/") and "staccess" in c[1]:
                    funcs.add(c[1])
    n = 0
    for name in sorted(funcs):
        f = prog.func(name)
        params = [(p[0] if isinstance(p, (list, tuple)) else p.get("name")) for p in f.params]
        n += 1
        key = "STACCOWN:%s" % name
        rel = [s.get("l", f.line) for _b, _i, s, c in f.calls() if c[1] == "HIrelease_accrec_node" and c[3] and kind(strip(c[3][0])) == "var" and strip(c[3][0])[1] in params]
        if rel:
            ctx.violated("STACCOWN", key, f.where(rel[0]), "the start-access routine releases the access record it was handed; its caller releases (or keeps using) the same record")
        else:
            ctx.holds("STACCOWN", key, f.where(), "the access record handed to the start-access routine is left to the caller", nontrivial=True)
    ctx.floor("STACCOWN", 8, n, "(start-access routines of the special-element kinds)")
    return n


def rule_member_count_source(ctx):
    """LIVECOUNT (C08): the number of members of an attached Vgroup is `vg->nvelt`, kept current by every insert and delete.  The
    instance record has a field of almost the same name (`vginstance_t.nentries`), filled in once when an existing Vgroup is
    first attached and never again.  Nothing that reports a member count reads the instance's copy: after any edit in the
    current attach session it is stale, and Vinquire would disagree with Vntagrefs and with the member list itself."""
    prog = ctx.prog
    n = 0
    for f in prog.lib_funcs():
        if not f.rel.startswith("hdf/src/v"):
            continue
        k = 0
        for _b, _i, s, x in f.nodes(True):
            # reads only
            if x[0] == "asg" and x[1] == "=":
                r = x[3]
                for y in walk(r, True):
                    if y[0] == "mem" and y[2] == "nentries" and y[3] in ("vginstance_t", "vg_instance_struct", "vginstance"):
                        k += 1
                        n += 1
                        ctx.violated("LIVECOUNT", "LIVECOUNT:%s#%d" % (f.name, k), f.where(s.get("l", f.line)), "a value is taken from the Vgroup instance's `nentries`, which is set when the Vgroup is first attached and not kept up to date: after an insert or delete it is stale")
            elif x[0] == "ret" and x[1] is not None:
                for y in walk(x[1], True):
                    if y[0] == "mem" and y[2] == "nentries" and "instance" in str(y[3]):
                        k += 1
                        n += 1
                        ctx.violated("LIVECOUNT", "LIVECOUNT:%s#%d" % (f.name, k), f.where(s.get("l", f.line)), "the Vgroup instance's stale `nentries` is returned")
    # the routines that report a count read the live one
    for name in ("Vinquire", "Vntagrefs", "Ventries"):
        f = prog.func(name)
        if f is None:
            continue
        n += 1
        live = any(x[0] == "mem" and x[2] == "nvelt" for _b, _i, _s, x in f.nodes(True))
        if live:
            ctx.holds("LIVECOUNT", "LIVECOUNT:%s" % name, f.where(), "the member count is read from vg->nvelt", nontrivial=True)
        else:
            ctx.violated("LIVECOUNT", "LIVECOUNT:%s" % name, f.where(), "the routine reports a member count without reading vg->nvelt")
    ctx.floor("LIVECOUNT", 3, n, "(routines that report a Vgroup's member count)")
    return n
