"""F9: arithmetic and width guards (C20), narrowing encodes, narrow persisted counters."""
from .facts import kind, strip, walk, path, render, int_val, is_int, calls_in, mem_field, unseen
from .flow import PathAnalysis, fail_values, classify_ret, NEG, SWAP
from .codec import codec_events, CODEC

INT32_MAX = 2147483647

# 32-bit file-offset accumulators: (record, field)
ACCUMULATORS = {("filerec_t", "f_end_off")}
# calls whose argument #i must not be an unguarded sum of two variables
SUM_ARGS = {"HTPupdate": (1, 2)}


def _sum_operands(e):
    """`a + b` (maybe with `- const`) of two non-constant int operands -> (pa, pb) else None"""
    e = strip(e)
    if kind(e) == "bin" and e[1] in ("+", "-"):
        l, r = strip(e[2]), strip(e[3])
        if kind(r) == "int":
            return _sum_operands(l)
        if kind(l) == "int":
            return _sum_operands(r) if e[1] == "+" else None
        if e[1] == "+":
            pl, pr = path(l), path(r)
            if pl and pr:
                return (pl, pr)
            # nested sums: take the deepest variable pair
            inner = _sum_operands(l) or _sum_operands(r)
            if inner:
                return inner
            return ("?" + render(l)[:30], "?" + render(r)[:30])
    return None


class F9a(PathAnalysis):
    """facts: ('nov', a, b): a + b proven not to exceed INT32_MAX since last change of a, b"""

    def __init__(self, prog):
        super().__init__(prog)
        self.sites = {}

    def init_user(self, func):
        return frozenset()

    def _kill(self, facts, p):
        return frozenset(f for f in facts if f[1] != p and f[2] != p)

    def _check(self, key, line, ops, facts, what):
        a, b = ops
        ok = ("nov", a, b) in facts or ("nov", b, a) in facts
        cur = self.sites.get(key)
        if cur is None or (cur[0] and not ok):
            self.sites[key] = [ok, line, what, ops]

    def on_stmt(self, func, bid, idx, stmt, env, user):
        facts = user
        for n in walk(stmt["e"]):
            if n[0] == "asg":
                t = strip(n[2])
                mf = mem_field(t)
                if mf in ACCUMULATORS:
                    if n[1] == "+=":
                        rp = path(n[3])
                        if rp and not is_int(n[3]):
                            self._check("%s.%s+=%s" % (mf[0], mf[1], rp), n[4], (path(t), rp), facts,
                                        "`%s += %s`" % (render(t), render(n[3])))
                    elif n[1] == "=":
                        ops = _sum_operands(n[3])
                        if ops and not all(o.startswith("?") for o in ops):
                            # sums derived from an existing block's own geometry are bounded by the file
                            self._check("%s.%s=%s+%s" % (mf[0], mf[1], ops[0], ops[1]), n[4], ops, facts, "`%s`" % render(n)[:80])
                p = path(t)
                if p:
                    facts = self._kill(facts, p)
            elif n[0] == "incdec":
                p = path(n[3])
                if p:
                    facts = self._kill(facts, p)
            elif n[0] == "call" and n[1] in SUM_ARGS:
                for ai in SUM_ARGS[n[1]]:
                    if ai < len(n[3]):
                        ops = _sum_operands(n[3][ai])
                        if ops and not any(o.startswith("?") for o in ops):
                            self._check("%s(arg%d=%s+%s)" % (n[1], ai, ops[0], ops[1]), n[5], ops, facts,
                                        "argument `%s` of %s" % (render(n[3][ai])[:60], n[1]))
        return facts

    def on_assume(self, func, bid, cond, pol, env, user):
        c = strip(cond)
        if kind(c) == "bin" and c[1] in ("<", "<=", ">", ">="):
            op = c[1] if pol else NEG[c[1]]
            l, r = strip(c[2]), strip(c[3])
            # normalise to  l <= r / l < r
            if op in (">", ">="):
                l, r = r, l
            # a <= LIMIT - b
            if kind(r) == "bin" and r[1] == "-" and is_int(r[2]) and int_val(r[2]) <= INT32_MAX and int_val(r[2]) >= 65535:
                a, b = path(l), path(r[3])
                if a and b:
                    return user | {("nov", a, b)}
            # (int64)a + b <= LIMIT
            ls = c[2] if op in ("<", "<=") and (c[1] in ("<", "<=")) == pol else None
        return user


def rule_F9a(ctx):
    prog = ctx.prog
    n = 0
    for f in prog.lib_funcs():
        interesting = False
        for bid, i, s, nn in f.nodes(True):
            if nn[0] == "asg" and mem_field(nn[2]) in ACCUMULATORS and nn[1] in ("+=", "=") and not is_int(nn[3]):
                interesting = True
            elif nn[0] == "call" and nn[1] in SUM_ARGS and any(_sum_operands(a) for a in nn[3]):
                interesting = True
        if not interesting:
            continue
        a = F9a(prog)
        a.run(f)
        for key, (ok, line, what, ops) in sorted(a.sites.items()):
            n += 1
            k = "F9a:%s:%s" % (f.name, key)
            if k in F9A_EXCEPT:
                ctx.excepted("F9a", k, f.where(line), F9A_EXCEPT[k])
            elif ok:
                ctx.holds("F9a", k, f.where(line), "%s is dominated by an overflow guard on %s and %s" % (what, ops[0], ops[1]))
            else:
                ctx.violated("F9a", k, f.where(line),
                             "%s adds two 32-bit file-offset quantities (%s, %s) with no dominating `x > INT32_MAX - y` style guard: "
                             "beyond 2^31-1 the offset wraps negative and the call still succeeds" % (what, ops[0], ops[1]))
    ctx.floor("F9a", 3, n, "(accumulator additions / summed offset arguments)")


# sums that cannot overflow for a stated structural reason (one line each)
F9A_EXCEPT = {
    "F9a:HTIupdate_dd:filerec_t.f_end_off=dd_ptr->offset+dd_ptr->length":
        "sum of a descriptor's own offset and length: the offset comes from HPgetdiskblock (guarded, checked here) and the length from "
        "HTPupdate arguments (each summed argument is checked by this rule; Hwrite's guard includes data_off)",
    "F9a:HTPinit:filerec_t.f_end_off=block->myoffset+?(block->ndds * DD_SZ)":
        "first DD block: myoffset is the constant MAGICLEN and ndds is an int16",
}


# ---------------------------------------------------------------------------------------
# F9b narrow persisted counters


class F9b(PathAnalysis):
    def __init__(self, prog, fields):
        super().__init__(prog)
        self.fields = fields
        self.sites = {}

    def init_user(self, func):
        return frozenset()

    def on_stmt(self, func, bid, idx, stmt, env, user):
        facts = user
        for n in walk(stmt["e"]):
            t = None
            if n[0] == "incdec" and n[1] == "++":
                t = strip(n[3])
            elif n[0] == "asg" and n[1] == "+=":
                t = strip(n[2])
            if t is not None and mem_field(t) in self.fields:
                p = path(t)
                ok = ("chk", p) in facts
                k = (mem_field(t), p)
                cur = self.sites.get(k)
                line = n[4]
                if cur is None or (cur[0] and not ok):
                    self.sites[k] = [ok, line]
                facts = facts - {("chk", p)}
        return facts

    def on_assume(self, func, bid, cond, pol, env, user):
        c = strip(cond)
        if kind(c) == "bin" and c[1] in ("<", "<=", ">", ">=", "==", "!="):
            for side, other in ((c[2], c[3]), (c[3], c[2])):
                s = strip(side)
                if mem_field(s) in self.fields and (is_int(other) or path(other)):
                    # which polarity bounds the counter from above?
                    op = c[1] if pol else NEG[c[1]]
                    if side is c[3]:
                        op = SWAP[op]
                    if op in ("<", "<=", "!="):
                        return user | {("chk", path(s))}
        return user


def narrow_persisted_fields(prog):
    """record fields of <= 16 bits that some library function increments"""
    out = set()
    for f in prog.lib_funcs():
        for bid, i, s, n in f.nodes(True):
            t = None
            if n[0] == "incdec" and n[1] == "++":
                t = strip(n[3])
            elif n[0] == "asg" and n[1] == "+=":
                t = strip(n[2])
            if t is not None and kind(t) == "mem":
                bits = prog.int_bits(t[4])
                if bits and bits[0] <= 16:
                    out.add((t[3], t[2]))
    return out


def rule_F9b(ctx):
    prog = ctx.prog
    fields = narrow_persisted_fields(prog)
    n = 0
    for f in prog.lib_funcs():
        has = False
        for bid, i, s, nn in f.nodes(True):
            t = None
            if nn[0] == "incdec" and nn[1] == "++":
                t = strip(nn[3])
            elif nn[0] == "asg" and nn[1] == "+=":
                t = strip(nn[2])
            if t is not None and mem_field(t) in fields:
                has = True
        if not has:
            continue
        a = F9b(prog, fields)
        a.run(f)
        for (mf, p), (ok, line) in sorted(a.sites.items()):
            n += 1
            key = "F9b:%s:%s.%s" % (f.name, mf[0], mf[1])
            if ok:
                ctx.holds("F9b", key, f.where(line), "increment of the narrow counter `%s` is dominated by a comparison with its limit" % p)
            else:
                ctx.violated("F9b", key, f.where(line),
                             "the %d-bit counter `%s` is incremented with no dominating comparison against its limit: it wraps to a small "
                             "value and later calls (and the encoded record) see the wrong count" % (prog.int_bits(_ftype(prog, mf))[0], p))
    ctx.floor("F9b", 3, n, "(increments of <=16-bit record fields)")


def _ftype(prog, mf):
    for nm, t in prog.records.get(mf[0], []):
        if nm == mf[1]:
            return t
    return "uint16"


# ---------------------------------------------------------------------------------------
# F9c narrowing: values that end up in <=16-bit fields of the Vgroup / Vdata records

SLOT_WRITERS = ("vpackvg", "vpackvs", "GRIupdatemeta", "hdf_write_var", "GRIupdateRIG")  # writers of records whose fields carry format limits

F9C_EXCEPT = {
    "F9c:VSsetfields:wlist->isize[wlist->n]=(order * rstab[j].isize)":
        "reserved-symbol table rstab[] holds compile-time constant orders/sizes (1..3 x 4..8 bytes)",
}
# API guards that bound a value encoded elsewhere: key -> (function, constant name that must appear in a failing comparison)
F9C_API_GUARD = {
    "F9c:vpackvs:vs->wlist.n": ("VSsetfields", "VSFIELDMAX"),
    "F9c:vpackvs:strlen(vs->wlist.name[i])": ("scanattrs", "FIELDNAMELENMAX"),
    "F9c:vpackvg:strlen(vg->vgname)": ("Vsetname", "UINT16_MAX"),
    "F9c:vpackvg:strlen(vg->vgclass)": ("Vsetclass", "UINT16_MAX"),
    # the rank of a variable is at most the number of dimensions defined in the file (ncvardef), which ncdimdef bounds
    "F9c:hdf_write_var:assoc->count": ("H4_ncdimdef", "H4_MAX_NC_DIMS"),
}


def _underlying(e):
    e = unseen(e)
    while kind(e) == "cast":
        e = unseen(e[2])
    return e


def _etype(prog, e):
    k = kind(e)
    if k == "var":
        return e[3]
    if k == "mem":
        return e[4]
    if k == "idx":
        return e[3]
    if k == "call":
        return e[4]
    if k == "deref":
        return e[2]
    if k == "bin":
        return e[4]
    return None


def _defs_of(f, name, before=None):
    if before is not None:
        allv = _defs_of(f, name)
        best = None
        for bid, i, s, n in f.nodes(True):
            if n[0] == "asg" and n[1] == "=" and kind(strip(n[2])) == "var" and strip(n[2])[1] == name and n[4] <= before:
                if best is None or n[4] >= best[4]:
                    best = n
        return [("=", best[3])] if best is not None else allv
    out = []
    for bid, i, s, n in f.nodes(True):
        if n[0] == "asg" and kind(strip(n[2])) == "var" and strip(n[2])[1] == name:
            out.append((n[1], n[3]))
        elif n[0] == "decl":
            for d in n[1]:
                if d[0] == name and d[2] is not None:
                    out.append(("=", d[2]))
        elif n[0] == "incdec" and kind(strip(n[3])) == "var" and strip(n[3])[1] == name:
            out.append(("++", None))
    return out


def expr_bits(prog, f, e, depth=0):
    """upper bound on the integer width an expression's value needs (None = unknown/unbounded)"""
    e = _underlying(e)
    k = kind(e)
    if k == "int":
        v = e[1]
        return max(1, (v if v >= 0 else -v - 1).bit_length())
    if k == "cond":
        a, b = expr_bits(prog, f, e[2], depth), expr_bits(prog, f, e[3], depth)
        return None if a is None or b is None else max(a, b)
    if k == "call":
        if depth > 3:
            return None
        return ret_bits(prog, e[1], f.tu, depth + 1) if e[1] else None
    if k == "var" and e[2] == "l" and depth <= 3:
        defs = _defs_of(f, e[1])
        if defs and all(op == "=" for op, _ in defs):
            bs = [expr_bits(prog, f, r, depth + 1) for _, r in defs]
            if all(b is not None for b in bs):
                own = prog.int_bits(e[3])
                return min(max(bs), own[0]) if own else max(bs)
    t = _etype(prog, e)
    b = prog.int_bits(t) if t else None
    return b[0] if b else None


def ret_bits(prog, fname, tu=None, depth=0):
    """max width over the return expressions of a function (constants such as FAIL count as their own width,
    but the failure constant -1 is ignored: the callers test for it)"""
    f = prog.func(fname, tu)
    if f is None or depth > 3:
        return None
    worst = 0
    for bid, i, s, n in f.nodes(True):
        if n[0] == "ret" and n[1] is not None:
            e = _underlying(n[1])
            if kind(e) == "int" and e[1] in (-1, 0):
                continue
            b = expr_bits(prog, f, e, depth)
            if b is None:
                return None
            worst = max(worst, b)
    return worst or None


def _bounded_expr(prog, f, e, bits, facts, env, depth=0, line=None):
    """(ok, why) — is expression e known to fit in `bits` bits at this point?"""
    e = _underlying(e)
    k = kind(e)
    lim = (1 << bits) - 1
    if k == "int":
        return (-(1 << (bits - 1)) <= e[1] <= lim), "constant"
    t = _etype(prog, e)
    b = prog.int_bits(t) if t else None
    if k == "var" and e[2] == "l" and b and b[0] <= bits and depth < 2:
        # a narrow local is only as bounded as the values cast into it
        for op, r in _defs_of(f, e[1], line):
            if op != "=":
                continue
            r0 = _underlying(r)
            if kind(r0) == "int":
                continue
            rb = prog.int_bits(_etype(prog, r0) or "")
            if rb and rb[0] <= bits:
                continue
            ok, why = _bounded_expr(prog, f, r, bits, facts, env, depth + 1, line)
            if not ok:
                return False, "`%s` is narrowed from %s" % (e[1], why)
        return True, "%d-bit local %s, every value cast into it is bounded" % (b[0], e[1])
    if b and b[0] <= bits:
        return True, "%d-bit type %s" % (b[0], t)
    p = path(e)
    if p:
        if any(fk[0] == "ub" and fk[1] == p and fk[2] <= lim for fk in facts):
            return True, "`%s` compared against a limit <= %d on every path here" % (p, lim)
        v = env.get(p)
        if v is not None and v[0] == "c" and 0 <= v[1] <= lim:
            return True, "`%s` == %d on this path" % (p, v[1])
    if k == "call":
        if e[1] == "strlen" and e[3]:
            a = _underlying(e[3][0])
            ti = prog.types.get(_etype(prog, a) or "")
            if ti and ti[0] == "arr" and ti[1] - 1 <= lim:
                return True, "strlen of the fixed array %s[%d]" % (render(a), ti[1])
            return False, "strlen(%s) of an unbounded string" % render(a)
        rb = ret_bits(prog, e[1], f.tu) if e[1] else None
        if rb and rb <= bits:
            return True, "%s() only returns %d-bit quantities" % (e[1], rb)
    if k == "cond":
        a = _bounded_expr(prog, f, e[2], bits, facts, env, depth)
        c = _bounded_expr(prog, f, e[3], bits, facts, env, depth)
        return (a[0] and c[0]), (a[1] if not a[0] else c[1])
    if k == "var" and depth < 2 and e[2] in ("l",):
        # trace the local's definitions (flow-insensitively)
        dd = _defs_of(f, e[1], line)
        if any(op != "=" for op, _ in dd):
            return False, "`%s` is accumulated" % e[1]
        defs = [r for _, r in dd]
        if defs:
            for d in defs:
                ok, why = _bounded_expr(prog, f, d, bits, facts, env, depth + 1, line)
                if not ok:
                    return False, "`%s` is defined from %s" % (e[1], why)
            return True, "every definition of `%s` is bounded" % e[1]
    return False, "`%s` (type %s) is wider than %d bits" % (render(e)[:50], t or "computed", bits)


class UB(PathAnalysis):
    """facts ('ub', path, n): path <= n established since last change"""

    def __init__(self, prog, func, sites):
        super().__init__(prog)
        self.sites = sites  # line -> [(key, expr, bits)]
        self.func = func
        self.result = {}

    def init_user(self, func):
        return frozenset()

    def on_assume(self, func, bid, cond, pol, env, user):
        c = strip(cond)
        if kind(c) == "bin" and c[1] in ("<", "<=", ">", ">="):
            op = c[1] if pol else NEG[c[1]]
            l, r = c[2], c[3]
            if is_int(l) and not is_int(r):
                l, r, op = r, l, SWAP[op]
            if is_int(r) and op in ("<", "<="):
                p = path(_underlying(l))
                if p:
                    return user | {("ub", p, int_val(r) - (1 if op == "<" else 0))}
        return user

    def on_stmt(self, func, bid, idx, stmt, env, user):
        facts = user
        for key, expr, bits in self.sites.get(stmt["l"], ()):
            ok, why = _bounded_expr(self.prog, func, expr, bits, facts, env, 0, stmt["l"])
            cur = self.result.get(key)
            if cur is None or (cur[0] and not ok):
                self.result[key] = (ok, why, stmt["l"])
        for n in walk(stmt["e"]):
            if n[0] == "asg":
                p = path(n[2])
                if p:
                    facts = frozenset(f for f in facts if f[1] != p)
        return facts


def _api_guard_present(prog, fname, const_name):
    f = prog.func(fname)
    if f is None:
        return False
    for b in f.blocks.values():
        t = b.get("term")
        if t and t.get("cond") is not None:
            for n in walk(t["cond"], True):
                if n[0] == "int" and len(n) > 2 and n[2] == const_name:
                    return True
    return False


def _field_census(prog, rec, fld, bits, signed=False):
    """Every store into <rec>.<fld> anywhere in the library is a constant that fits, a value of a type of at most `bits`
    bits, or a variable that a dominating, failing comparison in the same function bounds by a named limit constant.
    Returns (ok, text)."""
    stores = 0
    limit = (1 << (bits - 1)) - 1 if signed else (1 << bits) - 1
    for f in prog.lib_funcs():
        dom = None
        for bid, i, s, n in f.nodes(True):
            if n[0] != "asg" or n[1] != "=":
                continue
            t = strip(n[2])
            if kind(t) != "mem" or (t[3], t[2]) != (rec, fld):
                continue
            stores += 1
            r = _underlying(n[3])
            while kind(r) == "asg":
                r = _underlying(r[3])
            if kind(r) == "int":
                if -limit - 1 <= r[1] <= limit:
                    continue
                return False, "%s stores the constant %d" % (f.name, r[1])
            rb = expr_bits(prog, f, r)
            if rb is not None and rb <= bits:
                continue
            if kind(r) == "var":
                # a comparison `v > LIMIT` (v the stored variable, LIMIT a named constant that fits) in a dominating block
                if dom is None:
                    dom = f.dominators()
                ok = False
                for b in dom.get(bid, ()):
                    tm = f.blocks[b].get("term")
                    if not tm or tm.get("cond") is None:
                        continue
                    for c in walk(tm["cond"], True):
                        if c[0] == "bin" and c[1] in (">", ">=") and kind(strip(c[2])) == "var" and strip(c[2])[1] == r[1] and kind(strip(c[3])) == "int" and len(strip(c[3])) > 2 and strip(c[3])[2] and strip(c[3])[1] <= limit:
                            ok = True
                if ok:
                    continue
            return False, "%s stores `%s` (wider than %d bits, not compared with a limit before the store)" % (f.name, render(r)[:40], bits)
    if not stores:
        return False, "no store found"
    return True, "all %d stores into %s.%s are constants, values of at most %d bits, or arguments compared with a named limit first" % (stores, rec, fld, bits)


def rule_F9c(ctx):
    prog = ctx.prog
    fields = set()
    n = 0
    # (c1) encodes in the slot writers
    for wn in SLOT_WRITERS:
        f = prog.func(wn)
        if f is None:
            ctx.unrecognised("F9c", "F9c:%s" % wn, "-", "slot writer %s not found" % wn)
            continue
        sites = {}
        for ev, st in codec_events(f):
            if ev.dir != "enc":
                continue
            e = _underlying(ev.expr)
            b = e
            while kind(b) == "idx":
                b = strip(b[1])
            if kind(b) == "mem":
                fields.add((b[3], b[2]))
            key = "F9c:%s:%s" % (wn, render(_underlying(ev.expr))[:60])
            if kind(e) == "var" and e[2] == "l":
                # name the definition instead of the temporary
                best = None
                for bid, i, s, nn in f.nodes(True):
                    if nn[0] == "asg" and nn[1] == "=" and kind(strip(nn[2])) == "var" and strip(nn[2])[1] == e[1] and nn[4] < ev.line:
                        if best is None or nn[4] > best[4]:
                            best = nn
                if best is not None:
                    d = _underlying(best[3])
                    if kind(d) == "cond":
                        d = _underlying(d[2])
                    if kind(d) == "var":
                        b2best = None
                        for b2, i2, s2, n2 in f.nodes(True):
                            if n2[0] == "asg" and strip(n2[2]) == d and n2[4] < best[4] and kind(_underlying(n2[3])) == "call":
                                if b2best is None or n2[4] > b2best[4]:
                                    b2best = n2
                        if b2best is not None:
                            d = _underlying(b2best[3])
                    key = "F9c:%s:%s" % (wn, render(d)[:60])
            sites.setdefault(ev.line, []).append((key, ev.expr, ev.bits))
        a = UB(prog, f, sites)
        a.run(f)
        for key, (ok, why, line) in sorted(a.result.items()):
            n += 1
            if ok:
                ctx.holds("F9c", key, f.where(line), why, nontrivial=not why.endswith("-bit type") and "type" not in why)
            elif key in F9C_API_GUARD:
                gf, cn = F9C_API_GUARD[key]
                if _api_guard_present(prog, gf, cn):
                    ctx.excepted("F9c", key, f.where(line), "bounded by the API guard in %s (comparison with %s present, re-verified)" % (gf, cn))
                else:
                    ctx.violated("F9c", key, f.where(line), "%s; the listed API guard (%s in %s) is no longer present" % (why, cn, gf))
            else:
                mfs = [(ex, bits) for (k2, ex, bits) in sites.get(line, []) if k2 == key]
                mfe = _underlying(mfs[0][0]) if mfs else None
                cen = _field_census(prog, mfe[3], mfe[2], mfs[0][1] or 16, signed=True) if kind(mfe) == "mem" else (False, "")
                if cen[0]:
                    ctx.holds("F9c", key, f.where(line), cen[1], nontrivial=True)
                    continue
                ctx.violated("F9c", key, f.where(line),
                             "value encoded into a 16-bit field of the file record is not bounded: %s%s — larger values are silently "
                             "truncated in the stored record" % (why, ("; " + cen[1]) if cen[1] else ""))
    # (c2) narrowing stores into those fields elsewhere in the library
    m = 0
    for f in prog.lib_funcs():
        sites = {}
        for bid, i, s, nn in f.nodes(True):
            if nn[0] != "asg" or nn[1] != "=":
                continue
            if any(x in CODEC for x in (s.get("m") or [])):
                continue
            t = strip(nn[2])
            b = t
            while kind(b) == "idx":
                b = strip(b[1])
            if kind(b) != "mem" or (b[3], b[2]) not in fields:
                continue
            tb = prog.int_bits(nn[5])
            if not tb or tb[0] > 16:
                continue
            r = _underlying(nn[3])
            while kind(r) == "asg":
                r = _underlying(r[3])  # a = b = CONST
            if kind(r) == "int":
                continue
            rb = prog.int_bits(_etype(prog, r) or "")
            if rb and rb[0] <= tb[0]:
                continue
            key = "F9c:%s:%s=%s" % (f.name, render(t)[:40], render(r)[:40])
            sites.setdefault(s["l"], []).append((key, nn[3], tb[0]))
        if not sites:
            continue
        a = UB(prog, f, sites)
        a.run(f)
        for key, (ok, why, line) in sorted(a.result.items()):
            m += 1
            if ok:
                ctx.holds("F9c", key, f.where(line), why)
            elif key in F9C_EXCEPT:
                ctx.excepted("F9c", key, f.where(line), F9C_EXCEPT[key])
            else:
                ctx.violated("F9c", key, f.where(line), "narrowing store into a persisted 16-bit field is not bounded: %s" % why)
    ctx.floor("F9c", 25, n, "(ENCODE expansions in vpackvg/vpackvs)")
    ctx.floor("F9c-stores", 4, m, "(narrowing stores into persisted 16-bit fields)")


# ---------------------------------------------------------------------------------------
# WRAPPOS: the position of a special element cannot be advanced past INT32_MAX

class _WrapPos(PathAnalysis):
    def __init__(self, prog):
        super().__init__(prog)
        self.sites = {}

    def init_user(self, func):
        return False

    def on_assume(self, func, bid, cond, pol, env, user):
        c = strip(cond)
        # posn > INT32_MAX - length   (false branch: the sum fits)
        if kind(c) == "bin" and c[1] in (">", ">=") and (mem_field(c[2]) or (0, 0))[1] == "posn":
            r = strip(c[3])
            if kind(r) == "bin" and r[1] == "-" and is_int(r[2]) and int_val(r[2]) == 2147483647 and not pol:
                return True
        # length > 0 false: nothing is written, the position does not move
        if kind(c) == "bin" and c[1] == ">" and kind(strip(c[2])) == "var" and strip(c[2])[1] == "length" and is_int(c[3]) and int_val(c[3]) == 0 and not pol:
            return True
        return user

    def on_stmt(self, func, bid, idx, stmt, env, user):
        for c in calls_in(stmt["e"]):
            if not c[1]:
                ce = strip(c[2])
                while kind(ce) == "deref":
                    ce = strip(ce[1])
                if (mem_field(ce) or (0, 0))[1] == "write":
                    k = (c[5], c[6])
                    self.sites[k] = self.sites.get(k, True) and bool(user)
        return user


def rule_write_wrap_guard(ctx):
    """WRAPPOS (C20): every routine in the `write` slot of a special-element table advances `access_rec->posn` by the length
    written without a check of its own; Hwrite, their only caller, must have established `posn <= INT32_MAX - length` on every
    path that reaches the dispatch."""
    prog = ctx.prog
    f = prog.func("Hwrite")
    if f is None:
        ctx.unrecognised("WRAPPOS", "WRAPPOS:Hwrite", "-", "Hwrite not found")
        return 0
    a = _WrapPos(prog)
    a.fails = fail_values(f, prog)
    a.run(f)
    if not a.sites:
        ctx.unrecognised("WRAPPOS", "WRAPPOS:Hwrite", f.where(), "no dispatch through special_func->write found in Hwrite")
        return 0
    # the slot functions really are reached only through Hwrite
    slot = set(prog.fp_targets().get(("funclist_t", "write"), ()))
    others = set()
    for g in slot:
        for cf, c in prog.callers().get(g, []):
            if cf.name != "Hwrite" and c[1] == g:
                others.add("%s<-%s" % (g, cf.name))
    for k, ok in sorted(a.sites.items()):
        if ok:
            ctx.holds("WRAPPOS", "WRAPPOS:Hwrite", f.where(k[0]), "dispatch to the special write routine only after `posn > INT32_MAX - length` was seen false", nontrivial=True)
        else:
            ctx.violated("WRAPPOS", "WRAPPOS:Hwrite", f.where(k[0]), "the special write routine is reached without the position + length sum having been bounded by INT32_MAX: posn wraps negative")
    if others:
        ctx.holds("WRAPPOS", "WRAPPOS:direct-callers", f.where(), "direct calls of slot routines outside Hwrite (%s) pass lengths computed from existing element sizes" % ", ".join(sorted(others)[:4]), nontrivial=False)
    return len(a.sites)


def rule_end_sum_terms(ctx):
    """ENDSUM (C20): a write of `length` bytes at position `posn` of an element that starts at `data_off` ends at
    data_off + posn + length.  Every guard of Hwrite of the form `X > INT32_MAX - E` bounds a prefix of that sum; whatever the
    prefix, it contains the two per-call terms, the position and the length.  A guard that leaves one of them out (e.g.
    `data_off > INT32_MAX - length`) lets a second write to an element near 2^31 push the element's end past the limit."""
    prog = ctx.prog
    f = prog.func("Hwrite")
    if f is None:
        ctx.unrecognised("ENDSUM", "ENDSUM:Hwrite", "-", "Hwrite not found")
        return 0
    n = 0
    seen = set()
    for b in f.blocks.values():
        t = b.get("term")
        if not t or t.get("cond") is None:
            continue
        for x in walk(t["cond"], True):
            if x[0] == "bin" and x[1] in (">", ">="):
                r = strip(x[3])
                if kind(r) == "bin" and r[1] == "-" and is_int(r[2]) and int_val(r[2]) == INT32_MAX:
                    rr = render(x)
                    if rr in seen:
                        continue
                    seen.add(rr)
                    n += 1
                    names = {y[1] for y in walk(x, True) if y[0] == "var"} | {y[2] for y in walk(x, True) if y[0] == "mem"}
                    key = "ENDSUM:Hwrite#%d" % n
                    missing = [w for w in ("posn", "length") if w not in names]
                    if missing:
                        ctx.violated("ENDSUM", key, f.where(t.get("l")), "the guard `%s` bounds the end of the write without the term `%s`: a write at a later position of an element near the "
                                     "2^31 limit is accepted and the element's end wraps" % (rr[:80], "`, `".join(missing)))
                    else:
                        ctx.holds("ENDSUM", key, f.where(t.get("l")), "`%s` contains position and length" % rr[:70], nontrivial=True)
    ctx.floor("ENDSUM", 2, n, "(INT32_MAX guards in Hwrite)")
    return n


def rule_dd_length_nonnegative(ctx):
    """NEGLEN (C20, C01): a length that a public routine receives from its caller and stores in a descriptor (HTPupdate) is first
    compared with 0.  A negative length in a descriptor makes the element unreadable (its length can no longer be told from the
    failure value) and corrupts every sum computed from it."""
    prog = ctx.prog
    n = 0
    for f in prog.lib_funcs():
        if not f.rel.startswith("hdf/src/") or not prog.is_public(f.name):
            continue
        params = {p[0] for p in f.params}
        dom = None
        for bid, i, s, c in f.calls():
            if c[1] != "HTPupdate" or len(c[3]) < 3:
                continue
            a = _underlying(c[3][2])
            if kind(a) != "var" or a[1] not in params:
                continue
            n += 1
            key = "NEGLEN:%s:%s" % (f.name, a[1])
            if dom is None:
                dom = f.dominators()
            ok = False
            for b in dom.get(bid, ()):
                t = f.blocks[b].get("term")
                if not t or t.get("cond") is None:
                    continue
                for y in walk(t["cond"], True):
                    if y[0] == "bin" and y[1] in ("<", "<=") and kind(strip(y[2])) == "var" and strip(y[2])[1] == a[1] and is_int(y[3]) and int_val(y[3]) in (0, 1):
                        ok = True
                    if y[0] == "bin" and y[1] in (">", ">=") and kind(strip(y[3])) == "var" and strip(y[3])[1] == a[1] and is_int(y[2]) and int_val(y[2]) in (0, 1):
                        ok = True
            via = None
            if not ok:
                # the value was handed to a routine that refuses negative values itself, and whose failure ends this routine
                for b in dom.get(bid, ()):
                    t = f.blocks[b].get("term")
                    if not t or t.get("cond") is None:
                        continue
                    for k in calls_in(t["cond"], True):
                        for pos, arg in enumerate(k[3]):
                            ua = _underlying(arg)
                            if kind(ua) == "var" and ua[1] == a[1] and k[1]:
                                g = prog.func(k[1])
                                if g is None or pos >= len(g.params):
                                    continue
                                gp = g.params[pos][0]
                                for gb in g.blocks.values():
                                    gt = gb.get("term")
                                    if gt and gt.get("cond") is not None:
                                        for y in walk(gt["cond"], True):
                                            if y[0] == "bin" and y[1] in ("<", "<=") and kind(strip(y[2])) == "var" and strip(y[2])[1] == gp and is_int(y[3], 0):
                                                via = g.name
            if via:
                ctx.holds("NEGLEN", key, f.where(c[5]), "`%s` was first handed to %s, which refuses negative values and whose failure ends %s" % (a[1], via, f.name), nontrivial=True)
            elif ok:
                ctx.holds("NEGLEN", key, f.where(c[5]), "`%s` is compared with 0 before it is stored in the descriptor" % a[1], nontrivial=True)
            else:
                ctx.violated("NEGLEN", key, f.where(c[5]), "the caller's `%s` is stored as the element's length in the descriptor without having been compared with 0: a negative length "
                             "is accepted and the element becomes unreadable" % a[1])
    ctx.floor("NEGLEN", 1, n, "(caller-supplied lengths stored in a descriptor)")
    return n


def rule_transfer_bound_has_position(ctx):
    """POSNTERM (C01): a transfer of `length` bytes starts at the handle's position, so it ends at posn + length.  In Hread and
    Hwrite every comparison that bounds `length` by the element's length (`data_len`) compares posn + length; `length > data_len`
    alone lets a write at a later position run past the end of the element into its neighbour."""
    prog = ctx.prog
    n = 0
    for fn in ("Hread", "Hwrite"):
        f = prog.func(fn)
        if f is None:
            ctx.unrecognised("POSNTERM", "POSNTERM:%s" % fn, "-", "%s not found" % fn)
            continue
        seen = set()
        for b in f.blocks.values():
            t = b.get("term")
            if not t or t.get("cond") is None:
                continue
            for x in walk(t["cond"], True):
                if x[0] == "bin" and x[1] in (">", ">=", "<", "<="):
                    names = {y[1] for y in walk(x, True) if y[0] == "var"} | {y[2] for y in walk(x, True) if y[0] == "mem"}
                    if "data_len" in names and "length" in names:
                        r = render(x)
                        if r in seen:
                            continue
                        seen.add(r)
                        n += 1
                        key = "POSNTERM:%s#%d" % (fn, len(seen))
                        if "posn" in names:
                            ctx.holds("POSNTERM", key, f.where(t.get("l")), "`%s`" % r[:70], nontrivial=True)
                        else:
                            ctx.violated("POSNTERM", key, f.where(t.get("l")), "`%s` bounds the transfer by the element's length without the handle's position: a transfer that starts at posn > 0 "
                                         "may run past the end of the element" % r[:70])
    ctx.floor("POSNTERM", 2, n, "(comparisons of a transfer length with the element length in Hread/Hwrite)")
    return n


def rule_seek_product_bounded(ctx):
    """SEEKPROD (C20): an element offset is a 32-bit quantity.  Where a public routine turns a caller-supplied integer into the byte
    offset it seeks to by multiplying it (record number x record size), the product wraps for a large enough argument and the
    seek lands on an unrelated, *valid* position — the call succeeds at the wrong place instead of failing.  The argument must
    therefore be compared against an upper bound before the seek (or the product has the non-growing form (p / C) * C)."""
    prog = ctx.prog
    n = 0
    for f in prog.lib_funcs():
        if not prog.is_public(f.name):
            continue
        params = {q[0] for q in f.params if "*" not in (q[1] if len(q) > 1 else "") and "[" not in (q[1] if len(q) > 1 else "")}
        if not params:
            continue
        defs = {}
        for _b, _i, _s, x in f.nodes(True):
            if x[0] == "asg" and x[1] == "=" and kind(strip(x[2])) == "var":
                defs.setdefault(strip(x[2])[1], []).append(x[3])
        done = set()
        for _b, _i, s, x in f.nodes(True):
            if not (x[0] == "call" and x[1] in ("Hseek", "HPseek") and len(x[3]) > 1):
                continue
            a = strip(x[3][1])
            exprs = [a] + (defs.get(a[1], []) if kind(a) == "var" else [])
            for e in exprs:
                for y in walk(e, True):
                    if not (y[0] == "bin" and y[1] == "*"):
                        continue
                    facs = [strip(y[2]), strip(y[3])]
                    ps = [z[1] for z in facs if kind(z) == "var" and z[1] in params]
                    floor_form = None
                    for i_, z in enumerate(facs):
                        if kind(z) == "bin" and z[1] == "/" and kind(strip(z[2])) == "var" and strip(z[2])[1] in params and is_int(z[3]) and is_int(facs[1 - i_]) and int_val(z[3]) == int_val(facs[1 - i_]):
                            floor_form = strip(z[2])[1]
                    for p in ps + ([floor_form] if floor_form else []):
                        if (f.name, p) in done:
                            continue
                        done.add((f.name, p))
                        n += 1
                        key = "SEEKPROD:%s:%s" % (f.name, p)
                        line = s.get("l", f.line)
                        if floor_form == p:
                            ctx.holds("SEEKPROD", key, f.where(line), "`%s` has the form (p / C) * C and cannot exceed `%s`" % (render(y), p), nontrivial=True)
                            continue
                        bounded = False
                        for _b2, _i2, s2, c in f.nodes(True):
                            if c[0] == "bin" and c[1] in (">", ">=", "<", "<=") and s2.get("l", 0) <= line:
                                l_, r_ = strip(c[2]), strip(c[3])
                                if c[1] in (">", ">=") and kind(l_) == "var" and l_[1] == p and not is_int(r_, 0):
                                    bounded = True
                                if c[1] in ("<", "<=") and kind(r_) == "var" and r_[1] == p and not is_int(l_, 0):
                                    bounded = True
                        if bounded:
                            ctx.holds("SEEKPROD", key, f.where(line), "`%s` is compared with an upper bound before `%s` becomes the seek offset" % (p, render(y)[:60]), nontrivial=True)
                        else:
                            ctx.violated("SEEKPROD", key, f.where(line), "the seek offset `%s` multiplies the caller's `%s`, which is never compared with an upper bound: for a large argument the 32-bit product wraps "
                                         "and the seek succeeds at an unrelated position" % (render(y)[:70], p))
    ctx.floor("SEEKPROD", 2, n, "(seek offsets that multiply a caller-supplied integer)")
    return n


class _CtrGuard(PathAnalysis):
    """user = frozenset of (record, field) that were compared with a limit constant on this path"""

    def __init__(self, prog, fields):
        super().__init__(prog)
        self.fields = fields
        self.sites = {}

    def init_user(self, func):
        return frozenset()

    def on_assume(self, func, bid, cond, pol, env, user):
        u = None
        for c in walk(cond, True):
            if c[0] == "bin" and c[1] in (">", ">=", "==", "<", "<=", "!=") and mem_field(c[2]) in self.fields and is_int(c[3]) and abs(int_val(c[3])) >= 255:
                u = (u or set(user))
                u.add(mem_field(c[2]))
        return frozenset(u) if u else user

    def on_stmt(self, func, bid, idx, stmt, env, user):
        for x in walk(stmt["e"]):
            t = None
            if x[0] == "incdec" and x[1] == "++":
                t = strip(x[3])
            elif x[0] == "asg" and x[1] == "+=":
                t = strip(x[2])
            if t is not None and mem_field(t) in self.fields:
                k = (mem_field(t), stmt.get("l", 0), render(t))
                self.sites[k] = self.sites.get(k, True) and (mem_field(t) in user)
        return user


def rule_counter_wrap_guard(ctx):
    """COUNTERWRAP (C20): the library counts members, references and definitions in 16-bit fields of its in-memory records.  Every
    `field++` on such a field must be preceded, on every path that reaches it, by a test of that same field against a limit
    constant: an increment whose limit test sits on only some of the paths, or is missing, lets the counter wrap to zero or to a
    negative value, and everything that was counted is lost to later calls."""
    prog = ctx.prog
    n = 0
    for f in prog.lib_funcs():
        fields = set()
        for bid, i, s, x in f.nodes(True):
            t = None
            if x[0] == "incdec" and x[1] == "++":
                t = strip(x[3])
            elif x[0] == "asg" and x[1] == "+=":
                t = strip(x[2])
            if t is None or kind(t) != "mem":
                continue
            ty = t[4] if len(t) > 4 else None
            bits = prog.int_bits(ty) if isinstance(ty, str) else None
            bits = bits[0] if isinstance(bits, tuple) else bits
            if bits is None or bits > 16:
                continue
            fields.add(mem_field(t))
        if not fields:
            continue
        a = _CtrGuard(prog, fields)
        a.fails = fail_values(f, prog)
        a.run(f)
        for (mf, line, shown), ok in sorted(a.sites.items()):
            n += 1
            key = "COUNTERWRAP:%s:%s" % (f.name, shown)
            if ok:
                ctx.holds("COUNTERWRAP", key, f.where(line), "`%s` is incremented only on paths that compared it with a limit" % shown, nontrivial=True)
            else:
                ctx.violated("COUNTERWRAP", key, f.where(line), "the 16-bit counter `%s` is incremented on a path where it was not compared with a limit: it wraps, and what it counted is lost to every later call" % shown)
    ctx.floor("COUNTERWRAP", 3, n, "(increments of 16-bit counter fields)")
    return n


def rule_limit_test_alive(ctx):
    """LIMITDEAD (C20, C07): a limit test `v > LIMIT` only protects anything if v can exceed LIMIT.  When the value was narrowed
    to an unsigned type whose largest value is <= LIMIT in the assignment that feeds the test (`v = (uint16)(a + b); if (v > 65535)`),
    the sum has already wrapped and the test can never fire: an over-long record or field is accepted with a wrapped size.
    Instances: every comparison of a local with a named limit constant whose last assignment in the same basic block is visible."""
    prog = ctx.prog
    n = 0
    occ = {}
    for f in prog.lib_funcs():
        for bid, b in sorted(f.blocks.items(), key=lambda kv: (kv[1].get("term") or {}).get("l", 0) if isinstance(kv[1].get("term"), dict) else 0):
            t = b.get("term")
            if not t or t.get("cond") is None:
                continue
            for c in walk(t["cond"], True):
                if not (c[0] == "bin" and c[1] in (">", ">=") and kind(strip(c[2])) == "var" and is_int(c[3]) and len(strip(c[3])) > 2 and strip(c[3])[2] and int_val(c[3]) >= 255):
                    continue
                v = strip(c[2])[1]
                last = None
                for s in b.get("s", []):
                    for x in walk(s["e"], True):
                        if x[0] == "asg" and x[1] == "=" and kind(strip(x[2])) == "var" and strip(x[2])[1] == v:
                            last = (x, s)
                if last is None:
                    continue
                n += 1
                x, s = last
                r = unseen(x[3])
                key = "LIMITDEAD:%s:%s>%s" % (f.name, v, strip(c[3])[2])
                occ[key] = occ.get(key, 0) + 1
                if occ[key] > 1:
                    key += "#%d" % occ[key]
                dead = False
                if kind(r) == "cast":
                    bits = prog.int_bits(r[1])
                    bits = bits if isinstance(bits, tuple) else (bits, None)
                    if bits[0] and bits[0] < 32 and not (bits[1] if bits[1] is not None else r[1].startswith(("int", "short", "char", "signed"))):
                        mx = (1 << bits[0]) - 1
                        lim = int_val(c[3]) - (1 if c[1] == ">=" else 0)
                        inner = strip(r[2])
                        if mx <= lim and kind(inner) == "bin":
                            dead = True
                if dead:
                    ctx.violated("LIMITDEAD", key, f.where(s.get("l", f.line)), "`%s` is narrowed by `%s` before it is compared with %s: the narrowed value cannot exceed the limit, so the test never fires and a wrapped value is accepted" % (v, render(r)[:60], strip(c[3])[2]))
                else:
                    ctx.holds("LIMITDEAD", key, f.where(s.get("l", f.line)), "`%s` reaches the test against %s unnarrowed" % (v, strip(c[3])[2]), nontrivial=True)
    ctx.floor("LIMITDEAD", 5, n, "(limit tests on a local assigned in the same block)")
    return n


class _NegClamp(PathAnalysis):
    """user = frozenset of locals that hold `<length> - <position>` and have not been compared with 0 since"""

    def __init__(self, prog):
        super().__init__(prog)
        self.sites = {}
        self.clamps = 0

    def init_user(self, func):
        return frozenset()

    def on_stmt(self, func, bid, idx, stmt, env, user):
        u = set(user)
        for x in walk(stmt["e"]):
            if x[0] == "asg" and x[1] == "=" and kind(strip(x[2])) == "var":
                v = strip(x[2])[1]
                r = strip(x[3])
                if kind(r) == "bin" and r[1] == "-" and (mem_field(r[3]) or (0, 0))[1] == "posn":
                    u.add(v)
                    self.clamps += 1
                else:
                    u.discard(v)
            elif x[0] == "call" and x[1] not in ("HEpush", "HEreport", "HERROR"):
                for a in x[3]:
                    a = strip(a)
                    while kind(a) == "cast":
                        a = strip(a[2])
                    if kind(a) == "var" and a[1] in u:
                        self.sites.setdefault((a[1], x[1], stmt.get("l", 0)), True)
                        self.sites[(a[1], x[1], stmt.get("l", 0))] = False
            if x[0] == "asg" and x[1] == "+=" and (mem_field(x[2]) or (0, 0))[1] == "posn" and kind(strip(x[3])) == "var" and strip(x[3])[1] in u:
                self.sites[(strip(x[3])[1], "posn +=", stmt.get("l", 0))] = False
        return frozenset(u)

    def on_assume(self, func, bid, cond, pol, env, user):
        u = None
        for c in walk(cond, True):
            if c[0] == "bin" and c[1] in ("<", "<=", ">", ">=") and kind(strip(c[2])) == "var" and strip(c[2])[1] in user and is_int(c[3], 0):
                u = (u or set(user))
                u.discard(strip(c[2])[1])
            elif c[0] == "bin" and c[1] in ("<", "<=", ">", ">=") and kind(strip(c[3])) == "var" and strip(c[3])[1] in user and is_int(c[2], 0):
                u = (u or set(user))
                u.discard(strip(c[3])[1])  # 0 > length
            elif c[0] == "bin" and c[1] in ("<", "<=", ">", ">="):
                # used as a bound for another quantity (`remaining > length`) while its sign is unknown
                for a, o in ((c[2], c[3]), (c[3], c[2])):
                    a = strip(a)
                    if kind(a) == "var" and a[1] in user and not is_int(o):
                        self.sites[(a[1], "bound of `%s`" % render(c)[:30], 0)] = False
        return frozenset(u) if u is not None else user


def rule_clamp_sign_checked(ctx):
    """NEGCLAMP (C01): an extendable element lets Hseek move the position past its end.  The read routines shorten a request that
    runs off the end to `length - posn`; with the position beyond the end that is negative.  On every path, a local that was
    given `<something> - posn` must be compared with 0 before it is handed to a call (copy, file read, coder) or added to the
    position: otherwise the routine copies or reads with a huge unsigned size, or reports a negative transfer count as success."""
    prog = ctx.prog
    n = 0
    for f in prog.lib_funcs():
        if not f.rel.startswith("hdf/src/") or not f.name.endswith("read"):
            continue
        if not any(x[0] == "asg" and x[1] == "=" and kind(strip(x[3])) == "bin" and strip(x[3])[1] == "-" and (mem_field(strip(x[3])[3]) or (0, 0))[1] == "posn" for _b, _i, _s, x in f.nodes(True)):
            continue
        a = _NegClamp(prog)
        a.fails = fail_values(f, prog)
        a.run(f)
        n += 1
        key = "NEGCLAMP:%s" % f.name
        bad = sorted(k for k, ok in a.sites.items() if not ok)
        if bad:
            v, use, line = bad[0]
            ctx.violated("NEGCLAMP", key, f.where(line), "`%s` holds `<length> - posn` and reaches `%s` on a path that never compared it with 0: after a seek past the end it is negative" % (v, use))
        else:
            ctx.holds("NEGCLAMP", key, f.where(), "a request clamped to `<length> - posn` is compared with 0 before it is used", nontrivial=True)
    ctx.floor("NEGCLAMP", 5, n, "(read routines that clamp a request to the rest of the element)")
    return n


def rule_origin_applied_first(ctx):
    """ORIGINFIRST (C01): Hseek takes an offset relative to an origin (start, current position, end) and turns it into an absolute
    position by adding the current position or the element length.  Every decision it takes about the offset — "nothing to
    do", range checks, promotion to linked blocks — is a statement about the *absolute* position, so no condition may read
    `offset` before both origin adjustments have been made.  A test placed earlier compares a relative offset with an absolute
    position: Hseek(aid, 10, DF_CURRENT) at position 10 then returns success without moving."""
    from .codec import ast_walk
    prog = ctx.prog
    n = 0
    for fn in ("Hseek",):
        f = prog.func(fn)
        if f is None or not f.raw.get("ast"):
            ctx.unrecognised("ORIGINFIRST", "ORIGINFIRST:%s" % fn, "-", "%s not found" % fn)
            continue
        params = [q[0] for q in f.params]
        order = []
        ast_walk(f.raw["ast"], lambda nd, st: (order.append((nd, list(st))), True)[1])
        adj_idx = []
        offv = None
        for i, (nd, st) in enumerate(order):
            if nd[0] == "s":
                for x in walk(nd[1], True):
                    if x[0] == "asg" and x[1] == "+=" and kind(strip(x[2])) == "var" and strip(x[2])[1] in params:
                        encl = [s_ for s_ in st if s_[0] == "if" and any(y[0] == "var" and y[1] in params and y[1] != strip(x[2])[1] for y in walk(s_[1], True))]
                        if encl:
                            adj_idx.append(i)
                            offv = strip(x[2])[1]
        if len(adj_idx) < 2 or offv is None:
            ctx.unrecognised("ORIGINFIRST", "ORIGINFIRST:%s" % fn, f.where(), "the two origin adjustments (offset += position / += length) were not found")
            continue
        last_adj = max(adj_idx)
        k = 0
        for i, (nd, st) in enumerate(order):
            if nd[0] != "if":
                continue
            if not any(y[0] == "var" and y[1] == offv for y in walk(nd[1], True)):
                continue
            k += 1
            n += 1
            key = "ORIGINFIRST:%s#%d" % (fn, k)
            line = nd[-3] if isinstance(nd[-3], int) else f.line
            if i < last_adj:
                ctx.violated("ORIGINFIRST", key, f.where(line), "`%s` is tested while `%s` may still be relative to DF_CURRENT / DF_END: the origin adjustments come later" % (render(nd[1])[:60], offv))
            else:
                ctx.holds("ORIGINFIRST", key, f.where(line), "`%s` is evaluated after both origin adjustments" % render(nd[1])[:60], nontrivial=True)
    ctx.floor("ORIGINFIRST", 2, n, "(decisions Hseek takes about the offset)")
    return n


def rule_clamp_to_tested_bound(ctx):
    """CLAMPSAME (C01, C07): `if (x > a) x = b;` with a and b both variables or fields is a clamp: it is meant to bring x back inside
    a limit, and it does so only when the limit it tests is the limit it assigns.  With two different quantities (the old length
    tested, the new one assigned) the test does not fire when it should — the position survives a truncation and points outside
    the element.  Instances: every one-armed `if` whose only statement assigns the compared variable another variable/field."""
    from .codec import ast_walk
    prog = ctx.prog
    n = 0
    occ = {}
    for f in prog.lib_funcs():
        ast = f.raw.get("ast")
        if not ast:
            continue
        found = []

        def vis(nd, st):
            if nd[0] == "if" and nd[3] is None:
                c = strip(nd[1])
                if kind(c) == "bin" and c[1] in (">", ">=", "<", "<="):
                    arm = nd[2]
                    kids = arm[1] if arm[0] == "block" else [arm]
                    if len(kids) == 1 and kids[0][0] == "s":
                        e = strip(kids[0][1])
                        if kind(e) == "asg" and e[1] == "=":
                            X, B = strip(e[2]), strip(e[3])
                            for L, R in ((strip(c[2]), strip(c[3])), (strip(c[3]), strip(c[2]))):
                                if render(X) == render(L) and kind(R) in ("var", "mem") and kind(B) in ("var", "mem"):
                                    found.append((nd, render(X), render(R), render(B)))
            return True

        ast_walk(ast, vis)
        for nd, X, A, B in found:
            n += 1
            key = "CLAMPSAME:%s:%s" % (f.name, X[:30])
            occ[key] = occ.get(key, 0) + 1
            if occ[key] > 1:
                key += "#%d" % occ[key]
            line = nd[-3] if isinstance(nd[-3], int) else f.line
            if A == B:
                ctx.holds("CLAMPSAME", key, f.where(line), "`%s` is clamped to the bound it is tested against (`%s`)" % (X[:40], A[:40]), nontrivial=True)
            else:
                ctx.violated("CLAMPSAME", key, f.where(line), "`%s` is tested against `%s` but set to `%s`: when the two differ the clamp does not fire where it should" % (X[:40], A[:40], B[:40]))
    ctx.floor("CLAMPSAME", 10, n, "(clamps between variables)")
    return n


class _CommitLast(PathAnalysis):
    """user: True once the 'new element' flag has been cleared on this path"""

    def __init__(self, prog):
        super().__init__(prog)
        self.exits = []
        self.clears = 0

    def init_user(self, func):
        return False

    def on_stmt(self, func, bid, idx, stmt, env, user):
        u = user
        for x in walk(stmt["e"]):
            if x[0] == "asg" and x[1] == "=" and (mem_field(x[2]) or (0, 0))[1] == "new_elem" and is_int(x[3], 0):
                u = True
                self.clears += 1
        return u

    def on_exit(self, func, bid, retval, env, user):
        self.exits.append((classify_ret(retval, self.fails), user))


def rule_new_flag_cleared_last(ctx):
    """COMMITLAST (C20): an element that has been created but has no space yet carries `new_elem`; Hsetlength gives it its space and
    then clears the flag.  The request can be refused (the space would end beyond 2^31-1): then the flag must still be set, so
    that the same access element can be given a length that fits, or simply be written to.  No failing exit of Hsetlength may
    lie behind the statement that clears the flag; cleared first, a refused request leaves an element that is neither new nor
    placed, and every later Hsetlength/Hwrite on it fails."""
    prog = ctx.prog
    f = prog.func("Hsetlength")
    if f is None:
        ctx.unrecognised("COMMITLAST", "COMMITLAST:Hsetlength", "-", "Hsetlength not found")
        return 0
    a = _CommitLast(prog)
    a.fails = fail_values(f, prog)
    a.run(f)
    key = "COMMITLAST:Hsetlength"
    if not a.clears:
        ctx.unrecognised("COMMITLAST", key, f.where(), "Hsetlength no longer clears `new_elem`")
        return 0
    if any(cls == "fail" and u for cls, u in a.exits):
        ctx.violated("COMMITLAST", key, f.where(), "Hsetlength can fail after it has cleared `new_elem`: a refused request leaves the access element half-initialised (not new, no offset/length), and it cannot be used again")
    else:
        ctx.holds("COMMITLAST", key, f.where(), "`new_elem` is cleared only after every call that can refuse the request has succeeded", nontrivial=True)
    ctx.floor("COMMITLAST", 1, 1, "(routines that turn a new element into a placed one)")
    return 1


class _FreeThenFail(PathAnalysis):
    def __init__(self, prog, freers):
        super().__init__(prog)
        self.freers = freers
        self.exits = []
        self.frees = 0

    def init_user(self, func):
        return False

    def on_stmt(self, func, bid, idx, stmt, env, user):
        u = user
        for x in walk(stmt["e"]):
            if x[0] == "call" and x[1] in self.freers:
                u = True
                self.frees += 1
        return u

    def on_exit(self, func, bid, retval, env, user):
        self.exits.append((classify_ret(retval, self.fails), user))


def rule_replace_frees_after_success(ctx):
    """REPLACESAFE (C20): renaming replaces a name object: a new NC_string is made and the old one is freed.  Making the new one can be
    refused (the name is longer than H4_MAX_NC_NAME): the routine then returns its failure value, and the dimension or variable
    must still have its old name.  In a routine that both creates (NC_new_string) and frees (NC_free_string) a name, no failing
    exit lies behind the free: freed first, a refused rename leaves a dangling or NULL name that the next SDdiminfo/SDend
    dereferences."""
    prog = ctx.prog
    n = 0
    for f in prog.lib_funcs():
        if not f.rel.startswith("mfhdf/src/"):
            continue
        names = {c[1] for _b, _i, _s, c in f.calls() if isinstance(c[1], str)}
        news = {x for x in names if x.endswith("NC_new_string")}
        frees = {x for x in names if x.endswith("NC_free_string")}
        if not news or not frees or not prog.is_public(f.name):
            continue
        a = _FreeThenFail(prog, frees)
        a.fails = fail_values(f, prog)
        a.run(f)
        n += 1
        key = "REPLACESAFE:%s" % f.name
        if any(cls == "fail" and u for cls, u in a.exits):
            ctx.violated("REPLACESAFE", key, f.where(), "%s can return its failure value after it has freed the old name: a refused rename leaves the object without a valid name" % f.name)
        else:
            ctx.holds("REPLACESAFE", key, f.where(), "the old name is freed only on paths that can no longer fail", nontrivial=True)
    ctx.floor("REPLACESAFE", 1, n, "(public routines that replace a name object)")
    return n


def rule_byte_count_product_bounded(ctx, files=("hdf/src/vrw.c",)):
    """PRODBOUND (C20): VSread and VSwrite turn the caller's record count into a byte count, `record size x count`, in a 32-bit local
    that sizes the transfer buffer and the Hread/Hwrite that follows.  The record size goes up to 65535, so a count above
    INT32_MAX / size wraps the product to a small number: the call then transfers a few bytes and reports the full count.  In a
    public routine, a caller-supplied integer that is multiplied into such a local is compared with an upper bound before the
    product (same decision procedure as SEEKPROD)."""
    prog = ctx.prog
    n = 0
    for f in prog.lib_funcs():
        if not f.rel.endswith(tuple(files)) or not prog.is_public(f.name):
            continue
        params = {q[0] for q in f.params if "*" not in (q[1] if len(q) > 1 else "")}
        done = set()
        for _b, _i, s, x in f.nodes(True):
            if not (x[0] == "asg" and x[1] == "=" and kind(strip(x[2])) == "var"):
                continue
            r = strip(x[3])
            if not (kind(r) == "bin" and r[1] == "*"):
                continue
            ps = [z[1] for z in (strip(r[2]), strip(r[3])) if kind(z) == "var" and z[1] in params]
            for p in ps:
                if (f.name, p, strip(x[2])[1]) in done:
                    continue
                done.add((f.name, p, strip(x[2])[1]))
                n += 1
                line = s.get("l", f.line)
                key = "PRODBOUND:%s:%s" % (f.name, strip(x[2])[1])
                bounded = False
                for _b2, _i2, s2, c in f.nodes(True):
                    if c[0] == "bin" and c[1] in (">", ">=", "<", "<=") and s2.get("l", 0) <= line:
                        l_, r_ = strip(c[2]), strip(c[3])
                        if c[1] in (">", ">=") and kind(l_) == "var" and l_[1] == p and not is_int(r_, 0):
                            bounded = True
                        if c[1] in ("<", "<=") and kind(r_) == "var" and r_[1] == p and not is_int(l_, 0):
                            bounded = True
                if bounded:
                    ctx.holds("PRODBOUND", key, f.where(line), "`%s` is compared with an upper bound before `%s`" % (p, render(x)[:50]), nontrivial=True)
                else:
                    ctx.violated("PRODBOUND", key, f.where(line), "`%s` multiplies the caller's `%s`, which is never compared with an upper bound: a large count wraps the 32-bit byte count and the call transfers less than it reports" % (render(x)[:60], p))
    ctx.floor("PRODBOUND", 2, n, "(byte counts computed from a caller-supplied record count)")
    return n


def rule_min_form_consistent(ctx):
    """MINFORM (C04): `if (A > B) v = B; else v = A;` takes the smaller of two quantities — a piece size that is the rest of the request
    or the rest of the chunk/block, whichever ends first.  It does so only if the quantity tested is the quantity assigned in the
    other arm.  With a different first operand in the test (the nominal chunk length where the length of the *last*, partial
    chunk is assigned) the piece runs past the valid part of a partial chunk for some requests, and elements of the next row are
    read from or written into its unused cells.  Instances: every if/else in the library whose two arms assign the same target,
    one of them the right operand of the comparison."""
    from .codec import ast_walk
    prog = ctx.prog
    n = 0
    occ = {}
    for f in prog.lib_funcs():
        ast = f.raw.get("ast")
        if not ast:
            continue
        found = []

        def one_asg(arm):
            kids = arm[1] if arm[0] == "block" else [arm]
            if len(kids) != 1 or kids[0][0] != "s":
                return None
            e = strip(kids[0][1])
            return e if kind(e) == "asg" and e[1] == "=" else None

        def vis(nd, st):
            if nd[0] == "if" and nd[3] is not None:
                c = strip(nd[1])
                if kind(c) == "bin" and c[1] in (">", ">=", "<", "<="):
                    a1, a2 = one_asg(nd[2]), one_asg(nd[3])
                    if a1 is not None and a2 is not None and render(strip(a1[2])) == render(strip(a2[2])) and not is_int(c[2]) and not is_int(c[3]):
                        L, R = render(strip(c[2])), render(strip(c[3]))
                        t, e = render(strip(a1[3])), render(strip(a2[3]))
                        # then-arm takes one operand of the comparison; the else-arm must take the other
                        if t == R and kind(strip(c[2])) not in ("var", "int"):
                            found.append((nd, L, e))
                        elif t == L and kind(strip(c[3])) not in ("var", "int"):
                            found.append((nd, R, e))
            return True

        ast_walk(ast, vis)
        for nd, tested, assigned in found:
            n += 1
            key = "MINFORM:%s" % f.name
            occ[key] = occ.get(key, 0) + 1
            if occ[key] > 1:
                key += "#%d" % occ[key]
            line = nd[-3] if isinstance(nd[-3], int) else f.line
            if tested == assigned:
                ctx.holds("MINFORM", key, f.where(line), "the quantity tested (`%s`) is the one assigned in the other arm" % tested[:60], nontrivial=True)
            else:
                ctx.violated("MINFORM", key, f.where(line), "the test uses `%s` but the other arm assigns `%s`: this is not the smaller of the two quantities whenever they differ" % (tested[:70], assigned[:70]))
    ctx.floor("MINFORM", 2, n, "(if/else pairs that take the smaller of two quantities)")
    return n


def rule_narrowed_ref_bounded(ctx):
    """NARROWREF (C20, C13): the id of an existing Vgroup/Vdata is its reference number, and the instance look-ups take a uint16.
    A public routine that casts its int32 id parameter to uint16 for `vginst`/`vsinst` first compares the parameter with the
    largest reference (MAX_REF, 65535): without that, id 65536 + r wraps onto the object with reference r and the call
    succeeds on an object that was never named."""
    from .codec import ast_walk
    from .facts import calls_in, int_name
    prog = ctx.prog
    n = 0
    for f in prog.lib_funcs():
        ast = f.raw.get("ast")
        if not ast or not f.rel.startswith("hdf/src/v"):
            continue
        ptypes = {}
        for p in f.params:
            nm, ty = (p[0], p[1]) if isinstance(p, (list, tuple)) else (p.get("name"), p.get("type"))
            ptypes[nm] = ty or ""
        order = []
        ast_walk(ast, lambda nd, st: (order.append(nd) if nd[0] in ("s", "if", "while") and nd[1] is not None else None, True)[1])
        bounded = set()
        k = 0
        for nd in order:
            for x in walk(nd[1], True):
                if x[0] == "bin" and x[1] in (">", ">=", "<", "<="):
                    for a_, b_ in ((x[2], x[3]), (x[3], x[2])):
                        a_, b_ = strip(a_), strip(b_)
                        if kind(a_) == "var" and kind(b_) == "int" and (int_name(b_) == "MAX_REF" or b_[1] in (65535, 65536)):
                            bounded.add(a_[1])
            for c in calls_in(nd[1], True):
                if c[1] not in ("vginst", "vsinst") or len(c[3]) < 2:
                    continue
                a = c[3][1]
                inner = strip(a)
                if kind(inner) != "var" or inner[1] not in ptypes:
                    continue
                if "int32" not in ptypes[inner[1]] and ptypes[inner[1]] not in ("int", "long"):
                    continue        # already a uint16 parameter: nothing is narrowed here
                k += 1
                n += 1
                key = "NARROWREF:%s#%d" % (f.name, k)
                line = nd[-3] if isinstance(nd[-3], int) else f.line
                if inner[1] in bounded:
                    ctx.holds("NARROWREF", key, f.where(line), "`%s` is compared with the largest reference before it is narrowed for %s" % (inner[1], c[1]), nontrivial=True)
                else:
                    ctx.violated("NARROWREF", key, f.where(line), "the int32 parameter `%s` is narrowed to uint16 for %s with no comparison against MAX_REF before it: an id of 65536 + r finds the object with reference r" % (inner[1], c[1]))
    ctx.floor("NARROWREF", 3, n, "(instance look-ups keyed by a narrowed id parameter)")
    return n


def rule_append_gap_filled(ctx):
    """GAPZERO (C01): an appendable element that is last in the file grows in place: Hwrite raises the length in the descriptor
    and writes the new bytes at `posn`.  When the write starts beyond the old end (`posn > data_len`, after a seek past the
    end) the bytes in between become part of the element and must read as zeros; the file may already hold other bytes there
    (the element was truncated earlier), so the branch that extends the element writes them: under a test of `posn` against
    the old length it transfers a zero buffer before the data."""
    from .codec import ast_walk
    from .facts import calls_in
    prog = ctx.prog
    f = prog.func("Hwrite")
    n = 0
    if f is None or not f.raw.get("ast"):
        ctx.unrecognised("GAPZERO", "GAPZERO:Hwrite", "-", "Hwrite not found")
        return 0
    ext = []

    def vis(nd, st):
        if nd[0] == "if" and nd[1] is not None and any(x[0] == "mem" and x[2] == "appendable" for x in walk(nd[1], True)) and any(x[0] == "bin" and x[1] == ">" for x in walk(nd[1], True)):
            from .rules_loops import _terminates
            if not _terminates(nd[2]):          # the refusal of writes past the end of a non-appendable element is not an extension
                ext.append(nd)
        return True

    ast_walk(f.raw["ast"], vis)
    for k, nd in enumerate(ext, 1):
        n += 1
        key = "GAPZERO:Hwrite#%d" % k
        line = nd[-3] if isinstance(nd[-3], int) else f.line
        fills = []

        def vis2(k2, st):
            if k2[0] == "if" and k2[1] is not None:
                c = k2[1]
                cmp_ = any(x[0] == "bin" and x[1] in (">", "<") and any(y[0] == "mem" and y[2] == "posn" for y in walk(x, True)) and any(y[0] == "var" and "len" in y[1] for y in walk(x, True)) for x in walk(c, True))
                if cmp_:
                    writes = []
                    ast_walk(k2[2], lambda k3, s3: (writes.extend(1 for cc in (calls_in(k3[1], True) if k3[0] in ("s", "if", "while") and k3[1] is not None else []) if cc[1] in ("HP_write", "HI_WRITE")), True)[1])
                    if writes:
                        fills.append(k2)
            return True

        ast_walk(nd[2], vis2)
        if fills:
            ctx.holds("GAPZERO", key, f.where(line), "the branch that extends an appendable element writes the gap between the old end and the write position", nontrivial=True)
        else:
            ctx.violated("GAPZERO", key, f.where(line), "the branch that extends an appendable element in place never writes the bytes between the old end and `posn`: after a truncate they still hold the old data, which then reads back inside the element")
    ctx.floor("GAPZERO", 1, n, "(in-place extensions of an appendable element)")
    return n


def rule_zero_length_is_rest(ctx):
    """ZEROREST (C05, C01): Hread(aid, 0, buf) means "the rest of the element from the current position".  Every read routine
    of a storage kind that translates the 0 does so with a difference that involves the position (`length = X->length -
    access_rec->posn`); `length = X->length` alone is right only at position 0 - after a partial read it asks the coder for
    more than is left, the returned count is wrong and the caller's buffer, sized for the remainder, is overrun."""
    from .codec import ast_walk
    prog = ctx.prog
    n = 0
    for f in prog.lib_funcs():
        ast = f.raw.get("ast")
        if not ast or not f.rel.startswith("hdf/src/"):
            continue
        params = {(p[0] if isinstance(p, (list, tuple)) else p.get("name")) for p in f.params}
        if "length" not in params or not any("accrec_t" in ((p[1] if isinstance(p, (list, tuple)) else p.get("type")) or "") for p in f.params):
            continue
        found = []

        def vis(nd, st):
            if nd[0] == "if" and nd[1] is not None:
                c = strip(nd[1])
                if kind(c) == "bin" and c[1] == "==" and ((kind(strip(c[2])) == "var" and strip(c[2])[1] == "length" and is_int(c[3], 0)) or (kind(strip(c[3])) == "var" and strip(c[3])[1] == "length" and is_int(c[2], 0))):
                    for e, _k in __import__("h4rules.rules_loops", fromlist=["seq_of"]).seq_of(nd[2]):
                        for x in walk(e, True):
                            if x[0] == "asg" and x[1] == "=" and kind(strip(x[2])) == "var" and strip(x[2])[1] == "length":
                                found.append((nd, x[3]))
            return True

        ast_walk(ast, vis)
        for k, (nd, rhs) in enumerate(found, 1):
            n += 1
            key = "ZEROREST:%s#%d" % (f.name, k)
            line = nd[-3] if isinstance(nd[-3], int) else f.line
            r = strip(rhs)
            uses_posn = any(x[0] == "mem" and x[2] == "posn" for x in walk(r, True)) or any(x[0] == "var" and "posn" in x[1] for x in walk(r, True))
            if f.name in ("HRPread", "HRPwrite"):
                ctx.excepted("ZEROREST", key, f.where(line), "old-style compressed raster: only whole-image transfers are accepted and every transfer starts at 0, so the image size is what is left")
            elif kind(r) == "bin" and r[1] == "-" and uses_posn:
                ctx.holds("ZEROREST", key, f.where(line), "a length of 0 becomes `%s`: what is left from the current position" % render(r)[:50], nontrivial=True)
            else:
                ctx.violated("ZEROREST", key, f.where(line), "a length of 0 becomes `%s`, which does not take the current position off: after a partial read the request exceeds what is left" % render(r)[:50])
    ctx.floor("ZEROREST", 3, n, "(translations of a zero read length)")
    return n


def rule_maxref_inclusive(ctx):
    """MAXREFINCL (C12, C20): reference numbers run from 1 to MAX_REF (65535) *inclusive*.  A loop that enumerates the references
    to find a free one continues while `ref <= MAX_REF`; with `<` the last reference is never examined and Hnewref reports
    "no reference left" (0) while 65535 is still free."""
    from .facts import int_name
    from .rules_loops import loops_of
    prog = ctx.prog
    n = 0
    for f in prog.lib_funcs():
        if not f.rel.endswith("hdf/src/hfiledd.c"):
            continue
        k = 0
        for lp, st in loops_of(f):
            if lp[0] != "for" or lp[2] is None:
                continue
            for x in walk(lp[2], True):
                if x[0] == "bin" and x[1] in ("<", "<=") and (int_name(x[3]) == "MAX_REF" or (is_int(x[3]) and int_val(x[3]) == 65535)) and kind(strip(x[2])) == "var":
                    k += 1
                    n += 1
                    key = "MAXREFINCL:%s#%d" % (f.name, k)
                    line = lp[-3] if isinstance(lp[-3], int) else f.line
                    if x[1] == "<=":
                        ctx.holds("MAXREFINCL", key, f.where(line), "the enumeration of references includes MAX_REF", nontrivial=True)
                    else:
                        ctx.violated("MAXREFINCL", key, f.where(line), "the enumeration of references stops before MAX_REF: reference 65535 is never examined and is reported as unavailable while it is free")
    ctx.floor("MAXREFINCL", 1, n, "(enumerations of the reference range)")
    return n


def rule_truncate_only_shrinks(ctx):
    """TRUNCONLY (C02, C01): Htrunc sets the length in the descriptor without allocating anything, which is sound only when the
    new length is smaller than the old one.  The update sits under the single comparison `data_len > trunc_len`; a guard that
    lets any other case through (an `||` arm for appendable elements) lets the descriptor claim bytes that belong to the
    next element, or that lie beyond the end of the file."""
    from .codec import ast_walk
    from .facts import calls_in
    prog = ctx.prog
    f = prog.func("Htrunc")
    if f is None or not f.raw.get("ast"):
        ctx.unrecognised("TRUNCONLY", "TRUNCONLY:Htrunc", "-", "Htrunc not found")
        return 0
    found = []

    def vis(nd, st):
        if nd[0] == "if" and nd[1] is not None:
            inner = []
            ast_walk(nd[2], lambda k, s2: (inner.extend(1 for c in (calls_in(k[1], True) if k[0] in ("s", "if") and k[1] is not None else []) if c[1] == "HTPupdate"), True)[1])
            if inner and not any(a[0] == "if" and any(c[1] == "HTPupdate" for c in calls_in(a[1], True)) for a in [nd]):
                found.append(nd)
        return True

    ast_walk(f.raw["ast"], vis)
    n = 0
    for k, nd in enumerate(found[:1], 1):
        n += 1
        key = "TRUNCONLY:Htrunc"
        line = nd[-3] if isinstance(nd[-3], int) else f.line
        c = strip(nd[1])
        single = kind(c) == "bin" and c[1] in (">", "<") and not any(x[0] == "bin" and x[1] in ("||", "&&") for x in walk(c, True))
        if single:
            ctx.holds("TRUNCONLY", key, f.where(line), "the descriptor's length is lowered only under `%s`" % render(c)[:40], nontrivial=True)
        else:
            ctx.violated("TRUNCONLY", key, f.where(line), "the descriptor's length is rewritten under `%s`, which admits more than a shrink: nothing is allocated for a larger length" % render(c)[:70])
    ctx.floor("TRUNCONLY", 1, n, "(the guard of Htrunc's descriptor update)")
    return n
