"""C14: read-only access — F5A open-mode flow, F5B refusal of mutations without a write-permission guard."""
from .facts import kind, strip, walk, path, render, int_val, is_int, calls_in, mem_field, unseen, AnalysisBroken
from .flow import PathAnalysis, fail_values, classify_ret, freeze

DFACC_READ, DFACC_WRITE, DFACC_CREATE = 1, 2, 4
WRITABLE_MODES = ("w", "a", "r+", "rb+", "wb", "wb+", "ab", "ab+", "w+", "a+", "r+b", "w+b", "a+b")

# ---------------------------------------------------------------------------------------
# F5A


class OpenMode(PathAnalysis):
    """fact: a write-permission test has passed on this path"""

    def __init__(self, prog):
        super().__init__(prog)
        self.sites = {}

    def init_user(self, func):
        return False

    def on_assume(self, func, bid, cond, pol, env, user):
        if user:
            return user
        return user or _is_write_test(cond, pol)

    def on_switch_edge(self, func, bid, cond, case, env, user):
        if case and case.get("case") is not None and isinstance(case["case"], int):
            nm = case.get("name", "")
            if nm in ("DFACC_WRITE", "DFACC_RDWR", "DFACC_CREATE", "DFACC_ALL", "NC_WRITE", "NC_CLOBBER", "NC_NOCLOBBER"):
                return True
        return user

    def on_stmt(self, func, bid, idx, stmt, env, user):
        for c in calls_in(stmt["e"]):
            if c[1] in ("fopen", "freopen") and len(c[3]) >= 2:
                m = strip(c[3][1])
                if kind(m) == "str":
                    if m[1] in WRITABLE_MODES:
                        k = (c[5], c[6], m[1])
                        self.sites[k] = self.sites.get(k, True) and bool(user)
                else:
                    self.sites[(c[5], c[6], "?")] = None
        return user


def _is_write_test(cond, pol):
    """does `cond` being `pol` establish that writing was requested/permitted?"""
    c = strip(cond)
    if kind(c) == "un" and c[1] == "!":
        return _is_write_test(c[2], not pol)
    if kind(c) == "bin" and c[1] == "&" and is_int(c[3]):
        m = int_val(c[3])
        # a mask that includes the READ bit is satisfied by every handle: not a write test
        if pol and (m & (DFACC_WRITE | DFACC_CREATE)) and not (m & DFACC_READ):
            return True
        return False
    if kind(c) == "bin" and c[1] in ("==", "!="):
        l, r = strip(c[2]), strip(c[3])
        if is_int(r) and kind(l) != "int":
            eq = (c[1] == "==") == pol
            v = int_val(r)
            if eq and v in (DFACC_WRITE, DFACC_CREATE, DFACC_WRITE | DFACC_READ, 7, ord("w")):
                return True
            # (x & WRITE) != 0
            if kind(l) == "bin" and l[1] == "&" and is_int(l[3]) and v == 0 and not eq:
                m = int_val(l[3])
                return bool((m & (DFACC_WRITE | DFACC_CREATE)) and not (m & DFACC_READ))
    return False


def rule_F5A(ctx):
    prog = ctx.prog
    n = 0
    for f in prog.lib_funcs():
        if not any(c[1] in ("fopen", "freopen", "open", "creat") for _, _, _, c in f.calls()):
            continue
        a = OpenMode(prog)
        a.run(f)
        ordn = 0
        for (ln, col, mode), ok in sorted(a.sites.items()):
            ordn += 1
            n += 1
            key = "F5A:%s:fopen(%s)#%d" % (f.name, mode, ordn)
            if ok is None:
                ctx.unrecognised("F5A", key, f.where(ln), "fopen with a non-literal mode string")
            elif ok:
                ctx.holds("F5A", key, f.where(ln), "the \"%s\" open is reachable only after a passed write-permission test" % mode)
            else:
                ctx.violated("F5A", key, f.where(ln),
                             "a file is opened with mode \"%s\" on a path where no test of the write bit of the access mode has passed "
                             "(a mask that includes DFACC_READ does not count): a read-only session can modify the file" % mode)
        for bid, i, s, c in f.calls():
            if c[1] in ("open", "creat"):
                n += 1
                key = "F5A:%s:%s" % (f.name, c[1])
                ok, why = _open_flags_ok(prog, f, c)
                (ctx.holds if ok else ctx.violated)("F5A", key, f.where(c[5]), why)
    ctx.floor("F5A", 8, n, "(file open sites in the library)")


def _open_flags_ok(prog, f, call):
    """open(path, fmode, ...): every assignment of write flags to fmode sits in a switch arm that is not the read-only case"""
    if len(call[3]) < 2 or kind(strip(call[3][1])) != "var":
        return False, "open() with computed flags"
    v = strip(call[3][1])[1]
    bad = []
    from .rules_conv import switch_arms, _find_switch
    arms_seen = 0
    for sw in _find_switch(f):
        for labels, stmts, ft in switch_arms(sw):
            for snode in stmts:
                if snode[0] != "s":
                    continue
                for x in walk(snode[1], True):
                    if x[0] == "asg" and kind(strip(x[2])) == "var" and strip(x[2])[1] == v and is_int(x[3]):
                        arms_seen += 1
                        flags = int_val(x[3])
                        writable = bool(flags & 3) or bool(flags & 0o100) or bool(flags & 0o1000)
                        ro_case = any(isinstance(l, int) and l == 0 for l in labels)  # NC_NOWRITE == 0
                        if writable and ro_case:
                            bad.append("case NC_NOWRITE sets write flags 0x%x" % flags)
                        if not writable and not ro_case and "default" not in labels:
                            pass
    if bad:
        return False, "; ".join(bad)
    if arms_seen < 2:
        return False, "could not relate the open() flags variable `%s` to the access-mode switch" % v
    return True, "open() flags are set per access-mode case; the NC_NOWRITE case sets O_RDONLY (%d arms)" % arms_seen


# ---------------------------------------------------------------------------------------
# F5B — one fixpoint over the library: which functions can reach a mutation (or a writable open)
# on a path that carries no write-permission proof?

# "promise to write" stores
DIRTY_FIELDS = {
    ("vgroup_desc", "marked"), ("vdata_desc", "marked"),
    ("gr_info", "gr_modified"), ("gr_info", "gattr_modified"),
    ("ri_info", "meta_modified"), ("ri_info", "data_modified"), ("ri_info", "attr_modified"),
    ("at_info", "data_modified"), ("filerec_t", "dirty"), ("ddblock_t", "dirty"),
    # state flags that are only ever set where something was created / promised under write permission
    ("ri_info", "store_fill"),
}
STATE_FLAGS = {("ri_info", "store_fill")}
NC_DIRTY = 0x40 | 0x80 | 0x08  # NC_NDIRTY | NC_HDIRTY | NC_INDEF (define mode exists only for writable handles)
ROOT_CALLS = {"HP_write", "fwrite", "write"}  # irreversible effects
FLUSHERS = {"HTPsync", "HIsync", "HIextend_file", "Hclose", "HIflush_filerec"}

# callees whose behaviour depends on a constant mode argument
#   name -> (arg index, classify(arg) -> 'r' | 'w' | None, seed for 'w', seed for 'r')
def _cls_flags(a):
    if is_int(a):
        return "w" if (int_val(a) & (DFACC_WRITE | DFACC_CREATE)) else "r"
    return None


def _cls_str(a):
    a = strip(a)
    if kind(a) == "str":
        return "w" if a[1][:1] in ("w", "W") else "r"
    return None


MODE_CALLEES = {
    "Hstartaccess": (3, _cls_flags, {"flags": DFACC_WRITE | DFACC_READ}, {"flags": DFACC_READ}),
    "Vattach": (2, _cls_str, {"$accesstype[0]": ord("w")}, {"$accesstype[0]": ord("r")}),
    "VSattach": (2, _cls_str, {"$accesstype[0]": ord("w")}, {"$accesstype[0]": ord("r")}),
    "Hopen": (1, _cls_flags, {"acc_mode": DFACC_WRITE | DFACC_READ}, {"acc_mode": DFACC_READ}),
    "Hstartbitwrite": (None, None, None, None),
}
# functions that establish a handle's permission themselves (their own tests of the *requested* mode are the guard)
OPENERS = {
    "Hopen": "opens/creates the file according to the requested mode and records it as the handle's permission",
    "H4_NCxdrfile_create": "opens the netCDF file with flags derived from the requested mode",
    "SDI_can_clobber": "probe: opens an existing file rb+ only to test writability before SDstart(DFACC_CREATE) clobbers it, then closes it",
}


def _dirty_test(cond, pol):
    """`cond` being `pol` shows that a mark (DIRTY_FIELDS / NC dirty bits) is set on this path.  Every store that sets a
    mark is itself a root that needs a permission proof, so a set mark implies an earlier proof."""
    c = strip(cond)
    if kind(c) == "un" and c[1] == "!":
        return _dirty_test(c[2], not pol)
    if kind(c) == "bin" and c[1] in ("==", "!=") and is_int(c[3]):
        v = int_val(c[3])
        eq = (c[1] == "==") == pol
        if v == 0:
            return (not eq) and _dirty_test(c[2], True)
        return eq and _dirty_test(c[2], True)
    if not pol:
        return False
    if kind(c) == "bin" and c[1] == "&" and is_int(c[3]):
        if mem_field(c[2]) == ("NC", "flags"):
            return bool(int_val(c[3]) & NC_DIRTY) and not (int_val(c[3]) & ~NC_DIRTY)
        return _dirty_test(c[2], True)
    mf = mem_field(c)
    return mf in DIRTY_FIELDS or mf == ("version_t", "modified")


def _perm_guard(cond, pol):
    """passed condition proving write permission of the *handle* on this path"""
    c = strip(cond)
    if kind(c) == "un" and c[1] == "!":
        return _perm_guard(c[2], not pol)
    if kind(c) == "bin" and c[1] == "&" and is_int(c[3]):
        mf = mem_field(c[2])
        m = int_val(c[3])
        if pol and mf in (("filerec_t", "access"), ("accrec_t", "access")) and (m & DFACC_WRITE) and not (m & DFACC_READ):
            return True
        if pol and mf == ("NC", "flags") and m == 1:
            return True
        if pol and mf is not None and mf[1] == "mode" and mf[0] in ("biobuf", "__biobuf") and m in (1, 2, 3):
            return True  # netCDF-format page buffer opened O_WRONLY / O_RDWR
        return False
    if kind(c) == "bin" and c[1] in ("==", "!=") and is_int(c[3]):
        l = strip(c[2])
        eq = (c[1] == "==") == pol
        mf = mem_field(l)
        v = int_val(c[3])
        if mf == ("NC", "hdf_mode") and v == DFACC_READ and not eq:
            return True
        if mf in (("XDR", "x_op"), ("__rpc_xdr", "x_op"), ("xinfo", "x_op")) and v == 0 and eq:
            # XDR_ENCODE: the operation is a write; SD/nc write entry points obtain their data AID through Hstartaccess(write)
            return True
        if mf in (("vgroup_desc", "access"), ("vdata_desc", "access")):
            if eq and v == ord("w"):
                return True
            if (not eq) and v == ord("r"):
                return True
        if kind(l) == "bin" and l[1] == "&" and is_int(l[3]) and v == 0 and not eq:
            return _perm_guard(l, True)
        if kind(l) == "bin" and l[1] == "&" and is_int(l[3]) and v == int_val(l[3]) and eq:
            return _perm_guard(l, True)
    return False


def _intent_guard(cond, pol):
    """passed test of the *requested* access mode (a parameter / local), e.g. acc_mode & DFACC_WRITE"""
    c = strip(cond)
    if kind(c) == "un" and c[1] == "!":
        return _intent_guard(c[2], not pol)
    if kind(c) == "bin" and c[1] == "&" and is_int(c[3]) and kind(strip(c[2])) == "var":
        m = int_val(c[3])
        return bool(pol and (m & (DFACC_WRITE | DFACC_CREATE)) and not (m & DFACC_READ))
    if kind(c) == "bin" and c[1] in ("==", "!=") and is_int(c[3]) and kind(strip(c[2])) == "var":
        eq = (c[1] == "==") == pol
        return bool(eq and int_val(c[3]) in (DFACC_WRITE, DFACC_CREATE, 3, 7))
    return False


class F5B(PathAnalysis):
    """typestate (perm, intent): has a handle-permission / requested-mode test passed on this path?"""

    def __init__(self, prog, st):
        super().__init__(prog)
        self.st = st
        self.unguarded = []  # (line, description, kind)
        self.exit_guard = []

    def init_user(self, func):
        return (False, False, frozenset())

    def on_assume(self, func, bid, cond, pol, env, user):
        perm, intent, pend = user
        if not perm and _perm_guard(cond, pol):
            perm = True
        if not perm and _dirty_test(cond, pol):
            # something was marked dirty earlier; every mark is itself checked to sit behind a permission proof
            perm = True
        if not intent and _intent_guard(cond, pol):
            intent = True
        return (perm, intent, pend)

    def on_switch_edge(self, func, bid, cond, case, env, user):
        if case and case.get("name") in ("DFACC_WRITE", "DFACC_RDWR", "DFACC_CREATE", "DFACC_ALL", "NC_WRITE", "NC_CLOBBER", "NC_NOCLOBBER"):
            return (user[0], True, user[2])
        return user

    def _mode(self, call):
        mc = MODE_CALLEES.get(call[1])
        if mc and mc[0] is not None and mc[0] < len(call[3]):
            return mc[1](call[3][mc[0]])
        return None

    def on_call_outcome(self, func, call, outcome, env, user):
        if not call[1]:
            return user
        if outcome == "fail":
            # the callee failed: none of its succeeding (mutating) paths was taken
            pend = frozenset(p for p in user[2] if not (p[3] and p[3][:2] == (call[5], call[6])))
            return (user[0], user[1], pend) if pend != user[2] else user
        if user[0] or outcome != "ok":
            return user
        nm = call[1]
        m = self._mode(call)
        if m == "w" and self.st["sg"].get(nm + "/w"):
            return (True, user[1], user[2])
        if m is None and self.st["sg"].get(nm):
            return (True, user[1], user[2])
        return user

    def _root(self, line, desc, kindx, user, site=None):
        """kinds: 'mark' (a promise to write: harmless if the call then fails or a proof follows before a successful return),
        'effect' (bytes are written / a file is opened for writing right now: the proof must come first),
        'open' (an effect for which a test of the requested mode also counts)"""
        perm, intent, pend = user
        if kindx == "open":
            if perm or intent:
                return user
        elif perm:
            return user
        if kindx in ("effect", "open"):
            self.unguarded.append((line, desc, kindx, site[2] if site else None))
            return user
        return (perm, intent, pend | {(line, desc, kindx, site)})

    def on_stmt(self, func, bid, idx, stmt, env, user):
        if user[0]:
            return user
        for n in walk(stmt["e"]):
            if n[0] == "asg":
                mf = mem_field(n[2])
                if mf in DIRTY_FIELDS and not is_int(n[3], 0):
                    if mf in STATE_FLAGS and not is_int(n[3]):
                        continue  # copies a locally computed flag; the constant stores that set it are the roots
                    if (func.name, mf) in SITE_EXCEPT or (func.name, None) in SITE_EXCEPT:
                        continue
                    user = self._root(n[4], "`%s` marks the object as to-be-written" % render(n)[:60], "mark", user)
                elif mf == ("NC", "flags") and n[1] in ("|=", "=") and is_int(n[3]) and (int_val(n[3]) & NC_DIRTY):
                    if (func.name, mf) in SITE_EXCEPT:
                        continue
                    user = self._root(n[4], "`%s` marks the netCDF header dirty" % render(n)[:60], "mark", user)
            elif n[0] == "call":
                nm = n[1]
                if nm in ROOT_CALLS:
                    user = self._root(n[5], "%s() writes to the file" % nm, "effect", user)
                elif nm == "mcache_put" and len(n[3]) >= 3 and is_int(n[3][2]) and (int_val(n[3][2]) & 1):
                    # a chunk handed back DIRTY is a promise to write it at eviction / close
                    user = self._root(n[5], "mcache_put(.., MCACHE_DIRTY) queues a chunk for writing", "mark", user)
                elif nm in ("fopen", "freopen") and len(n[3]) >= 2 and kind(strip(n[3][1])) == "str" and strip(n[3][1])[1] in WRITABLE_MODES:
                    user = self._root(n[5], "fopen(…, \"%s\") opens a file for writing" % strip(n[3][1])[1], "open", user)
                elif nm in ("open", "creat") and func.name not in OPENERS:
                    user = self._root(n[5], "%s() with computed flags" % nm, "open", user)
                elif nm:
                    m = self._mode(n)
                    key = nm + ("/" + m if m else "")
                    nd = self.st["needs"].get(key)
                    if m == "w" and self.st["sg"].get(nm + "/w"):
                        continue  # its success is the guard; on failure nothing was mutated
                    if nd:
                        user = self._root(n[5], "%s() -> %s" % (nm, nd[0]), nd[2], user, (n[5], n[6], nm))
        return user

    def on_exit(self, func, bid, retval, env, user):
        cls = classify_ret(retval, self.fails)
        self.exit_guard.append((cls, user[0]))
        if cls != "fail" and not user[0]:
            # (a proof established later on the same path means the call cannot succeed on a read-only handle)
            for (line, desc, kindx, site) in user[2]:
                self.unguarded.append((line, desc, kindx, site[2] if site else None))


def _analyse(prog, f, st, seed=None):
    a = F5B(prog, st)
    a.fails = fail_values(f, prog)
    if seed:
        _run_seeded(a, f, seed)
    else:
        a.run(f)
    nv = None
    if a.unguarded:
        ln, d, k, cal = sorted(a.unguarded, key=lambda x: (x[0], x[1]))[0]
        nv = (d, ln, k, tuple(sorted({(u[3] or "") for u in a.unguarded})))
    ok_exits = [g for cls, g in a.exit_guard if cls != "fail"]
    sv = bool(ok_exits) and all(ok_exits)
    return nv, sv


def _run_seeded(a, f, seed):
    """PathAnalysis.run with a pre-seeded environment (verifies mode-dependent callees under a constant mode)"""
    tracked = a.tracked_vars(f) | {k for k in seed if not k.startswith("$")}
    calls = {}
    env0 = {k: ("c", v) for k, v in seed.items()}
    start = (freeze(env0), a.init_user(f))
    seen = {f.entry: {start}}
    work = [(f.entry, start)]
    steps = 0
    stable_paths = {k[1:] for k in seed if k.startswith("$")}
    a._is_stable = lambda l: path(l) in stable_paths
    while work:
        steps += 1
        if steps > 300000:
            raise AnalysisBroken("state explosion in %s" % f.name)
        bid, st = work.pop()
        b = f.blocks[bid]
        env = dict(st[0])
        user = st[1]
        retval = "noret"
        for i, s in enumerate(b["s"]):
            env = a.transfer(f, s["e"], env, tracked, calls)
            user = a.on_stmt(f, bid, i, s, env, user)
            if kind(s["e"]) == "ret":
                retval = a.eval(s["e"][1], env) if s["e"][1] is not None else ("void",)
                if retval is None:
                    retval = ("top",)
        succs = b["succ"]
        term = b.get("term")
        if retval != "noret" or not succs or bid == f.exit:
            a.on_exit(f, bid, retval if retval != "noret" else ("void",), env, user)
            continue
        outs = []
        if term and term.get("cond") is not None and len(succs) == 2 and term["k"] != "SwitchStmt":
            for pol, sb in ((True, succs[0]), (False, succs[1])):
                if sb < 0:
                    continue
                r = a.assume(f, bid, term["cond"], pol, env, user, tracked, calls)
                if r is not None:
                    outs.append((sb, r[0], r[1]))
        else:
            outs = [(sb, env, user) for sb in succs if sb >= 0]
        for sb, e2, u2 in outs:
            ns = (freeze(e2), u2)
            ss = seen.setdefault(sb, set())
            if ns not in ss:
                if len(ss) >= a.STATE_CAP:
                    ns = (freeze({k: v for k, v in e2.items() if k in seed}), u2)
                    if ns in ss:
                        continue
                ss.add(ns)
                work.append((sb, ns))


_F5B_CACHE = {}


def compute_needs(prog):
    if id(prog) in _F5B_CACHE:
        return _F5B_CACHE[id(prog)]
    funcs = {}
    for f in prog.lib_funcs():
        if f.name not in funcs or not f.static:
            funcs[f.name] = f
    # call graph restricted to the library
    callees = {}
    callers = {}
    for nm, f in funcs.items():
        cs = set()
        for bid, i, s, c in f.calls():
            for t in prog.callee_names(c, f):
                if t in funcs:
                    cs.add(t)
        callees[nm] = cs
        for t in cs:
            callers.setdefault(t, set()).add(nm)
    # functions with a direct root
    direct = set()
    for nm, f in funcs.items():
        for bid, i, s, n in f.nodes(True):
            if n[0] == "asg" and (mem_field(n[2]) in DIRTY_FIELDS or mem_field(n[2]) == ("NC", "flags")):
                direct.add(nm)
            elif n[0] == "call" and n[1] in (ROOT_CALLS | {"fopen", "freopen", "open", "creat"}):
                direct.add(nm)
    # backward closure
    reach = set(direct)
    work = list(direct)
    while work:
        x = work.pop()
        for c in callers.get(x, ()):
            if c not in reach:
                reach.add(c)
                work.append(c)
    st = {"needs": {}, "sg": {}}
    for nm in OPENERS:
        st["needs"][nm] = None
    pending = set(reach)
    rounds = 0
    while pending and rounds < 40:
        rounds += 1
        cur = sorted(pending)
        pending = set()
        for nm in cur:
            f = funcs[nm]
            variants = [(nm, None)]
            mc = MODE_CALLEES.get(nm)
            if mc and mc[0] is not None:
                variants += [(nm + "/w", mc[2]), (nm + "/r", mc[3])]
            for key, seed in variants:
                try:
                    nv, sv = _analyse(prog, f, st, seed)
                except AnalysisBroken:
                    nv, sv = ("analysis gave up (state explosion)", f.line, "mark", ("",)), False
                if nm in OPENERS or nm in F5B_EXCEPT:
                    nv = None
                old_n, old_s = st["needs"].get(key, "unset"), st["sg"].get(key, "unset")
                chg = False
                if old_n == "unset" or (old_n is None) != (nv is None) or (nv and old_n and nv[2] != old_n[2]):
                    chg = True
                st["needs"][key] = nv
                if old_s != sv:
                    chg = True
                st["sg"][key] = sv
                if chg:
                    for c in callers.get(nm, ()):
                        if c in reach:
                            pending.add(c)
    _F5B_CACHE[id(prog)] = (st, funcs, reach)
    return st, funcs, reach


def rule_F5A(ctx):
    """open-mode flow: every writable open is covered by a requested-mode or handle-permission test (interprocedurally)"""
    prog = ctx.prog
    st, funcs, reach = compute_needs(prog)
    n = 0
    for nm, f in sorted(funcs.items()):
        sites = [(c[5], strip(c[3][1])[1]) for _, _, _, c in f.calls()
                 if c[1] in ("fopen", "freopen") and len(c[3]) >= 2 and kind(strip(c[3][1])) == "str" and strip(c[3][1])[1] in WRITABLE_MODES]
        osites = [c for _, _, _, c in f.calls() if c[1] in ("open", "creat")]
        if not sites and not osites:
            continue
        n += 1
        key = "F5A:%s" % nm
        if nm in OPENERS:
            if osites:
                ok, why = _open_flags_ok(prog, f, osites[0])
                (ctx.holds if ok else ctx.violated)("F5A", key, f.where(osites[0][5]), why)
            else:
                # the opener's own writable opens must still follow a test of the requested mode
                a = F5B(prog, {"needs": {}, "sg": {}})
                a.fails = fail_values(f, prog)
                a.run(f)
                bad = [u for u in a.unguarded if u[2] == "open"]
                if bad and nm != "SDI_can_clobber":
                    ctx.violated("F5A", key, f.where(bad[0][0]), "%s without a passed test of the requested access mode" % bad[0][1])
                elif nm == "SDI_can_clobber":
                    ok = _clobber_probe_guarded(prog)
                    (ctx.holds if ok else ctx.violated)("F5A", key, f.where(), "probe open used only under SDstart's `& DFACC_CREATE` test" if ok else
                                                        "SDI_can_clobber is called without a preceding DFACC_CREATE test")
                else:
                    ctx.holds("F5A", key, f.where(), "%d writable open(s), each after a passed test of the requested mode; %s" % (len(sites), OPENERS[nm]))
            continue
        nd = st["needs"].get(nm)
        if nd and nd[2] == "open":
            # reachable unguarded from some entry?  reported at the entry by F5B; here: is any public entry affected
            ctx.holds("F5A", key, f.where(nd[1]), "writable open relies on its callers' permission test (checked at every public entry by F5B)")
        else:
            ctx.holds("F5A", key, f.where(), "every writable open follows a passed write test in this function")
    ctx.floor("F5A", 5, n, "(functions opening files for writing)")


def _clobber_probe_guarded(prog):
    for f, c in prog.callers().get("SDI_can_clobber", []):
        a = F5B(prog, {"needs": {"SDI_can_clobber": ("probe", 0, "open")}, "sg": {}})
        a.fails = fail_values(f, prog)
        a.run(f)
        if any("SDI_can_clobber" in u[1] for u in a.unguarded):
            return False
    return True


def _anchors(ctx, prog):
    seen = set()
    for f in prog.lib_funcs():
        for bid, i, s, n in f.nodes(True):
            if n[0] == "mem":
                seen.add((n[3], n[2]))
    for mf in sorted(DIRTY_FIELDS | {("NC", "flags"), ("NC", "hdf_mode"), ("filerec_t", "access"), ("accrec_t", "access"),
                                     ("vgroup_desc", "access"), ("vdata_desc", "access"), ("xinfo", "x_op")}):
        if mf not in seen:
            ctx.unrecognised("F5B", "F5B:anchor:%s.%s" % mf, "-", "slot field %s.%s no longer exists in the library" % mf)


def rule_F5B(ctx):
    prog = ctx.prog
    _anchors(ctx, prog)
    st, funcs, reach = compute_needs(prog)
    n = 0
    for nm, mc in sorted(MODE_CALLEES.items()):
        if mc[0] is None or nm in OPENERS:
            continue
        f = funcs.get(nm)
        if f is None:
            ctx.unrecognised("F5B", "F5B:selfguard:%s" % nm, "-", "mode-dependent callee not found")
            continue
        n += 1
        key = "F5B:selfguard:%s" % nm
        w_ok = st["sg"].get(nm + "/w") and not st["needs"].get(nm + "/w")
        r_ok = not st["needs"].get(nm + "/r")
        if w_ok and r_ok:
            ctx.holds("F5B", key, f.where(), "%s: for writing, every non-failing path passes a write-permission test before any mutation; "
                      "for reading, no mutation is reachable" % nm)
        elif not w_ok:
            d = st["needs"].get(nm + "/w")
            ctx.violated("F5B", key, f.where(d[1] if d else None),
                         "%s, called for writing, can mutate or succeed without having tested the file's write permission (%s): every "
                         "caller that relies on it as its guard becomes unguarded" % (nm, d[0] if d else "a non-failing path has no test"))
        else:
            d = st["needs"].get(nm + "/r")
            ctx.violated("F5B", key, f.where(d[1]), "%s, called for reading, reaches a mutation: %s" % (nm, d[0]))
    for (fn, mf), why in sorted(SITE_EXCEPT.items(), key=str):
        f = funcs.get(fn)
        if f is None:
            continue
        key = "F5B:site:%s:%s" % (fn, ".".join(mf) if mf else "*")
        if fn == "GRwriteimage":
            ok = any(c[1] == "GRIgetaid" and len(c[3]) > 1 and is_int(c[3][1]) and (int_val(c[3][1]) & DFACC_WRITE) for _, _, _, c in f.calls())
            if not ok:
                ctx.violated("F5B", key, f.where(), "GRwriteimage no longer obtains its AID through GRIgetaid(ri, DFACC_WRITE): the listed exception does not apply")
                continue
        ctx.excepted("F5B", key, f.where(), why)
    for nm, why in sorted(F5B_EXCEPT.items()):
        if nm in funcs:
            ctx.excepted("F5B", "F5B:%s" % nm, funcs[nm].where(), why)
    def is_entry(nm):
        f = funcs.get(nm)
        return (f is not None and not f.static and prog.is_public(nm) and nm not in OPENERS and nm not in F5B_EXCEPT
                and any(prog.int_bits(p[1]) for p in f.params))

    origin_memo = {}

    def origin(nm, depth=0):
        """public functions (or nm itself for a direct site) responsible for nm's unguarded mutations"""
        if nm in origin_memo:
            return origin_memo[nm]
        origin_memo[nm] = set()
        nd = st["needs"].get(nm)
        out = set()
        if nd:
            for cal in nd[3]:
                if not cal:
                    out.add(nm)
                elif is_entry(cal) and st["needs"].get(cal):
                    out.add(cal)
                elif depth < 12:
                    base = cal
                    o = origin(base, depth + 1)
                    out |= {nm if x == base and not is_entry(base) else x for x in o}
        origin_memo[nm] = out
        return out

    pub = 0
    for nm, f in sorted(funcs.items()):
        if nm not in reach or not is_entry(nm):
            continue
        pub += 1
        key = "F5B:%s" % nm
        nd = st["needs"].get(nm)
        if nd:
            org = origin(nm)
            if nm not in org and org:
                n += 1
                ctx.excepted("F5B", key, f.where(nd[1]), "derived: every unguarded path runs through the reported public function(s) %s (%s)" % (
                    ", ".join(sorted(org)), nd[0][:100]))
                continue
            n += 1
            ctx.violated("F5B", key, f.where(nd[1]),
                         "public function reaches a mutation with no write-permission test on the path: %s — on a read-only handle the "
                         "call appears to succeed instead of being refused" % nd[0])
        else:
            n += 1
            ctx.holds("F5B", key, f.where(), "every path to a mutation passes a write-permission test (or a self-guarding callee) first")
    ctx.stats["public_functions_examined"] = pub
    ctx.floor("F5B", 60, n, "(public handle-taking functions that can reach a mutation)")


# single root sites excluded from the analysis (function, mark) with the reason
SITE_EXCEPT = {
    ("GRwriteimage", None): "marks set around the pixel writes; every pixel write goes through Hwrite on the AID obtained by "
                            "GRIgetaid(ri, DFACC_WRITE) (call with that constant re-verified), which fails on a read-only file (replayed: "
                            "refused); the only proof-free success paths are zero-iteration write loops, excluded by the count >= 1 check",
    ("SDgetdimscale", ("NC", "flags")): "getter: marks the header dirty after releasing the AID although nothing was changed; reading must succeed on "
                                         "a read-only handle and H4_ncclose flushes only under `flags & NC_RDWR`",
    ("H4_NCcoordck", ("NC", "flags")): "record growth: for reads this branch needs nc_API(cdf_routine_name), false for every SD entry point; for "
                                        "writes the data AID comes from Hstartaccess(write), which refuses read-only files, and the flush in "
                                        "H4_ncclose is behind `flags & NC_RDWR`",
}


F5B_EXCEPT = {
    "HRPconvert": "creates the image DD only when Hexist() says it does not exist; an image listed by a read-only file always exists, and the "
                  "path could not be replayed — not shown to misbehave, so neither listed nor armed",
    "HXPsetaccesstype": "unreachable in practice: Hsetaccesstype returns early when the access type is unchanged and DFACC_SERIAL (the default) "
                        "is the only type this function accepts",
}


HANDLE_LOOKUPS = {"HAatom_object", "SDIhandle_from_id", "NC_check_id", "Get_vfile", "vginst", "vsinst", "HAremove_atom"}


def _takes_handle(prog, f):
    """user entry points for the property: public functions that resolve one of their integer parameters as a handle"""
    ints = {p[0] for p in f.params if prog.int_bits(p[1])}
    for bid, i, s, c in f.calls():
        if c[1] in HANDLE_LOOKUPS:
            for a in c[3]:
                a = strip(a)
                if kind(a) == "var" and a[2] == "p" and a[1] in ints:
                    return True
    return False


def rule_close_version_guard(ctx):
    """CLOSEVER (C14): the first access to a file notes (version.modified) that the version element should be brought up to
    date; that also happens on a file opened for reading.  The routines that act on the note at close/sync time write an element,
    so the note may only be acted on when the file was opened for writing: every call of HIupdate_version is control-dependent
    on a test of `access & DFACC_WRITE`.  Otherwise closing a read-only file that lacks a version element fails and the file
    stays open."""
    from .codec import ast_walk, ast_exprs
    from .facts import walk, calls_in, render
    prog = ctx.prog
    n = 0
    for f in prog.lib_funcs():
        if not any(c[1] == "HIupdate_version" for _b, _i, _s, c in f.calls()):
            continue
        sites = []

        def vis(nn, st):
            exprs = [nn[1]] if nn[0] in ("s", "if", "while") else []
            for e in exprs:
                for c in calls_in(e, True):
                    if c[1] == "HIupdate_version":
                        guards = [a for a in st if a[0] == "if"] + ([nn] if nn[0] == "if" and nn[1] is not e else [])
                        sites.append((c, [a[1] for a in st if a[0] == "if"]))
            return True
        ast_walk(f.raw.get("ast"), vis)
        for c, conds in sites:
            n += 1
            key = "CLOSEVER:%s" % f.name
            ok = any(any(y[0] == "mem" and y[2] == "access" for y in walk(cd, True)) and any(y[0] == "int" and y[1] & 2 for y in walk(cd, True)) for cd in conds)
            created = False
            if not ok:
                # a local flag that is set only where the file is being created (a new file is always writable)
                from .facts import int_name, is_int, kind, strip
                flags = {y[1] for cd in conds for y in walk(cd, True) if y[0] == "var" and y[2] == "l"}
                for v in flags:
                    sets = []

                    def vs(m, st2):
                        if m[0] == "s":
                            for x in walk(m[1], True):
                                if x[0] == "asg" and x[1] == "=" and kind(strip(x[2])) == "var" and strip(x[2])[1] == v and not is_int(x[3], 0):
                                    sets.append([a[1] for a in st2 if a[0] == "if"])
                        return True
                    ast_walk(f.raw.get("ast"), vs)
                    if sets and all(any(any((y[0] == "int" and int_name(y) == "DFACC_CREATE") or (y[0] == "var" and y[1] == "new_file") for y in walk(cd, True)) for cd in cs) for cs in sets):
                        created = True
            if created:
                ctx.holds("CLOSEVER", key, f.where(c[5]), "HIupdate_version is called for a file that is being created (always writable)", nontrivial=False)
            elif ok:
                ctx.holds("CLOSEVER", key, f.where(c[5]), "HIupdate_version is called only under a test of access & DFACC_WRITE", nontrivial=True)
            else:
                ctx.violated("CLOSEVER", key, f.where(c[5]), "HIupdate_version (which writes the version element) is called without a test of `access & DFACC_WRITE` (enclosing conditions: %s): "
                             "on a file opened for reading the call fails and so does %s" % ("; ".join(render(cd)[:60] for cd in conds) or "none", f.name))
    ctx.floor("CLOSEVER", 1, n, "(calls of HIupdate_version)")
    return n


def rule_readonly_shortcut_is_read(ctx):
    """ROSHORTCUT (C14): the SD data path has a shortcut for files opened read-only — a data set without a data element is
    answered with fill values and success, nothing is opened.  The same routine serves reads and writes (the direction is
    `xdrs->x_op`), so the shortcut must be confined to reads; taken for a write it makes SDwritedata on a read-only file
    return success although nothing can be written."""
    from .codec import ast_walk, ast_exprs
    from .facts import walk, render, int_name, is_int, mem_field
    prog = ctx.prog
    n = 0
    for f in prog.lib_funcs():
        if not f.rel.startswith("mfhdf/src/"):
            continue
        found = []

        def vis(nn, st):
            if nn[0] == "if" and any(y[0] == "mem" and y[2] == "hdf_mode" for y in walk(nn[1], True)) and any(y[0] == "int" and int_name(y) == "DFACC_RDONLY" for y in walk(nn[1], True)):
                succ = any(x[0] == "asg" and x[1] == "=" and is_int(x[3], 0) and int_name(x[3]) == "SUCCEED" for e in ast_exprs(nn[2]) for x in walk(e, True))
                if succ:
                    found.append((nn, [a[1] for a in st if a[0] == "if"] + [nn[1]]))
            return True
        ast_walk(f.raw.get("ast"), vis)
        for k, (nn, conds) in enumerate(found):
            n += 1
            key = "ROSHORTCUT:%s#%d" % (f.name, k + 1)
            if any(any(y[0] == "mem" and y[2] == "x_op" for y in walk(cd, True)) for cd in conds):
                ctx.holds("ROSHORTCUT", key, f.where(nn[4]), "the read-only shortcut is taken for XDR_DECODE only", nontrivial=True)
            else:
                ctx.violated("ROSHORTCUT", key, f.where(nn[4]), "`%s` leads to a success return without looking at the transfer direction (x_op): a write to a read-only file "
                             "is answered with success" % render(nn[1])[:60])
    ctx.floor("ROSHORTCUT", 1, n, "(success shortcuts for read-only files in the SD data path)")
    return n


class _VersionFlag(PathAnalysis):
    """user: 0 = version numbers not touched, 1 = version numbers stored and `modified` not decided since, 2 = decided"""

    def __init__(self, prog):
        super().__init__(prog)
        self.exits = []

    def init_user(self, func):
        return 0

    def on_stmt(self, func, bid, idx, stmt, env, user):
        for n in walk(stmt["e"]):
            if n[0] == "asg":
                mf = mem_field(n[2])
                if mf and mf[0] == "version_t":
                    if mf[1] == "modified":
                        user = 2
                    elif mf[1] in ("majorv", "minorv", "release"):
                        user = 1
        return user

    def on_exit(self, func, bid, retval, env, user):
        self.exits.append(user)


def rule_version_flag_decided(ctx):
    """VERFLAG (C17): the file record carries the library version stored in the file together with a `modified` flag; Hclose
    rewrites the DFTAG_VERSION element - in place, inside the old file, before the DD flush - whenever the flag is set.  The
    flag therefore has to be decided by whoever changes the version numbers: a routine that stores majorv/minorv/release
    (decoded from the file, or taken from the running library) leaves by every exit with `version.modified` assigned after
    that store.  A loader that leaves the flag as an earlier comparison happened to set it makes every session on an older
    file overwrite the old version element before anything is flushed."""
    prog = ctx.prog
    n = 0
    for f in prog.lib_funcs():
        touches = False
        for _b, _i, _s, x in f.nodes(True):
            if x[0] == "asg":
                mf = mem_field(x[2])
                if mf and mf[0] == "version_t" and mf[1] in ("majorv", "minorv", "release"):
                    touches = True
        if not touches:
            continue
        n += 1
        key = "VERFLAG:%s" % f.name
        a = _VersionFlag(prog)
        a.run(f)
        if a.exits and all(u != 1 for u in a.exits):
            ctx.holds("VERFLAG", key, f.where(), "every exit that follows a store to the version numbers has version.modified assigned after it", nontrivial=True)
        else:
            ctx.violated("VERFLAG", key, f.where(), "an exit is reached after the version numbers were stored without version.modified being assigned: the flag keeps whatever an earlier comparison left, and Hclose rewrites the old DFTAG_VERSION element in place")
    ctx.floor("VERFLAG", 2, n, "(routines that store the file record's version numbers)")
    return n


def rule_delete_checks_access_first(ctx):
    """DELACC (C14): Vdelete and VSdelete take the object's instance out of the file's in-memory table (`tbbtrem`, destroy the
    node) and then delete its descriptors.  On a file opened for reading the descriptor delete fails - after the table has
    been damaged, so the object can no longer be attached in that session.  A routine that does both tests the file's
    DFACC_WRITE bit before the `tbbtrem`."""
    from .codec import ast_walk
    from .facts import int_name
    prog = ctx.prog
    n = 0
    for f in prog.lib_funcs():
        ast = f.raw.get("ast")
        if not ast:
            continue
        names = [c[1] for _b, _i, _s, c in f.calls()]
        if "tbbtrem" not in names or "Hdeldd" not in names:
            continue
        n += 1
        key = "DELACC:%s" % f.name
        order = []
        ast_walk(ast, lambda nd, st: (order.append(nd) if nd[0] in ("s", "if") and nd[1] is not None else None, True)[1])
        checked = False
        verdict = None
        line = f.line
        for nd in order:
            if nd[0] == "if":
                for x in walk(nd[1], True):
                    if x[0] == "bin" and x[1] == "&" and "DFACC_WRITE" in (int_name(x[3]), int_name(x[2])):
                        checked = True
            if verdict is None and any(c[1] == "tbbtrem" for c in calls_in(nd[1], True)):
                verdict = checked
                line = nd[-3] if isinstance(nd[-3], int) else f.line
        if verdict:
            ctx.holds("DELACC", key, f.where(line), "the file's write access is tested before the instance is removed from the table", nontrivial=True)
        else:
            ctx.violated("DELACC", key, f.where(line), "the instance is removed from the in-memory table before anything tests the file's write access: on a read-only file the call fails later, with the object already unreachable for the session")
    ctx.floor("DELACC", 2, n, "(routines that remove an instance from a table and delete its descriptors)")
    return n


def rule_creator_checks_access(ctx):
    """CREATEACC (C14): a call that creates a stored object - it allocates a fresh reference (Hnewref / Htagnewref) and
    registers an id for the new object (HAregister_atom) - tests the file's write permission before it allocates anything:
    through a read-only handle it must fail, not hand out an id for an object that can never be written (ANcreate used to
    return a valid id, and ANfileinfo counted the phantom annotation)."""
    from .codec import ast_walk
    from .facts import int_name
    prog = ctx.prog
    n = 0
    for f in prog.lib_funcs():
        ast = f.raw.get("ast")
        if not ast:
            continue
        names = [c[1] for _b, _i, _s, c in f.calls()]
        if not ({"Hnewref", "Htagnewref"} & set(names)):
            continue
        registers = "HAregister_atom" in names
        if not registers:
            # one level down: a static helper of the same file that registers the id (ANIcreate -> ANIaddentry)
            for nm in set(names):
                g = prog.func(nm) if nm else None
                if g is not None and g.file == f.file and any(c[1] == "HAregister_atom" for _b, _i, _s, c in g.calls()):
                    registers = True
        if not registers:
            continue
        n += 1
        key = "CREATEACC:%s" % f.name
        order = []
        ast_walk(ast, lambda nd, st: (order.append(nd) if nd[0] in ("s", "if", "switch") and nd[1] is not None else None, True)[1])
        checked = False
        verdict = None
        line = f.line
        for nd in order:
            if nd[0] == "if":
                for x in walk(nd[1], True):
                    if x[0] == "bin" and x[1] == "&" and "DFACC_WRITE" in (int_name(x[3]), int_name(x[2])):
                        checked = True
                    # the V interface keeps the mode as a character
                    if x[0] == "bin" and x[1] in ("==", "!=") and kind(strip(x[2])) == "mem" and strip(x[2])[2] == "access":
                        checked = True
            if verdict is None and any(c[1] in ("Hnewref", "Htagnewref") for c in calls_in(nd[1], True)):
                verdict = checked
                line = nd[-3] if isinstance(nd[-3], int) else f.line
        if verdict:
            ctx.holds("CREATEACC", key, f.where(line), "write permission is tested before the new object's reference is allocated", nontrivial=True)
        else:
            ctx.violated("CREATEACC", key, f.where(line), "a reference for a new object is allocated and an id registered with no test of the file's write permission before it: on a read-only file the call hands out an id for an object that cannot be stored")
    ctx.floor("CREATEACC", 3, n, "(routines that allocate a reference and register an id for a new object)")
    return n
