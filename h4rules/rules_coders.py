"""C05: lossless coders — compression-header codec agreement (F1 for the comp header), coder dispatch
exhaustiveness (F7e), flush discipline of stateful coders (CODER-FLUSH), backward-seek re-initialisation siblings."""
from .facts import kind, strip, walk, path, render, int_val, is_int, calls_in, mem_field, unseen
from .flow import PathAnalysis
from .codec import ast_walk, codec_event, CODEC, ast_calls
from .rules_conv import switch_arms, _find_switch

# format specification: bytes of coder-specific information in the compressed-element header
SPEC_CODER_BYTES = {"COMP_CODE_NBIT": 16, "COMP_CODE_SKPHUFF": 8, "COMP_CODE_DEFLATE": 2, "COMP_CODE_SZIP": 14}
STREAM_CODERS = {"crle": "HCPcrle", "cskphuff": "HCPcskphuff", "cdeflate": "HCPcdeflate"}  # seek decodes forward from a known position
WRITE_CALLS = {"Hwrite", "HDputc", "Hbitwrite", "Hputbit", "deflate"}


def _arm_fields(stmts, ptr):
    """widths (bits) of the codec fields / raw byte stores in a list of AST statements"""
    out = []

    def f(n, st):
        ev = codec_event(n)
        if ev is not None:
            out.append((ev.bits, ev.signed, ev.dir))
            return False
        if n[0] == "s":
            e = strip(n[1])
            # *p++ = x   /  x = *p++
            if kind(e) == "asg" and e[1] == "=":
                for side, d in ((e[2], "enc"), (e[3], "dec")):
                    t = strip(side)
                    if kind(t) == "deref" and kind(strip(t[1])) == "incdec" and path(strip(t[1])[3]) == ptr:
                        out.append((8, False, d))
        return True

    for s in stmts:
        ast_walk(s, f)
    return out


def _coder_switch(func, param_names):
    for sw in _find_switch(func):
        c = strip(sw[1])
        if kind(c) == "var" and c[1] in param_names:
            return sw
        if kind(c) == "cast" or kind(c) == "deref":
            p = path(c)
            if p and p.lstrip("*") in param_names:
                return sw
    return None


def rule_comp_header(ctx):
    prog = ctx.prog
    enc = prog.func("HCPencode_header")
    dec = prog.func("HCPdecode_header")
    qry = prog.func("HCPquery_encode_header")
    if not (enc and dec and qry):
        ctx.unrecognised("F1c", "F1c:anchors", "-", "HCPencode_header / HCPdecode_header / HCPquery_encode_header not all found")
        return
    names = {}
    per = {}
    for role, f, pname in (("encode", enc, "coder_type"), ("decode", dec, "coder_type"), ("query", qry, "coder_type")):
        sw = _coder_switch(f, {pname})
        if sw is None:
            ctx.unrecognised("F1c", "F1c:%s" % f.name, f.where(), "no switch over the coder type found")
            return
        arms = {}
        for labels, stmts, ft in switch_arms(sw):
            for l in labels:
                arms[l] = (stmts, ft)
        per[role] = arms
        # remember case names
        def g(n, st):
            if n[0] == "case" and n[1].get("name"):
                names[n[1]["case"]] = n[1]["name"]
            return True
        ast_walk(sw, g)
    n = 0
    coders = sorted({l for r in per.values() for l in r if l != "default"})
    for cv in coders:
        nm = names.get(cv, str(cv))
        if nm in ("COMP_CODE_IMCOMP", "COMP_CODE_JPEG"):
            continue
        key = "F1c:%s" % nm
        n += 1
        e_st = per["encode"].get(cv, per["encode"].get("default", ([], False)))
        d_st = per["decode"].get(cv, per["decode"].get("default", ([], False)))
        q_st = per["query"].get(cv, per["query"].get("default", ([], False)))
        ef = _arm_fields(e_st[0], "p")
        df = _arm_fields(d_st[0], "p")
        eb = sum(w for w, s, d in ef) // 8
        db = sum(w for w, s, d in df) // 8
        qb = 0
        for s in q_st[0]:
            if s[0] == "s":
                e = strip(s[1])
                if kind(e) == "asg" and e[1] == "+=" and is_int(e[3]):
                    qb += int_val(e[3])
        spec = SPEC_CODER_BYTES.get(nm, 0)
        problems = []
        if [w for w, s, d in ef] != [w for w, s, d in df]:
            problems.append("encoder writes fields of %s bits, decoder reads %s" % ([w for w, s, d in ef], [w for w, s, d in df]))
        if eb != qb:
            problems.append("HCPquery_encode_header reserves %d bytes but HCPencode_header writes %d" % (qb, eb))
        if eb != spec:
            problems.append("%d bytes of coder information, the format specifies %d" % (eb, spec))
        if any(x[1] for x in (e_st, d_st, q_st)):
            problems.append("a case arm falls through")
        if problems:
            ctx.violated("F1c", key, enc.where(), "compression header for %s: %s" % (nm, "; ".join(problems)))
        else:
            ctx.holds("F1c", key, enc.where(), "%s: encoder = decoder = query = specification = %d bytes %s" % (nm, spec, [w for w, s, d in ef]))
    ctx.floor("F1c", 4, n, "(coder arms of the compression header codec)")


def rule_coder_dispatch(ctx):
    """every coder the header codec knows is wired in HCIinit_coder with a function table; unknown codes fail"""
    prog = ctx.prog
    f = prog.func("HCIinit_coder")
    if f is None:
        ctx.unrecognised("F7e", "F7e:HCIinit_coder", "-", "not found")
        return
    sws = _find_switch(f)
    if not sws:
        ctx.unrecognised("F7e", "F7e:HCIinit_coder", f.where(), "no switch")
        return
    sw = sws[0]
    have = {}
    dflt_fails = False
    names = {}

    def g(n, st):
        if n[0] == "case" and n[1].get("name"):
            names[n[1]["case"]] = n[1]["name"]
        return True
    ast_walk(sw, g)
    for labels, stmts, ft in switch_arms(sw):
        assigns = False
        fails = False
        for s in stmts:
            def h(n, st):
                nonlocal assigns, fails
                if n[0] == "s":
                    for x in walk(n[1], True):
                        if x[0] == "asg" and mem_field(x[2]) and mem_field(x[2])[1] == "coder_funcs":
                            assigns = True
                        if x[0] == "ret" and x[1] is not None and is_int(x[1], -1):
                            fails = True
                        if x[0] == "asg" and kind(strip(x[2])) == "var" and strip(x[2])[1] == "ret_value" and is_int(x[3], -1):
                            fails = True
                return True
            ast_walk(s, h)
        for l in labels:
            if l == "default":
                dflt_fails = fails
            else:
                have[l] = (assigns, fails, ft)
    want = ["COMP_CODE_NONE", "COMP_CODE_RLE", "COMP_CODE_NBIT", "COMP_CODE_SKPHUFF", "COMP_CODE_DEFLATE"]
    inv = {v: k for k, v in names.items()}
    for nm in want:
        key = "F7e:HCIinit_coder:%s" % nm
        v = inv.get(nm)
        if v is None or v not in have:
            ctx.violated("F7e", key, f.where(), "no arm for %s: elements compressed with it cannot be opened" % nm)
        elif not have[v][0]:
            ctx.violated("F7e", key, f.where(), "the arm for %s does not install a coder function table" % nm)
        elif have[v][2]:
            ctx.violated("F7e", key, f.where(), "the arm for %s falls through into the next coder" % nm)
        else:
            ctx.holds("F7e", key, f.where(), "arm installs the coder's function table")
    if dflt_fails:
        ctx.holds("F7e", "F7e:HCIinit_coder:default", f.where(), "unknown coder codes fail")
    else:
        ctx.violated("F7e", "F7e:HCIinit_coder:default", f.where(), "an unknown coder code is accepted silently")
    n = rule_dispatch_tables(ctx, only=("coder_funcs", "model_funcs"))
    ctx.floor("F7a", 8, n, "(dispatches through coder/model function tables)")


def _tables(prog):
    """global funclist_t tables: name -> {slot: function name or None}"""
    out = {}
    for gname, gl in prog.globals.items():
        for gdef in gl:
            if gdef.get("type") == "funclist_t" and "init" in gdef and gdef.get("def"):
                init = strip(gdef["init"])
                if kind(init) == "init":
                    out[gname] = ({nm: (strip(x)[1] if kind(strip(x)) == "fn" else None) for nm, x in zip(init[3], init[2])},
                                  "%s:%d" % (gdef["file"].replace("/repo/", ""), gdef["line"]))
    return out


def _table_flow(prog, tables):
    """which tables are stored into which record field (special_func / coder_funcs / model_funcs ...)"""
    flow = {}
    for f in prog.lib_funcs():
        for _, _, _, n in f.nodes(True):
            if n[0] == "asg" and n[1] == "=":
                mf = mem_field(n[2])
                r = strip(n[3])
                if kind(r) == "addr":
                    r = strip(r[1])
                if mf and kind(r) == "var" and r[1] in tables:
                    flow.setdefault(mf, set()).add(r[1])
    return flow


class NullTested(PathAnalysis):
    def __init__(self, prog):
        super().__init__(prog)
        self.sites = {}

    def init_user(self, func):
        return frozenset()

    def on_assume(self, func, bid, cond, pol, env, user):
        c = strip(cond)
        l = None
        if kind(c) == "bin" and c[1] in ("==", "!=") and is_int(c[3], 0):
            l, nonnull = strip(c[2]), (c[1] == "!=") == pol
        elif kind(c) == "mem":
            l, nonnull = c, pol
        if l is not None and mem_field(l) and mem_field(l)[0] == "funclist_t" and nonnull:
            return user | {render(l)}
        return user

    def on_stmt(self, func, bid, idx, stmt, env, user):
        for c in calls_in(stmt["e"]):
            if c[1] is None:
                ce = strip(c[2])
                while kind(ce) == "deref":
                    ce = strip(ce[1])
                if mem_field(ce) and mem_field(ce)[0] == "funclist_t":
                    k = (c[5], c[6], mem_field(ce)[1], render(ce))
                    b = strip(ce[1])
                    self.sites[k] = (self.sites.get(k, (True,))[0] and render(ce) in user, mem_field(b))
        return user


def rule_dispatch_tables(ctx, only=None):
    """F7a: a funclist_t slot invoked without a dominating NULL test is a function in every table that can reach that dispatch"""
    prog = ctx.prog
    tables = _tables(prog)
    flow = _table_flow(prog, tables)
    n = 0
    for f in prog.lib_funcs():
        if not any(c[1] is None for _, _, _, c in f.calls()):
            continue
        a = NullTested(prog)
        a.run(f)
        ordn = {}
        for (ln, col, slot, txt), (tested, basefield) in sorted(a.sites.items()):
            group = flow.get(basefield, set())
            if only and not (basefield and basefield[1] in only):
                continue
            ordn[slot] = ordn.get(slot, 0) + 1
            key = "F7a:%s:%s#%d" % (f.name, slot, ordn[slot])
            n += 1
            if not group:
                ctx.unrecognised("F7a", key, f.where(ln), "cannot tell which function tables reach `%s`" % txt)
                continue
            missing = sorted(t for t in group if tables[t][0].get(slot) is None)
            if tested or not missing:
                ctx.holds("F7a", key, f.where(ln), "`%s`: %s" % (txt, "NULL-tested before the call" if tested else
                                                                  "slot is a function in all %d tables stored in %s.%s" % (len(group), basefield[0], basefield[1])))
            else:
                ctx.violated("F7a", key, f.where(ln), "`%s` is called without a NULL test but table(s) %s leave the `%s` slot NULL: that storage "
                             "kind crashes on this operation" % (txt, ", ".join(missing), slot))
    return n


def _closure(prog, roots, limit_files=None):
    seen = set()
    work = list(roots)
    while work:
        nm = work.pop()
        if nm in seen:
            continue
        f = prog.func(nm)
        if f is None:
            continue
        if limit_files and not f.rel.endswith(limit_files):
            continue
        seen.add(nm)
        for _, _, _, c in f.calls():
            if c[1]:
                work.append(c[1])
    return seen


class FlushGuard(PathAnalysis):
    """is the call to the flusher dominated by a test of a 'last operation was a write' indicator?"""

    def __init__(self, prog, flusher, indicators):
        super().__init__(prog)
        self.flusher = flusher
        self.ind = indicators
        self.sites = {}

    def init_user(self, func):
        return False

    def on_assume(self, func, bid, cond, pol, env, user):
        if user:
            return user
        c = strip(cond)
        if kind(c) == "bin" and c[1] in ("==", "!=") and is_int(c[3]):
            mf = mem_field(c[2])
            eq = (c[1] == "==") == pol
            if mf in self.ind and eq and int_val(c[3]) == self.ind[mf]:
                return True
        return user

    def on_stmt(self, func, bid, idx, stmt, env, user):
        for c in calls_in(stmt["e"]):
            if c[1] == self.flusher:
                k = (c[5], c[6])
                self.sites[k] = self.sites.get(k, True) and bool(user)
        return user


def rule_coder_flush(ctx):
    """A stateful coder's flush routine must run only when the coder's own state says that the last transfer was a write.
    (The access record's write *permission* says nothing about what the buffer holds.)"""
    prog = ctx.prog
    n = 0
    for base, prefix in sorted({"crle": "HCPcrle", "cdeflate": "HCPcdeflate", "cskphuff": "HCPcskphuff", "cnbit": "HCPcnbit"}.items()):
        cfile = "hdf/src/%s.c" % base
        funcs = [f for f in prog.lib_funcs() if f.rel == cfile]
        if not funcs:
            ctx.unrecognised("FLUSH", "FLUSH:%s" % base, "-", "coder source %s not analysed" % cfile)
            continue
        byname = {f.name: f for f in funcs}
        wslot, rslot = prefix + "_write", prefix + "_read"
        wclo = _closure(prog, [wslot], cfile)
        rclo = _closure(prog, [rslot], cfile)
        # flushers: static helpers of this coder that write and are called from outside the write closure
        flushers = []
        for f in funcs:
            if not f.name.startswith("HCI") or not f.name.endswith("_term"):
                continue
            writes = any(c[1] in WRITE_CALLS for _, _, _, c in f.calls())
            if writes:
                flushers.append(f)
        if not flushers:
            ctx.holds("FLUSH", "FLUSH:%s" % base, cfile + ":1", "the coder has no stateful flush routine (bit/byte layer below keeps the mode)", nontrivial=False)
            continue
        for fl in flushers:
            # state fields the flusher's writes depend on
            deps = set()
            for b in fl.blocks.values():
                t = b.get("term")
                if t and t.get("cond") is not None:
                    for x in walk(t["cond"], True):
                        if x[0] == "mem" and "info" in (x[3] or ""):
                            deps.add((x[3], x[2]))
            # fields the read side stores
            rstores = set()
            for nm in rclo - wclo:
                for _, _, _, x in byname[nm].nodes(True) if nm in byname else ():
                    if x[0] == "asg" and mem_field(x[2]):
                        rstores.add(mem_field(x[2]))
            shared = deps & rstores
            # write indicators: coder-info fields that receive a constant only inside the write closure
            ind = {}
            for f in funcs:
                for _, _, _, x in f.nodes(True):
                    if x[0] == "asg" and x[1] == "=" and mem_field(x[2]) and is_int(x[3]) and int_val(x[3]) != 0:
                        mf = mem_field(x[2])
                        if "info" in mf[0]:
                            ind.setdefault(mf, set()).add((f.name, int_val(x[3])))
            indicators = {}
            for mf, st in ind.items():
                vals = {v for _, v in st}
                fns = {fn for fn, _ in st}
                if len(vals) == 1 and fns <= wclo and not (fns & (rclo - wclo)):
                    indicators[mf] = next(iter(vals))
            # does the flusher itself test a mode parameter before writing?
            self_guard = _flusher_self_guard(prog, fl)
            for caller in funcs:
                if caller.name == fl.name or caller.name in wclo - {prefix + "_seek", prefix + "_endaccess"}:
                    continue
                if not any(c[1] == fl.name for _, _, _, c in caller.calls()):
                    continue
                a = FlushGuard(prog, fl.name, indicators)
                a.run(caller)
                ordn = 0
                for (ln, col), ok in sorted(a.sites.items()):
                    ordn += 1
                    n += 1
                    key = "FLUSH:%s:%s#%d" % (caller.name, fl.name, ordn)
                    if ok:
                        ctx.holds("FLUSH", key, caller.where(ln), "flush only after a passed test of the write indicator %s" % ", ".join(
                            "%s.%s == %d" % (m[0], m[1], v) for m, v in indicators.items()))
                    elif self_guard:
                        ctx.holds("FLUSH", key, caller.where(ln), "the flush routine itself branches on the recorded transfer mode (%s)" % self_guard)
                    elif not shared:
                        ctx.holds("FLUSH", key, caller.where(ln), "the state the flush routine writes from is never stored by the read path")
                    else:
                        ctx.violated("FLUSH", key, caller.where(ln),
                                     "%s() writes the coder buffer out depending on %s, which the read path (%s) also sets; this call is not "
                                     "guarded by any 'last transfer was a write' indicator, so after a mere read through a writable access "
                                     "id decoder state is flushed over the compressed stream" % (
                                         fl.name, ", ".join(".".join(m) for m in sorted(shared)), ", ".join(sorted(rclo - wclo))[:80]))
    ctx.floor("FLUSH", 2, n, "(flush call sites of stateful coders outside their write path)")


def _flusher_self_guard(prog, fl):
    """flush routine tests a mode parameter (== DFACC_WRITE) before its writes"""
    pn = [p[0] for p in fl.params]
    for b in fl.blocks.values():
        t = b.get("term")
        if t and t.get("cond") is not None:
            c = strip(t["cond"])
            if kind(c) == "bin" and c[1] in ("==", "!=") and kind(strip(c[2])) == "var" and strip(c[2])[1] in pn and is_int(c[3]):
                return "%s %s %s" % (strip(c[2])[1], c[1], render(c[3]))
    return None


def rule_stream_seek(ctx):
    """stream coders re-initialise before decoding forward when asked to seek backwards"""
    prog = ctx.prog
    n = 0
    for base, prefix in sorted(STREAM_CODERS.items()):
        f = prog.func(prefix + "_seek")
        key = "SEEK:%s" % (prefix + "_seek")
        if f is None:
            ctx.unrecognised("SEEK", key, "-", "seek slot not found")
            continue
        n += 1
        found = [False]
        reinit = [False]

        def g(node, st):
            if node[0] == "if":
                c = strip(node[1])
                if kind(c) == "bin" and c[1] in ("<", ">"):
                    l, r = strip(c[2]), strip(c[3])
                    if c[1] == ">":
                        l, r = r, l
                    if kind(l) == "var" and l[1] == f.params[1][0] and kind(r) == "mem" and r[2] == "offset":
                        found[0] = True

                        for c2 in ast_calls(node[2]):
                            if c2[1] and (c2[1].endswith("_init") or c2[1].endswith("_staccess2") or c2[1].endswith("_staccess")):
                                reinit[0] = True
            return True
        ast_walk(f.raw["ast"], g)
        if found[0] and reinit[0]:
            ctx.holds("SEEK", key, f.where(), "`offset < coder offset` re-initialises the coder before decoding forward")
        elif not found[0]:
            ctx.violated("SEEK", key, f.where(), "no `offset < <coder>_info->offset` branch: a backward seek would decode forward from the current position")
        else:
            ctx.violated("SEEK", key, f.where(), "the backward-seek branch does not re-initialise the coder")
    ctx.floor("SEEK", 3, n, "(stream coder seek functions)")


# ---------------------------------------------------------------------------------------
# position bookkeeping siblings: every storage kind keeps access_rec->posn the same way


class MustStore(PathAnalysis):
    def __init__(self, prog, field):
        super().__init__(prog)
        self.field = field
        self.exits = []
        self.zero_is_no_move = False

    def init_user(self, func):
        return False

    def on_stmt(self, func, bid, idx, stmt, env, user):
        if user:
            return user
        for n in walk(stmt["e"]):
            if n[0] in ("asg",) and mem_field(n[2]) == self.field:
                return True
            if n[0] == "incdec" and mem_field(n[3]) == self.field:
                return True
        return user

    def on_exit(self, func, bid, retval, env, user):
        from .flow import classify_ret
        # a transfer routine that returns a count of exactly 0 has moved nothing: the position stands
        if self.zero_is_no_move and retval is not None and retval[0] == "c" and retval[1] == 0:
            user = True
        self.exits.append((classify_ret(retval, self.fails), user))


POSN_EXCEPT = {
    "HRPread": "old-style compressed raster: only whole-image transfers are accepted (length must be 0 or the image size), every transfer "
               "starts at 0 by definition and posn is never consulted",
    "HRPwrite": "old-style compressed raster: whole-image transfers only (see HRPread)",
}


def rule_posn_siblings(ctx):
    """every read / write / seek function of a special-element table updates access_rec->posn on every non-failing path,
    and Hread / Hwrite / Hseek do the same for plain elements"""
    from .flow import fail_values
    prog = ctx.prog
    tables = _tables(prog)
    flow = _table_flow(prog, tables)
    special = flow.get(("accrec_t", "special_func"), set())
    n = 0
    targets = []
    for t in sorted(special):
        for slot in ("read", "write", "seek"):
            fn = tables[t][0].get(slot)
            if fn:
                targets.append((fn, "%s.%s" % (t, slot)))
    for fn in ("Hread", "Hwrite", "Hseek"):
        targets.append((fn, "plain elements"))
    for fn, role in targets:
        f = prog.func(fn)
        key = "POSN:%s" % fn
        n += 1
        if f is None:
            ctx.unrecognised("POSN", key, "-", "slot function %s not found" % fn)
            continue
        a = MustStore(prog, ("accrec_t", "posn"))
        a.fails = fail_values(f, prog)
        a.zero_is_no_move = not (role.endswith(".seek") or fn == "Hseek")
        a.run(f)
        ok_exits = [u for cls, u in a.exits if cls != "fail"]
        if not ok_exits:
            ctx.unrecognised("POSN", key, f.where(), "no non-failing exit found")
        elif all(ok_exits):
            ctx.holds("POSN", key, f.where(), "%s: access_rec->posn is updated on every non-failing path" % role)
        else:
            # delegating wrappers (e.g. the compressed element read calls the coder and updates posn after it) are handled by the
            # path analysis; a remaining path is a real omission unless the function delegates entirely to another slot function
            deleg = [c[1] for _, _, _, c in f.calls() if c[1] and any(c[1] == t2 for t2, _ in targets)]
            for _, _, _, c in f.calls():
                if c[1] is None:
                    ce = strip(c[2])
                    while kind(ce) == "deref":
                        ce = strip(ce[1])
                    if mem_field(ce) and mem_field(ce)[0] == "funclist_t" and mem_field(ce)[1] in ("read", "write", "seek"):
                        deleg.append("special_func->" + mem_field(ce)[1])
            if fn in POSN_EXCEPT:
                ctx.excepted("POSN", key, f.where(), POSN_EXCEPT[fn])
            elif deleg and fn in ("Hread", "Hwrite", "Hseek"):
                ctx.holds("POSN", key, f.where(), "%s: the special-element path delegates to the slot function (%s), the plain path updates posn" % (role, ", ".join(sorted(set(deleg)))))
            else:
                ctx.violated("POSN", key, f.where(), "%s: a non-failing path returns without updating access_rec->posn — the next transfer on this "
                             "storage kind starts at a stale position" % role)
    ctx.floor("POSN", 15, n, "(read/write/seek functions of the storage kinds)")


# ---------------------------------------------------------------------------------------
# trailing-pointer idiom: `prev = cur; cur = cur->next;` — if a function keeps a trailing pointer for a list cursor at one
# advance site, it must do so at every advance site of that cursor (the trailing pointer decides which node gets patched)


def _live_after(f, var, cur, fld, line):
    """is `var` read on some CFG path after the statement `cur = cur->fld` at `line`, before being assigned?"""
    site = None
    for bid, i, st in f.stmts():
        e = strip(st["e"])
        if kind(e) == "asg" and e[4] == line and kind(strip(e[2])) == "var" and strip(e[2])[1] == cur:
            site = (bid, i)
    if site is None:
        return True  # cannot locate: be conservative

    def uses_defs(e):
        uses, defs = False, False
        for x in walk(e, True):
            if x[0] == "asg" and x[1] == "=" and kind(strip(x[2])) == "var" and strip(x[2])[1] == var:
                defs = True
        # reads: any var node not being the pure LHS of a plain assignment
        cnt = sum(1 for x in walk(e, True) if x[0] == "var" and x[1] == var)
        lhs = sum(1 for x in walk(e, True) if x[0] == "asg" and x[1] == "=" and kind(strip(x[2])) == "var" and strip(x[2])[1] == var)
        uses = cnt > lhs
        return uses, defs

    seen = set()
    work = [(site[0], site[1] + 1)]
    while work:
        bid, idx = work.pop()
        if (bid, idx) in seen:
            continue
        seen.add((bid, idx))
        b = f.blocks[bid]
        stop = False
        for j in range(idx, len(b["s"])):
            u, d = uses_defs(b["s"][j]["e"])
            if u:
                return True
            if d:
                stop = True
                break
        if stop:
            continue
        for sb in b["succ"]:
            if sb >= 0:
                work.append((sb, 0))
    return False


def rule_trailing_pointer(ctx, files=None):
    from .codec import ast_walk
    prog = ctx.prog
    n = 0
    for f in prog.lib_funcs():
        if files and not f.rel.endswith(tuple(files)):
            continue
        blocks = []

        def g(node, st):
            if node[0] == "block":
                blocks.append(node[1])
            return True
        ast_walk(f.raw.get("ast"), g)
        adv = []  # (cursor, field, line, preceding statement expr)
        for ch in blocks:
            prev = None
            for c in ch:
                e = strip(c[1]) if c[0] == "s" else None
                if e is not None and kind(e) == "asg" and e[1] == "=" and kind(strip(e[2])) == "var":
                    cur = strip(e[2])[1]
                    r = strip(e[3])
                    if kind(r) == "mem" and r[5] and kind(strip(r[1])) == "var" and strip(r[1])[1] == cur:
                        adv.append((cur, r[2], e[4], prev))
                prev = e
        pairs = {}
        for cur, fld, line, prev in adv:
            if prev is not None and kind(prev) == "asg" and prev[1] == "=" and kind(strip(prev[2])) == "var" and \
                    kind(strip(prev[3])) == "var" and strip(prev[3])[1] == cur:
                pairs[(cur, fld)] = strip(prev[2])[1]
        for (cur, fld), trail in sorted(pairs.items()):
            ordn = 0
            for c2, f2, line, prev in adv:
                if (c2, f2) != (cur, fld):
                    continue
                ordn += 1
                n += 1
                key = "TRAIL:%s:%s#%d" % (f.name, cur, ordn)
                ok = (prev is not None and kind(prev) == "asg" and kind(strip(prev[2])) == "var" and strip(prev[2])[1] == trail
                      and kind(strip(prev[3])) == "var" and strip(prev[3])[1] == cur)
                if not ok and not _live_after(f, trail, cur, fld, line):
                    ctx.holds("TRAIL", key, f.where(line), "plain traversal: `%s` is not read again after this advance before it is re-assigned" % trail,
                              nontrivial=True)
                    continue
                if ok:
                    ctx.holds("TRAIL", key, f.where(line), "`%s = %s;` precedes `%s = %s->%s`" % (trail, cur, cur, cur, fld))
                else:
                    ctx.violated("TRAIL", key, f.where(line), "`%s = %s->%s` advances the cursor without `%s = %s;` immediately before it, although "
                                 "this function keeps `%s` as the trailing pointer at its other advance site(s): `%s` then designates a stale "
                                 "node and the wrong list element gets updated" % (cur, cur, fld, trail, cur, trail, trail))
    return n


def _eval_guard(e, val):
    """evaluate an integer/boolean expression tree under `val`, a function from a leaf node to an int (None = unknown)"""
    from .facts import kind, strip, is_int, int_val
    e = strip(e)
    k = kind(e)
    if k == "int":
        return e[1]
    if k in ("var", "mem"):
        return val(e)
    if k == "un" and e[1] == "!":
        v = _eval_guard(e[2], val)
        return None if v is None else int(not v)
    if k == "bin":
        a, b = _eval_guard(e[2], val), _eval_guard(e[3], val)
        op = e[1]
        if op == "&&":
            if a == 0 or b == 0:
                return 0
            return None if a is None or b is None else 1
        if op == "||":
            if (a is not None and a != 0) or (b is not None and b != 0):
                return 1
            return None if a is None or b is None else 0
        if a is None or b is None:
            return None
        return {"==": int(a == b), "!=": int(a != b), "<": int(a < b), "<=": int(a <= b), ">": int(a > b), ">=": int(a >= b), "+": a + b, "-": a - b, "*": a * b}.get(op)
    return None


WRITE_GUARD_CASES = [
    # (coder position, bytes written, current length of the data set, must the write be refused?, what it is)
    (10, 3, 10, False, "append at the end"),
    (0, 10, 10, False, "rewrite of the whole data set from the start"),
    (0, 12, 10, False, "rewrite from the start running past the end"),
    (0, 4, 10, True, "rewrite of the first bytes only"),
    (4, 3, 10, True, "write in the middle"),
]


def rule_coder_write_guard(ctx):
    """WRITEGUARD (C04, C05): the stream coders (RLE, skipping Huffman, deflate, szip) cannot change bytes in the middle of an encoded
    stream; their write routines promise to refuse everything but an append and a rewrite of at least the whole data set from its
    start.  The guard expression of each of them is evaluated on five representative situations; it must refuse 'the first bytes
    only' and 'in the middle' and admit the other three.  A guard that admits a short rewrite from the start re-encodes the head
    of the stream in place and leaves the rest misaligned — every later value of the data set is garbage, with no error."""
    from .codec import ast_walk
    from .facts import kind, strip, walk, render, mem_field, calls_in
    prog = ctx.prog
    n = 0
    for fn in ("HCPcrle_write", "HCPcskphuff_write", "HCPcdeflate_write"):  # szip is compiled out in this configuration
        f = prog.func(fn)
        if f is None:
            if fn != "HCPcszip_write":
                ctx.unrecognised("WRITEGUARD", "WRITEGUARD:%s" % fn, "-", "%s not found" % fn)
            continue
        guards = []

        def vis(nn, st):
            if nn[0] == "if" and not st.count and False:
                pass
            if nn[0] == "if":
                flds = {y[2] for y in walk(nn[1], True) if y[0] == "mem"}
                if "offset" in flds and "length" in flds:
                    guards.append(nn)
            return True
        ast_walk(f.raw.get("ast"), vis)
        if not guards:
            ctx.unrecognised("WRITEGUARD", "WRITEGUARD:%s" % fn, f.where(), "no guard over the coder's offset and the data set's length found")
            continue
        g = guards[0]
        n += 1
        key = "WRITEGUARD:%s" % fn
        wrong = []
        for off, ln, tot, refuse, what in WRITE_GUARD_CASES:
            def val(e, off=off, ln=ln, tot=tot):
                if kind(e) == "var":
                    return ln if e[1] == "length" else None
                mf = mem_field(e)
                if mf and mf[1] == "offset":
                    return off
                if mf and mf[1] == "length":
                    return tot
                return None
            v = _eval_guard(g[1], val)
            if v is None:
                wrong.append("%s: not decidable from the expression" % what)
            elif bool(v) != refuse:
                wrong.append("%s is %s" % (what, "refused" if v else "admitted"))
        if wrong:
            ctx.violated("WRITEGUARD", key, f.where(g[4]), "the guard `%s` gets %s" % (render(g[1])[:90], "; ".join(wrong)))
        else:
            ctx.holds("WRITEGUARD", key, f.where(g[4]), "admits append and full rewrite, refuses partial rewrites", nontrivial=True)
    ctx.floor("WRITEGUARD", 3, n, "(write guards of the stream coders)")
    return n


def rule_quotient_remainder_pair(ctx, files=("hdf/src/cnbit.c", "hdf/src/hbitio.c")):
    """QUOTREM (C04, C05): a bit position is split into a byte index and a bit-in-byte index: `p / 8` and `p % 8` of the *same* p.  In a
    routine of the bit-level coders that takes remainders by 8, every division by 8 must divide a quantity whose remainder by 8
    is also taken there (and whose rendering is identical): `(p + 7) / 8` next to `p % 8` addresses the neighbouring byte whenever
    p is a multiple of 8."""
    from .facts import kind, strip, walk, render, is_int
    prog = ctx.prog
    n = 0
    for f in prog.lib_funcs():
        if not f.rel.endswith(tuple(files)):
            continue
        div, mod = {}, set()
        for _b, _i, s, x in f.nodes(True):
            if x[0] == "bin" and x[1] in ("/", "%") and is_int(x[3], 8):
                r = render(strip(x[2]))
                if x[1] == "/":
                    div.setdefault(r, s.get("l", f.line))
                else:
                    mod.add(r)
        if not mod:
            continue
        for r, line in sorted(div.items()):
            n += 1
            key = "QUOTREM:%s:%s" % (f.name, r[:40])
            if r in mod:
                ctx.holds("QUOTREM", key, f.where(line), "`%s / 8` has its `%% 8` partner on the same quantity" % r[:50], nontrivial=True)
            else:
                ctx.violated("QUOTREM", key, f.where(line), "`%s / 8` selects a byte, but the bit inside the byte is taken from `%s %% 8`: the two disagree when the position is a multiple of 8" % (r[:50], sorted(mod)[0][:50]))
    ctx.floor("QUOTREM", 2, n, "(byte/bit splits of a bit position)")
    return n


def rule_difference_length_guarded(ctx, files=("hdf/src/cdeflate.c", "hdf/src/crle.c", "hdf/src/cskphuff.c", "hdf/src/cnbit.c", "hdf/src/cnone.c", "hdf/src/cszip.c")):
    """POSLEN (C05): Hwrite refuses a length of 0 (it is an error, not a no-op).  The coders flush what is left in a buffer with
    `Hwrite(aid, A - B, buf)`; when the buffer happens to be empty that difference is 0, the flush "fails", and with it the
    Hendaccess of a perfectly good element.  Every such call sits inside a condition that compares the two terms of the
    difference (`B < A`, `A > B`, `A != B`), so that it is made only when there is something to write."""
    from .codec import ast_walk
    from .facts import kind, strip, walk, render, calls_in, is_int
    prog = ctx.prog
    n = 0
    for f in prog.lib_funcs():
        if not f.rel.endswith(tuple(files)) or not f.raw.get("ast"):
            continue
        found = []

        def vis(nd, st):
            exprs = [nd[1]] if nd[0] in ("s", "if") and nd[1] is not None else []
            for e in exprs:
                for c in calls_in(e, True):
                    if c[1] == "Hwrite" and len(c[3]) > 1:
                        a = strip(c[3][1])
                        if kind(a) == "bin" and a[1] == "-":
                            found.append((nd, list(st), a))
            return True

        ast_walk(f.raw["ast"], vis)
        k = 0
        for nd, st, a in found:
            k += 1
            n += 1
            key = "POSLEN:%s#%d" % (f.name, k)
            A, B = render(strip(a[2])), render(strip(a[3]))
            line = nd[-3] if isinstance(nd[-3], int) else f.line
            ok = False
            chain = st + [nd]
            for i, s_ in enumerate(st):
                if s_[0] != "if" or chain[i + 1] is not s_[2]:
                    continue
                for c in walk(s_[1], True):
                    if c[0] == "bin" and c[1] in ("<", ">", "!=", "<=", ">="):
                        l_, r_ = render(strip(c[2])), render(strip(c[3]))
                        if (c[1] == "<" and l_ == B and r_ == A) or (c[1] == ">" and l_ == A and r_ == B) or (c[1] == "!=" and {l_, r_} == {A, B}):
                            ok = True
                        if c[1] == ">" and l_ == A and is_int(strip(c[3])) and is_int(strip(a[3])) and strip(c[3])[1] >= strip(a[3])[1]:
                            ok = True
                        # the difference itself compared with 0: (A - B) > 0, (A - B) != 0
                        d_ = strip(c[2])
                        if c[1] in (">", "!=") and kind(d_) == "bin" and d_[1] == "-" and render(strip(d_[2])) == A and render(strip(d_[3])) == B and is_int(strip(c[3]), 0):
                            ok = True
            if ok:
                ctx.holds("POSLEN", key, f.where(line), "`Hwrite(.., %s - %s, ..)` is made only when the difference is positive" % (A[:30], B[:30]), nontrivial=True)
            else:
                ctx.violated("POSLEN", key, f.where(line), "`Hwrite(.., %s - %s, ..)` is not guarded by a comparison of the two terms: when the buffer is empty the length is 0, Hwrite fails, and the element's end-access fails with it" % (A[:40], B[:40]))
    ctx.floor("POSLEN", 2, n, "(coder flushes whose length is a difference)")
    return n


def _scalar_vars(e):
    """names of variables read by value in e (not as the base of a member, element or pointee access)"""
    e = strip(e)
    k = kind(e)
    if k == "var":
        return {e[1]}
    if k in ("mem", "deref", "idx", "addr", "call", "int", "str", "flt", "fn", "sizeof?", None):
        return set()
    out = set()
    for x in e[1:]:
        if isinstance(x, list):
            if x and isinstance(x[0], str):
                out |= _scalar_vars(x)
            else:
                for y in x:
                    if isinstance(y, list):
                        out |= _scalar_vars(y)
    return out


def rule_fill_extent_persisted(ctx, files=("hdf/src/cdeflate.c", "hdf/src/crle.c", "hdf/src/cskphuff.c", "hdf/src/cnbit.c", "hdf/src/cnone.c", "hdf/src/cszip.c", "hdf/src/hbitio.c", "hdf/src/hchunks.c", "hdf/src/hcomp.c")):
    """FILLEXT (C05): a coder keeps a cursor into its expansion buffer in the coder record, so that the cursor survives from
    one Hread to the next.  What the cursor is measured against - in the "buffer used up, refill" test and in the "bytes
    left" difference `E - cursor` - is then a property of the buffer too and must survive with it: a field of a record, or a
    constant.  An extent computed from this call's `length` argument describes the request, not the buffer: after a short read
    a longer one copies bytes that were never expanded, and a shorter one discards bytes whose input is already consumed."""
    prog = ctx.prog
    n = 0
    for f in prog.lib_funcs():
        if not f.rel.endswith(tuple(files)):
            continue
        zeroed, advanced, defs = set(), set(), {}
        for _b, _i, s, x in f.nodes(True):
            if x[0] == "asg":
                lp = path(x[2])
                lhs = strip(x[2])
                if kind(lhs) == "mem" and lp:
                    if x[1] == "=" and is_int(x[3], 0):
                        zeroed.add(lp)
                    elif x[1] == "+=" or (x[1] == "=" and kind(strip(x[3])) == "bin" and strip(x[3])[1] == "+" and path(strip(x[3])[2]) == lp):
                        advanced.add(lp)
                elif kind(lhs) == "var":
                    defs.setdefault(lhs[1], []).append(x[3])
            elif x[0] == "incdec":
                lp = path(x[3])
                if lp and kind(strip(x[3])) == "mem":
                    advanced.add(lp)
            elif x[0] == "decl":
                for d in x[1]:
                    if d[2] is not None:
                        defs.setdefault(d[0], []).append(d[2])
        cursors = zeroed & advanced
        if not cursors:
            continue
        percall = set()
        for p in f.params:
            pn, pt = (p[0], p[1]) if isinstance(p, (list, tuple)) else (p.get("name"), p.get("type"))
            if pt and "*" not in pt:
                percall.add(pn)
        changed = True
        while changed:
            changed = False
            for v, rhss in defs.items():
                if v not in percall and any(_scalar_vars(r) & percall for r in rhss):
                    percall.add(v)
                    changed = True
        seen = set()
        for _b, _i, s, x in f.nodes(True):
            if x[0] != "bin":
                continue
            ext = None
            if x[1] in ("<", ">", "<=", ">=") :
                if path(x[2]) in cursors and kind(strip(x[2])) == "mem":
                    ext, cur = x[3], path(x[2])
                elif path(x[3]) in cursors and kind(strip(x[3])) == "mem":
                    ext, cur = x[2], path(x[3])
            elif x[1] == "-" and path(x[3]) in cursors and kind(strip(x[3])) == "mem":
                ext, cur = x[2], path(x[3])
            if ext is None or is_int(ext):
                continue
            r = render(strip(ext))
            key = "FILLEXT:%s:%s:%s" % (f.name, cur.split("->")[-1], r[:30])
            if key in seen:
                continue
            seen.add(key)
            n += 1
            bad = sorted(_scalar_vars(ext) & percall)
            line = s.get("l", f.line)
            if bad:
                ctx.violated("FILLEXT", key, f.where(line), "the persisted cursor `%s` is measured against `%s`, which is computed from this call's argument (%s): the extent of the buffer does not survive to the next call with the cursor" % (cur, r[:40], ", ".join(bad)))
            else:
                ctx.holds("FILLEXT", key, f.where(line), "`%s` is measured against `%s`, which lives as long as the cursor does" % (cur, r[:40]), nontrivial=True)
    ctx.floor("FILLEXT", 1, n, "(extents a persisted buffer cursor is measured against)")
    return n


def rule_state_reset_siblings(ctx, files=("hdf/src/crle.c", "hdf/src/cskphuff.c", "hdf/src/cnbit.c", "hdf/src/cdeflate.c", "hdf/src/cszip.c", "hdf/src/hbitio.c")):
    """STATEHIST (C05): a coder written as a state machine (`switch (p->state)`) re-enters its start state from several places
    - "run record full", "literal record full".  The start state rebuilds only part of the machine's memory; the rest (the
    look-behind bytes that decide whether a run begins) is wiped by the transition itself.  All transitions of one routine
    into the same state wipe the same fields with constants: one that leaves a look-behind byte standing lets the next
    record see a run one byte early, and the decoded stream gains a byte."""
    from .facts import int_name
    prog = ctx.prog
    n = 0
    for f in prog.lib_funcs():
        ast = f.raw.get("ast")
        if not ast or not f.rel.endswith(tuple(files)):
            continue
        switched = set()
        sites = {}

        def vis(nd, st):
            if nd[0] == "switch" and nd[1] is not None and kind(strip(nd[1])) == "mem":
                switched.add(path(nd[1]))
            if nd[0] == "block":
                consts = {}
                for k in nd[1]:
                    if k[0] != "s":
                        continue
                    for x in walk(k[1], True):
                        if x[0] == "asg" and x[1] == "=" and kind(strip(x[2])) == "mem" and path(x[2]):
                            r = strip(x[3])
                            while kind(r) == "asg":
                                r = strip(r[3])
                            if kind(r) == "int":
                                consts[path(x[2])] = (int_name(r) or r[1], k[-3] if isinstance(k[-3], int) else f.line)
                for p, (c, l) in consts.items():
                    sites.setdefault((p, c), []).append((l, frozenset(q for q in consts if q != p)))
            return True

        ast_walk(ast, vis)
        for (p, c), ss in sorted(sites.items(), key=lambda kv: str(kv[0])):
            if p not in switched or len(ss) < 2:
                continue
            union = frozenset().union(*[s for _l, s in ss])
            for l, s in ss:
                n += 1
                key = "STATEHIST:%s:%s=%s@%d" % (f.name, p.split("->")[-1], c, sorted(x[0] for x in ss).index(l))
                miss = sorted(union - s)
                if miss:
                    ctx.violated("STATEHIST", key, f.where(l), "this transition to %s does not wipe %s, which the routine's other transition(s) to the same state do: the machine restarts with stale memory" % (c, ", ".join(miss)))
                else:
                    ctx.holds("STATEHIST", key, f.where(l), "the transition to %s wipes %s like its sibling(s)" % (c, ", ".join(sorted(s)) or "nothing"), nontrivial=True)
    ctx.floor("STATEHIST", 2, n, "(transitions of a coder state machine into a state entered from several places)")
    return n


def rule_refill_moves_block_offset(ctx):
    """REFILLADV (C05): the bit-I/O layer keeps a window of the element in a buffer: `block_offset` is where the window starts
    in the element, `buf_read` how many bytes of it are valid.  Each time the window is refilled (`buf_read = n` after an
    Hread) the same block of statements says where the new window starts - it adds the old `buf_read` to `block_offset`,
    assigns it outright, or has just used it to position the read.  A refill that leaves `block_offset` alone makes Hbitseek
    believe the previous window is still in the buffer, and a later seek returns bits of the wrong block."""
    from .codec import ast_walk
    prog = ctx.prog
    n = 0
    for f in prog.lib_funcs():
        ast = f.raw.get("ast")
        if not ast or not f.rel.endswith("hdf/src/hbitio.c"):
            continue
        sites = []

        def vis(nd, st):
            if nd[0] == "block":
                fills = []
                touches = False
                for k in nd[1]:
                    es = []
                    if k[0] in ("s", "if") and k[1] is not None:
                        es.append(k[1])
                    for e in es:
                        for x in walk(e, True):
                            if x[0] == "asg" and x[1] == "=" and kind(strip(x[2])) == "mem" and strip(x[2])[2] == "buf_read" and not is_int(x[3]):
                                fills.append(k)
                            if x[0] == "mem" and x[2] == "block_offset":
                                touches = True
                if fills and not touches:
                    # the initial fill: the start of the window is assigned outright in an enclosing block
                    for a in st:
                        if a[0] == "block":
                            for k2 in a[1]:
                                if k2[0] == "s" and k2[1] is not None and any(x[0] == "asg" and x[1] == "=" and kind(strip(x[2])) == "mem" and strip(x[2])[2] == "block_offset" for x in walk(k2[1], True)):
                                    touches = True
                for k in fills:
                    sites.append((k, touches))
            return True

        ast_walk(ast, vis)
        for i, (k, touches) in enumerate(sites, 1):
            n += 1
            key = "REFILLADV:%s#%d" % (f.name, i)
            line = k[-3] if isinstance(k[-3], int) else f.line
            if touches:
                ctx.holds("REFILLADV", key, f.where(line), "the block that refills the bit buffer also settles block_offset", nontrivial=True)
            else:
                ctx.violated("REFILLADV", key, f.where(line), "the bit buffer is refilled (`buf_read = ..`) in a block that never mentions block_offset: the window's recorded start stays that of the previous block, and a later Hbitseek inside that range reads the wrong bytes")
    ctx.floor("REFILLADV", 5, n, "(refills of the bit buffer)")
    return n


INITALL_EXCEPT = {
    ("HCIcrle_init", "buf_length"): "the RLE machine starts in state RLE_INIT (set by the init routine), and both the decoder and the encoder assign buf_length in that state before they read it",
}


def rule_coder_init_complete(ctx, files=("hdf/src/crle.c", "hdf/src/cnbit.c", "hdf/src/cskphuff.c")):
    """INITALL (C05): a coder is restarted - at the start of access and on every backward seek - by its `.._init` routine, which
    puts the coder record back into its initial state.  Every scalar field of that record which another routine of the
    coder *reads* is assigned by the init routine: a field it leaves alone (the RLE "last operation was a write" flag) keeps
    its value across the restart, and the end-of-access flush then writes decoder left-overs over valid compressed data."""
    prog = ctx.prog
    n = 0
    for rel in files:
        funcs = [f for f in prog.lib_funcs() if f.rel.endswith(rel)]
        inits = [f for f in funcs if f.name.endswith("_init")]
        if not inits:
            continue
        init = inits[0]
        assigned = {}
        for _b, _i, _s, x in init.nodes(True):
            if x[0] == "asg":
                mf = mem_field(x[2])
                if mf:
                    assigned.setdefault(mf[0], set()).add(mf[1])
                t = strip(x[2])
                while kind(t) == "idx":
                    t = strip(t[1])
                mf = mem_field(t)
                if mf:
                    assigned.setdefault(mf[0], set()).add(mf[1])
        recs = [r for r in assigned if "info" in r and ("coder" in r or "comp" in r)]
        if not recs:
            continue
        rec = max(recs, key=lambda r: len(assigned[r]))
        read = {}
        for f in funcs:
            if f is init:
                continue
            for _b, _i, s, x in f.nodes(True):
                if x[0] == "asg" and x[1] == "=":
                    rhs_nodes = list(walk(x[3], True))
                else:
                    rhs_nodes = [x]
                for y in rhs_nodes:
                    if y[0] == "mem" and y[3] == rec:
                        read.setdefault(y[2], (f.name, s.get("l", f.line)))
        # array members are re-filled before use, not initialised
        arrays = set()
        for f in funcs:
            for _b, _i, _s, x in f.nodes(True):
                if x[0] == "idx" and mem_field(x[1]) and mem_field(x[1])[0] == rec:
                    arrays.add(mem_field(x[1])[1])
        # running state only: fields that the coder's other routines also *write* (parameters such as a mask length or a skip
        # size are set once at creation and only read here)
        written = set()
        for f in funcs:
            if f is init:
                continue
            for _b, _i, _s, x in f.nodes(True):
                if x[0] == "asg":
                    mf = mem_field(x[2])
                    if mf and mf[0] == rec:
                        written.add(mf[1])
                elif x[0] == "incdec":
                    mf = mem_field(x[3])
                    if mf and mf[0] == rec:
                        written.add(mf[1])
        for fld, (fn, line) in sorted(read.items()):
            if fld in arrays or fld not in written:
                continue
            n += 1
            key = "INITALL:%s:%s" % (init.name, fld)
            if (init.name, fld) in INITALL_EXCEPT:
                ctx.excepted("INITALL", key, init.where(), INITALL_EXCEPT[(init.name, fld)])
                continue
            if fld in assigned[rec]:
                ctx.holds("INITALL", key, init.where(), "`%s` is reset by %s" % (fld, init.name), nontrivial=True)
            else:
                ctx.violated("INITALL", key, init.where(), "`%s` is read by %s (line %d) but %s, which restarts the coder, never assigns it: the field survives a restart with the value of the previous pass" % (fld, fn, line, init.name))
    ctx.floor("INITALL", 6, n, "(coder record fields read outside the init routine)")
    return n
