"""C16, clause 'never corrupt memory': what the error paths do with the objects they own.

M1  no object is released twice on a path (free / HIrelease_accrec_node, with per-function 'releases its argument
    when it fails' summaries, also through the endaccess function-pointer slot)
M2  no stdio call receives a stream that is NULL on that path
M3  error clean-up frees only what the function allocated (not a node it borrowed from a list it did not unlink it from)
M4  a pointer result that is NULL when the callee hits an I/O failure is tested before it is dereferenced
DIV a divisor decoded from file bytes is tested against zero before the first division by it
"""
from .facts import kind, strip, walk, path, render, int_val, is_int, calls_in, mem_field, base_var, unseen
from .par import pmap
from .flow import PathAnalysis, fail_values, classify_ret, call_key

RELEASERS = {"free": 0, "HIrelease_accrec_node": 0}
ALLOCATORS = {"malloc", "calloc", "realloc", "strdup", "HIget_access_rec", "HDstrdup"}
DEREF_ARGS = {"strlen": (0,), "strcpy": (0, 1), "strcat": (0, 1), "strcmp": (0, 1), "strncmp": (0, 1), "strncpy": (0, 1),
              "memcpy": (0, 1), "memcmp": (0, 1), "memmove": (0, 1), "memset": (0,), "strdup": (0,), "strchr": (0,), "strrchr": (0,)}
STDIO_STREAM_ARG = {"fclose": 0, "fflush": 0, "fseek": 0, "ftell": 0, "fread": 3, "fwrite": 3, "hi_close_stdio": 0}


def special_slot_targets(prog, field):
    """functions stored in slot `field` of the tables the special-element dispatcher can select (global `functab`),
    i.e. the targets of `access_rec->special_func-><field>` -- narrower than every funclist_t in the program (the coder
    and model tables reuse that type)"""
    cache = getattr(prog, "_special_slots", None)
    if cache is None:
        cache = {}
        tabs = []
        for g in prog.globals.get("functab", []):
            if "init" in g:
                for x in walk(g["init"], True):
                    if x[0] == "var" and x[2] == "g":
                        tabs.append(x[1])
        for t in tabs:
            for g in prog.globals.get(t, []):
                ini = g.get("init")
                if ini and kind(ini) == "init" and ini[3]:
                    for nm, v in zip(ini[3], ini[2]):
                        v = strip(v)
                        if kind(v) == "addr":
                            v = strip(v[1])
                        if kind(v) == "fn":
                            cache.setdefault(nm, set()).add(v[1])
        prog._special_slots = cache
    return sorted(cache.get(field, ()))


def _callee_names(prog, call, func):
    if not call[1]:
        ce = strip(call[2])
        while kind(ce) == "deref":
            ce = strip(ce[1])
        if kind(ce) == "mem" and kind(strip(ce[1])) == "mem" and strip(ce[1])[2] == "special_func":
            t = special_slot_targets(prog, ce[2])
            if t:
                return t
    return prog.callee_names(call, func)


def _ptr_fail_null(prog):
    """library functions that return a pointer and return NULL through an error macro (HGOTO_ERROR(.., NULL) and friends)"""
    c = getattr(prog, "_ptr_fail_null", None)
    if c is None:
        c = set()
        for f in prog.lib_funcs():
            ti = prog.types.get(f.ret)
            if not (ti and ti[0] == "ptr"):
                continue
            try:
                fv = fail_values(f, prog)
            except Exception:
                continue
            explicit = False
            for _b, _i, st in f.stmts():
                m = st.get("m") or []
                if any(x.startswith("HGOTO") or x.startswith("HRETURN") or x.startswith("HE_REPORT") for x in m):
                    explicit = True
                    break
            if explicit and 0 in fv:
                c.add(f.name)
        prog._ptr_fail_null = c
    return c


def _is_null(e):
    e = strip(e)
    return is_int(e) and int_val(e) == 0


def _arg_path(a):
    """access path of an argument; array elements are not tracked (their index changes under the analysis' feet)"""
    a = strip(a)
    if kind(a) == "addr":
        a = strip(a[1])
    p = path(a)
    if p is None or "[" in p or "*" in p:
        return None
    return p


class Mem(PathAnalysis):
    """user = (released paths, variables known NULL, provenance of locals freed in clean-up)"""

    def __init__(self, prog, relf, W=None):
        super().__init__(prog)
        self.W = W  # functions whose failure can be a storage failure (None: every failure counts, used for summaries)
        self.relf = relf  # (function name, param index) -> releases that argument whenever it fails
        self.findings = {}  # (rule, key) -> text
        self.sites = {"M1": set(), "M2": set(), "M3": set(), "M4": set()}
        self.param_released_on_fail = None  # filled by on_exit when summarising
        self._cleanup_cache = {}
        self._last_alloc = {}  # member paths assigned from an allocator somewhere in the function (flow-insensitive)

    def init_user(self, func):
        prov = {}
        for p in func.params:
            prov[p[0]] = "borrow"
        self.ptr_fail_null = _ptr_fail_null(self.prog)
        self._last_alloc = {}
        for _b, _i, _s, n in func.nodes(True):
            if n[0] == "asg" and n[1] == "=" and kind(strip(n[3])) == "call" and strip(n[3])[1] in ALLOCATORS:
                tp = path(n[2])
                if tp and "->" in tp:
                    self._last_alloc[tp] = True
        self.interest = self._interest(func)
        self.freed_locals = set()
        for _, _, _, c in func.calls():
            if c[1] == "free" and c[3] and kind(strip(c[3][0])) == "var" and strip(c[3][0])[2] != "p":
                self.freed_locals.add(strip(c[3][0])[1])
        prov = {k: v for k, v in prov.items() if k in self.interest}
        return (frozenset(), frozenset(), tuple(sorted(prov.items())), self.W is None)

    def _interest(self, func):
        """paths whose state matters: arguments of releasers / stdio calls, arguments in released-on-failure positions"""
        out = set()
        for _, _, _, c in func.calls():
            nm = c[1]
            if nm in RELEASERS and len(c[3]) > RELEASERS[nm]:
                p = _arg_path(c[3][RELEASERS[nm]])
                if p:
                    out.add(p)
            if nm in STDIO_STREAM_ARG and len(c[3]) > STDIO_STREAM_ARG[nm]:
                p = _arg_path(c[3][STDIO_STREAM_ARG[nm]])
                if p:
                    out.add(p)
            for p in self._fail_release_targets(func, c):
                out.add(p)
        for p in func.params:
            out.add(p[0])
        return out

    # -- helpers
    def _release_targets(self, func, call):
        """[(path, how)] of the objects this call releases unconditionally"""
        nm = call[1]
        out = []
        if nm in RELEASERS and len(call[3]) > RELEASERS[nm]:
            p = _arg_path(call[3][RELEASERS[nm]])
            if p:
                out.append(p)
        return out

    def _fail_release_targets(self, func, call):
        names = _callee_names(self.prog, call, func)
        out = []
        if not names:
            return out
        for i, a in enumerate(call[3]):
            if all((n, i) in self.relf for n in names):
                p = _arg_path(a)
                if p:
                    out.append(p)
        return out

    def on_stmt(self, func, bid, idx, stmt, env, user):
        rel, nulls, prov, io = user
        rel = set(rel)
        nulls = set(nulls)
        prov = dict(prov)
        e = stmt["e"]
        # calls first (arguments are evaluated before an enclosing assignment stores)
        for c in calls_in(e):
            nm = c[1]
            if nm in STDIO_STREAM_ARG and len(c[3]) > STDIO_STREAM_ARG[nm]:
                p = _arg_path(c[3][STDIO_STREAM_ARG[nm]])
                if p:
                    self.sites["M2"].add((nm, c[5], c[6]))
                    if p in nulls and io:
                        self.findings[("M2", (nm, c[5], c[6]))] = (
                            "%s() at line %d receives `%s`, which is NULL on this path" % (nm, c[5], p))
                if nm == "hi_close_stdio" and p:
                    nulls.add(p)  # the wrapper resets the caller's pointer
            for p in self._release_targets(func, c):
                self.sites["M1"].add((nm, c[5], c[6]))
                if p in rel and p not in nulls and io:
                    self.findings[("M1", (nm, c[5], c[6]))] = (
                        "`%s` is released again by %s() at line %d although it was already released on this path" % (p, nm, c[5]))
                if p not in nulls:
                    rel.add(p)
                    loc = prov.get("@esc:" + p)
                    if loc and nm == "free":
                        self.sites["M3"].add((nm, c[5], c[6]))
                        prov["@pend:" + loc] = "%s@%d" % (p, c[5])
                    # releasing the owner of a location resolves what was pending inside it
                    for k2 in [k for k in prov if k.startswith("@pend:") and (k[6:].startswith(p + "->") or k[6:].startswith(p + "."))]:
                        prov.pop(k2)
                # M3: clean-up free of something that is only borrowed
                if nm == "free" and kind(strip(c[3][0])) == "var" and self._in_cleanup(func, bid, c):
                    v = strip(c[3][0])[1]
                    self.sites["M3"].add((nm, c[5], c[6]))
                    if prov.get(v) == "borrow" and v not in nulls and io:
                        self.findings[("M3", (nm, c[5], c[6]))] = (
                            "the error clean-up frees `%s` at line %d on a path where it still holds a pointer taken from a data structure "
                            "this function did not unlink it from" % (v, c[5]))
        # M4: a result that is NULL when the callee failed is dereferenced untested
        mn = {k[4:]: v for k, v in prov.items() if k.startswith("@mn:")}
        if mn:
            def hit(v, line):
                src = mn.get(v)
                if src:
                    self.findings[("M4", (src.split("@")[0], int(src.split("@")[1]), 0))] = (
                        "`%s` holds the result of %s() (line %s), which is NULL when that call fails, and is dereferenced at line %d without a test"
                        % (v, src.split("@")[0], src.split("@")[1], line))
            for x in walk(e, True):
                if x[0] in ("deref", "idx") and kind(strip(x[1])) == "var":
                    hit(strip(x[1])[1], stmt.get("l") or 0)
                elif x[0] == "mem" and x[5] and kind(strip(x[1])) == "var":
                    hit(strip(x[1])[1], stmt.get("l") or 0)
                elif x[0] == "call" and x[1] in DEREF_ARGS:
                    for ai in DEREF_ARGS[x[1]]:
                        if ai < len(x[3]) and kind(strip(x[3][ai])) == "var":
                            hit(strip(x[3][ai])[1], x[5])
                elif x[0] == "bin" and x[1] in ("+", "-") and False:
                    pass
        # assignments kill facts about the assigned path
        for x in walk(e, True):
            tgt = None
            rhs = None
            if x[0] == "asg" and x[1] == "=":
                tgt = path(x[2])
                rhs = strip(x[3])
            elif x[0] == "decl":
                for d in x[1]:
                    if d[2] is not None:
                        self._assign(d[0], strip(d[2]), rel, nulls, prov)
                continue
            if tgt:
                # a pending 'freed while still stored at tgt' is resolved by overwriting the location
                prov.pop("@pend:" + tgt, None)
                self._assign(tgt, rhs, rel, nulls, prov)
                if kind(rhs) == "var" and rhs[2] != "p" and "->" in tgt and base_var(x[2]) != rhs[1] and rhs[1] in self.freed_locals:
                    prov["@esc:" + rhs[1]] = tgt  # the local's value now also lives in a structure that outlives this call
        return (frozenset(rel), frozenset(nulls), tuple(sorted(prov.items())), io)

    def _assign(self, tgt, rhs, rel, nulls, prov):
        interesting = tgt in self.interest
        if prov.get("@esc:" + tgt):
            prov.pop("@esc:" + tgt)
        prov.pop("@mn:" + tgt, None)
        if "->" not in tgt and "." not in tgt:
            r0 = rhs
            if kind(r0) == "call" and r0[1] and self.W is not None and r0[1] in self.W and r0[1] in self.ptr_fail_null:
                prov["@mn:" + tgt] = "%s@%d" % (r0[1], r0[5])
                self.sites["M4"].add((r0[1], r0[5], r0[6]))
            elif kind(r0) == "var" and prov.get("@mn:" + r0[1]):
                prov["@mn:" + tgt] = prov["@mn:" + r0[1]]
            elif kind(r0) == "bin" and r0[1] in ("+", "-") and kind(strip(r0[2])) == "var" and prov.get("@mn:" + strip(r0[2])[1]):
                prov["@mn:" + tgt] = prov["@mn:" + strip(r0[2])[1]]
        for p in list(rel):
            if p == tgt or p.startswith(tgt + "->") or p.startswith(tgt + "."):
                rel.discard(p)
        for p in list(nulls):
            if p == tgt or p.startswith(tgt + "->") or p.startswith(tgt + "."):
                nulls.discard(p)
        if not interesting:
            return
        if _is_null(rhs):
            nulls.add(tgt)
            prov[tgt] = "null"
        elif kind(rhs) == "call":
            prov[tgt] = "alloc" if rhs[1] in ALLOCATORS else "callret"
        elif kind(rhs) in ("mem", "idx", "deref", "var"):
            rp = path(rhs)
            if rp is not None and self._last_alloc.get(rp):
                prov[tgt] = "alloc"  # `X->f = malloc(..); v = X->f;`
            elif kind(rhs) == "var" and prov.get(rhs[1]) in ("alloc", "null", "callret"):
                prov[tgt] = prov[rhs[1]]
            else:
                prov[tgt] = "borrow"
        else:
            prov[tgt] = "other"

    def _in_cleanup(self, func, bid, call):
        return bid in self._cleanup_blocks(func)

    def _cleanup_blocks(self, func):
        """blocks dominated by the true branch of `ret_value == <fail>` that follows a label (the `done:` idiom)"""
        c = self._cleanup_cache.get(func.name)
        if c is not None:
            return c
        out = set()
        retvars = set()
        for _b, _i, _s, n in func.nodes(True):
            if n[0] == "ret" and n[1] is not None and kind(strip(n[1])) == "var":
                retvars.add(strip(n[1])[1])
        dom = func.dominators()
        for bid, b in func.blocks.items():
            t = b.get("term")
            if not t or t.get("cond") is None or len(b["succ"]) != 2:
                continue
            cnd = strip(t["cond"])
            if kind(cnd) == "bin" and cnd[1] in ("==", "!=") and kind(strip(cnd[2])) == "var" and is_int(cnd[3]) \
                    and (strip(cnd[2])[1] in retvars or strip(cnd[2])[1] == "ret_value"):
                tgt = b["succ"][0] if cnd[1] == "==" else b["succ"][1]
                okvals = set(self.fails or {-1}) if strip(cnd[2])[1] in retvars else {-1}
                if int_val(cnd[3]) not in okvals:
                    continue
                for b2 in func.blocks:
                    if tgt in dom.get(b2, ()):  # tgt dominates b2
                        out.add(b2)
        self._cleanup_cache[func.name] = out
        return out

    def on_assume(self, func, bid, cond, pol, env, user):
        rel, nulls, prov, io = user
        c = strip(cond)
        if not io and kind(c) == "bin" and c[1] in ("==", "!="):
            for side in (c[2], c[3]):
                x = strip(side)
                if kind(x) == "call" and x[1] in ("fwrite", "fread") and ((c[1] == "==") == pol) is False:
                    io = True
                    user = (rel, nulls, prov, io)
        p = None
        isnull = None
        if kind(c) == "bin" and c[1] in ("==", "!="):
            if _is_null(c[3]):
                p = path(c[2])
            elif _is_null(c[2]):
                p = path(c[3])
            if p:
                isnull = (c[1] == "==") == pol
        elif kind(c) == "un" and c[1] == "!":
            p = path(c[2])
            isnull = pol
        elif kind(c) in ("var", "mem"):
            p = path(c)
            isnull = not pol
        if p is None:
            return user
        if any(k == "@mn:" + p for k, _ in prov):
            prov = tuple((k, v) for k, v in prov if not (k.startswith("@mn:") and v == dict(prov)["@mn:" + p]))
            user = (rel, nulls, prov, io)
        if isnull:
            if p in nulls:
                return user
            if p not in self.interest:
                return user
            return (rel, nulls | {p}, prov, io)
        if p in nulls:
            return self.INFEASIBLE
        return user  # (maybe-null facts about p were cleared above)

    def on_call_outcome(self, func, call, outcome, env, user):
        if outcome not in ("fail", "fail?"):
            return user
        rel, nulls, prov, io = user
        if not io and self.W is not None:
            names = _callee_names(self.prog, call, func)
            if call[1] in self.W or (names and any(n in self.W for n in names)):
                io = True
        add = [p for p in self._fail_release_targets(func, call) if p not in nulls]
        return (rel | frozenset(add), nulls, prov, io)

    def on_exit(self, func, bid, retval, env, user):
        rel, nulls, prov, io = user
        if io:
            for k, v in prov:
                if k.startswith("@pend:"):
                    var, _, line = v.partition("@")
                    self.findings[("M3", ("free", int(line), 0))] = (
                        "`%s` is freed at line %s while `%s` still points to it when the function returns: the structure keeps a dangling pointer"
                        % (var, line, k[6:]))
        prov = ()
        if self.param_released_on_fail is None:
            self.param_released_on_fail = {}
        if classify_ret(retval, self.fails) == "fail":
            for i, p in enumerate(func.params):
                ok = p[0] in rel or p[0] in nulls
                cur = self.param_released_on_fail.get(i)
                self.param_released_on_fail[i] = ok if cur is None else (cur and ok)


_PAR = {}


def _relf_worker(nm):
    prog, relf, f = _PAR["prog"], _PAR["relf"], _PAR["byname"][nm]
    a = Mem(prog, relf)
    a.fails = fail_values(f, prog)
    try:
        a.run(f)
    except Exception:
        return []
    if getattr(a, "hard_degraded", False):
        return []
    return [i for i, ok in (a.param_released_on_fail or {}).items() if ok]


def _mem_worker(nm):
    prog, relf, W, f = _PAR["prog"], _PAR["relf"], _PAR["W"], _PAR["funcs"][nm]
    a = Mem(prog, relf, W)
    a.fails = fail_values(f, prog)
    res = {"err": None, "explode": False, "hard": False, "findings": {}, "sites": {}}
    try:
        a.run(f)
    except Exception as e:
        if "state explosion" in str(e):
            res["explode"] = True
        else:
            res["err"] = str(e)
        return res
    res["hard"] = bool(getattr(a, "hard_degraded", False))
    res["findings"] = dict(a.findings)
    res["sites"] = {k: len(v) for k, v in a.sites.items()}
    return res


def summarise_relf(prog, funcs):
    """(function, param index) pairs: the function releases that pointer argument on every failing return (or it is NULL)"""
    relf = set()
    # candidates: functions that call a releaser on one of their parameters
    cands = []
    for nm, f in funcs.items():
        pn = {p[0] for p in f.params}
        if any(c[1] in RELEASERS and c[3] and _arg_path(c[3][0]) in pn for _, _, _, c in f.calls()):
            cands.append(f)
    byname = {f.name: f for f in cands}
    for _round in range(3):
        new = set()
        _PAR.update(prog=prog, relf=set(relf), byname=byname)
        for nm, idx in pmap(_relf_worker, sorted(byname), "memrelf").items():
            for i in idx:
                new.add((nm, i))
        if new <= relf:
            break
        relf |= new
    return relf


def rule_mem(ctx, W=None):
    prog = ctx.prog
    funcs = {}
    for f in prog.lib_funcs():
        if f.name not in funcs or not f.static:
            funcs[f.name] = f
    if W is None:
        from . import rules_errors
        W = rules_errors.closed_W(ctx)
    relf = summarise_relf(prog, funcs)
    ctx.stats["release_on_fail_summaries"] = sorted("%s#%d" % x for x in relf)
    counts = {"M1": 0, "M2": 0, "M3": 0, "M4": 0}
    todo = []
    pfn = _ptr_fail_null(prog)
    for nm, f in sorted(funcs.items()):
        for _, _, _, c in f.calls():
            if c[1] in RELEASERS or c[1] in STDIO_STREAM_ARG or (c[1] in pfn and c[1] in W):
                todo.append(nm)
                break
    _PAR.update(prog=prog, relf=relf, W=W, funcs=funcs)
    results = pmap(_mem_worker, todo, "memmain")
    for nm in todo:
        f = funcs[nm]
        res = results[nm]
        nskip = sum(1 for _, _, _, c in f.calls() if c[1] in RELEASERS or c[1] in STDIO_STREAM_ARG)
        if res["explode"]:
            ctx.excepted("MEM", "MEM:%s" % nm, f.where(), "not decided: too many path states for the path-sensitive ownership analysis (%d call sites skipped)" % nskip)
            continue
        if res["err"]:
            ctx.unrecognised("MEM", "MEM:%s" % nm, f.where(), "analysis failed: %s" % res["err"])
            continue
        if res["hard"] and res["findings"]:
            ctx.excepted("MEM", "MEM:%s" % nm, f.where(), "not decided: path environment dropped (too many states); reports would not be reliable")
            continue

        class _A:
            pass
        a = _A()
        a.findings = res["findings"]
        a.sites = {k: range(v) for k, v in res["sites"].items()}
        bad = {}
        for (rule, site), txt in a.findings.items():
            bad.setdefault(rule, []).append((site, txt))
        for rule in ("M1", "M2", "M3", "M4"):
            n = len(a.sites[rule])
            if not n:
                continue
            counts[rule] += n
            key = "%s:%s" % (rule, nm)
            if rule in bad:
                site, txt = sorted(bad[rule])[0]
                exc = MEM_EXCEPT.get((rule, nm))
                if exc:
                    ctx.excepted(rule, key, f.where(site[1]), exc)
                else:
                    ctx.violated(rule, key, f.where(site[1]), txt)
            else:
                ctx.holds(rule, key, f.where(), {"M1": "%d release site(s): none reached with the object already released",
                                                 "M2": "%d stdio call(s): the stream is never NULL on the path",
                                                 "M3": "%d clean-up free(s): every freed local was allocated here or is NULL",
                                                 "M4": "%d pointer result(s) of failing-capable callees: tested before every dereference"}[rule] % n,
                          nontrivial=True)
    ctx.floor("M1", 400, counts["M1"], "(release sites)")
    ctx.floor("M2", 15, counts["M2"], "(stdio calls on a named stream)")
    ctx.floor("M3", 35, counts["M3"], "(frees of locals inside error clean-up)")
    ctx.floor("M4", 2, counts["M4"], "(pointer results of failing-capable callees held in a local)")


MEM_EXCEPT = {
    ("M1", "hdf_read_ndgs"): "dimsizes/vardims/scaletypes keep the freed pointer only when an NDG has no SDD member (malformed file, no I/O failure "
                             "involved): the 'failure' on the flagged path is the end-of-list result of Hnextread",
    ("M1", "vimakecompat"): "HDF 1.x/2.0 Vset converter that cannot get this far: oldunpackvg copies into the unallocated vg->vgname on the first "
                            "old-style Vgroup (replay triage/c16_vcompat_uaf.c: SIGSEGV before the flagged free); defect unrelated to I/O failures, see DESIGN.md",
}


def rule_handed_over_not_freed(ctx):
    """OWNXFER (C16, C11): a loop that builds objects and hands each to an owning container (`tbbtdins` into a tree,
    `HAregister_atom` into an atom group) keeps working pointers to the object under construction, and the routine's failure
    cleanup frees those pointers.  After the hand-over they still point at the object the container now owns, so before the
    next iteration can fail they are cleared (`p = NULL`) - otherwise a read error on the *next* annotation frees the previous
    one under the tree, and the end routine reads and frees it again."""
    from .codec import ast_walk
    from .facts import calls_in, is_null
    from .rules_loops import loops_of, loop_body, seq_of
    prog = ctx.prog
    n = 0
    for f in prog.lib_funcs():
        ast = f.raw.get("ast")
        if not ast:
            continue
        # pointers freed under a `ret_value == FAIL` (or similar) cleanup at function level
        freed = set()

        def vis(nd, st):
            if nd[0] == "if" and nd[1] is not None and any(x[0] == "var" and x[1] in ("ret_value", "ret") for x in walk(nd[1], True)):
                for e, _k in seq_of(nd[2]):
                    for c in calls_in(e, True):
                        if c[1] in ("free", "HDfree") and c[3] and kind(strip(c[3][0])) == "var":
                            freed.add(strip(c[3][0])[1])
            return True

        ast_walk(ast, vis)
        if not freed:
            continue
        for lp, st in loops_of(f):
            seq = seq_of(loop_body(lp))
            handed = {}
            for i, (e, nd) in enumerate(seq):
                for c in calls_in(e, True):
                    if c[1] in ("tbbtdins", "HAregister_atom"):
                        for a in c[3]:
                            a = strip(a)
                            if kind(a) == "var" and a[1] in freed:
                                handed[a[1]] = max(handed.get(a[1], -1), i)
            for v, i in sorted(handed.items()):
                n += 1
                key = "OWNXFER:%s:%s" % (f.name, v)
                line = seq[i][1][-3] if isinstance(seq[i][1][-3], int) else f.line
                cleared = False
                for e, nd in seq[i + 1:]:
                    for x in walk(e, True):
                        if x[0] == "asg" and x[1] == "=" and kind(strip(x[2])) == "var" and strip(x[2])[1] == v:
                            r_ = strip(x[3])
                            while kind(r_) == "asg":          # p = q = NULL
                                r_ = strip(r_[3])
                            if is_null(r_):
                                cleared = True
                # a failing exit can follow the hand-over only if something after it in the iteration (or the next iteration
                # before the pointer is re-assigned) can fail; a loop whose hand-over is its last fallible step and whose next
                # iteration starts by assigning the pointer is fine too
                first_assign_before_fail = False
                for e, nd in seq:
                    if any(x[0] == "asg" and x[1] == "=" and kind(strip(x[2])) == "var" and strip(x[2])[1] == v for x in walk(e, True)):
                        first_assign_before_fail = True
                        break
                    if any(True for c in calls_in(e, True)):
                        break
                if cleared or first_assign_before_fail:
                    ctx.holds("OWNXFER", key, f.where(line), "`%s` is %s after it has been handed to its container" % (v, "cleared" if cleared else "re-assigned before anything in the next iteration can fail"), nontrivial=True)
                else:
                    ctx.violated("OWNXFER", key, f.where(line), "`%s` is handed to a tree/atom group in the loop, freed by the failure cleanup, and not cleared after the hand-over: a failure in a later iteration frees an object the container owns" % v)
    ctx.floor("OWNXFER", 3, n, "(working pointers handed to a container inside a loop and freed by the cleanup)")
    return n


def rule_alias_not_freed_before_cleanup(ctx):
    """ALIASFREE (C16): a routine whose failure cleanup does `free(rec->field)` owns that block through the field until it
    returns.  A local that is just another name for the same block (`info = rec->field`) is therefore not freed in an error
    branch that goes on to the cleanup - unless the field is cleared there - or the block is freed twice: the failure is still
    reported, but the allocator aborts the process (or corrupts the heap) while reporting it."""
    from .codec import ast_walk
    from .facts import calls_in, is_null
    from .rules_loops import seq_of, _terminates
    prog = ctx.prog
    n = 0
    for f in prog.lib_funcs():
        ast = f.raw.get("ast")
        if not ast:
            continue
        cleanup = set()

        def vis(nd, st):
            if nd[0] == "if" and nd[1] is not None and not [a for a in st if a[0] in ("for", "while", "do", "if")] and any(x[0] == "var" and x[1] in ("ret_value", "ret") for x in walk(nd[1], True)):
                for e, _k in seq_of(nd[2]):
                    for c in calls_in(e, True):
                        if c[1] in ("free", "HDfree") and c[3] and kind(strip(c[3][0])) == "mem":
                            cleanup.add(render(strip(c[3][0])))
            return True

        ast_walk(ast, vis)
        if not cleanup:
            continue
        alias = {}
        for _b, _i, _s, x in f.nodes(True):
            if x[0] == "asg" and x[1] == "=" and kind(strip(x[2])) == "var":
                r = strip(x[3])
                if kind(r) == "mem" and render(r) in cleanup:
                    alias[strip(x[2])[1]] = render(r)
                elif kind(r) == "asg" and kind(strip(r[2])) == "mem" and render(strip(r[2])) in cleanup:
                    alias[strip(x[2])[1]] = render(strip(r[2]))
            elif x[0] == "decl":
                for d in x[1]:
                    if d[2] is not None and kind(strip(d[2])) == "mem" and render(strip(d[2])) in cleanup:
                        alias[d[0]] = render(strip(d[2]))
        if not alias:
            continue
        for v, m in sorted(alias.items()):
            n += 1
            key = "ALIASFREE:%s:%s" % (f.name, v)
            bad = []

            def vis2(nd, st):
                if nd[0] == "block":
                    kids = nd[1]
                    for i, k in enumerate(kids):
                        if k[0] == "s" and k[1] is not None and any(c[1] in ("free", "HDfree") and c[3] and kind(strip(c[3][0])) == "var" and strip(c[3][0])[1] == v for c in calls_in(k[1], True)):
                            rest = kids[i + 1:]
                            cleared = any(r_[0] == "s" and r_[1] is not None and any(x[0] == "asg" and x[1] == "=" and kind(strip(x[2])) == "mem" and render(strip(x[2])) == m and is_null(x[3]) for x in walk(r_[1], True)) for r_ in rest)
                            leaves = any(_terminates(r_) for r_ in rest) and not any(r_[0] == "s" and kind(r_[1]) == "ret" for r_ in rest)
                            in_cleanup = any(a[0] == "if" and a[1] is not None and any(x[0] == "var" and x[1] in ("ret_value", "ret") for x in walk(a[1], True)) for a in st)
                            if leaves and not cleared and not in_cleanup:
                                bad.append(k)
                return True

            ast_walk(ast, vis2)
            if bad:
                line = bad[0][-3] if isinstance(bad[0][-3], int) else f.line
                ctx.violated("ALIASFREE", key, f.where(line), "`free(%s)` in an error branch that goes on to the cleanup, where `free(%s)` frees the same block again (`%s` is another name for it)" % (v, m, v))
            else:
                ctx.holds("ALIASFREE", key, f.where(), "`%s` names the block the cleanup frees through `%s`; no error branch frees it first" % (v, m), nontrivial=True)
    ctx.floor("ALIASFREE", 2, n, "(locals that alias a block freed by the failure cleanup)")
    return n
