"""C18 (structural clauses): hrepack is a copy; whatever it preserves it must visit, read from the input and write to the output.

TRAVERSE  list_main returns SUCCEED only on paths on which each traversal routine (list_vg, list_sds, list_vs, list_glb,
          list_pal, list_an, and list_gr when the file has GR elements) was called and seen not to fail; the member switch
          of the Vgroup traversal has an arm that copies each object kind a Vgroup can hold (Vgroup, SDS tags, raster tags,
          Vdata header).
IOROLE    every HDF handle in the hrepack sources has a role derived from the function's parameters (`*_in`, `infile*`,
          `<stem>_id` next to `<stem>_out` ... are input; `*out*` are output) and propagated through select / create /
          attach calls; every *reading* API call takes an input-role handle and every *mutating* API call an output-role
          handle.  A swapped handle copies an object onto itself or reads back what was just written.
COPYERR   the result of every copy_* / list_* routine called from the traversal is tested (a failed copy must not end in a
          successful repack).
"""
import re
from .facts import kind, strip, walk, path, render, int_val, is_int, calls_in, mem_field
from .codec import ast_walk
from .rules_conv import switch_arms
from .flow import PathAnalysis, fail_values, classify_ret

TRAVERSAL = ("list_vg", "list_sds", "list_vs", "list_glb", "list_pal", "list_an")
MEMBER_ARMS = {
    "Vgroup": {1965},                              # DFTAG_VG
    "SDS": {702, 700, 720},                        # DFTAG_SD, SDG, NDG
    "raster": {302, 303, 306, 202, 203, 204},      # RI, CI, RIG, RI8, CI8, II8
    "Vdata": {1962},                               # DFTAG_VH
}
READERS = {
    "SDreaddata", "SDgetinfo", "SDattrinfo", "SDreadattr", "SDgetcompinfo", "SDgetcompress", "SDgetchunkinfo", "SDgetfillvalue",
    "SDgetdimscale", "SDdiminfo", "SDgetdimstrs", "SDgetdatastrs", "SDgetcal", "SDgetrange", "SDfileinfo", "SDfindattr", "SDnametoindex",
    "SDisrecord", "SDiscoordvar", "SDcheckempty", "SDgetnumvars_byname", "SDisdimval_bwcomp",
    "GRreadimage", "GRgetiminfo", "GRattrinfo", "GRgetattr", "GRreadlut", "GRgetlutinfo", "GRfileinfo", "GRgetcompinfo", "GRgetcompress",
    "GRgetchunkinfo", "GRreqimageil",
    "VSread", "VSinquire", "VSgetname", "VSgetclass", "VSgetfields", "VFnfields", "VFfieldname", "VFfieldtype", "VFfieldorder", "VFfieldisize",
    "VFfieldesize", "VSelts", "VSgetinterlace", "VSsizeof", "VSfnattrs", "VSattrinfo", "VSgetattr", "VSnattrs", "VSisattr",
    "Vgetname", "Vgetclass", "Vntagrefs", "Vgettagref", "Vgettagrefs", "Vnattrs", "Vattrinfo", "Vgetattr", "Vinquire", "Vgetnamelen", "Vgetclassnamelen",
    "ANreadann", "ANannlen", "ANannlist", "ANnumann", "ANfileinfo",
}
WRITERS = {
    "SDwritedata", "SDsetattr", "SDsetcompress", "SDsetchunk", "SDsetfillvalue", "SDsetdimname", "SDsetdimscale", "SDsetdimstrs", "SDsetdatastrs",
    "SDsetcal", "SDsetrange", "SDsetnbitdataset", "SDsetexternalfile", "SDsetdimval_comp", "SDsetfillmode", "SDcreate",
    "GRwriteimage", "GRsetattr", "GRwritelut", "GRsetcompress", "GRsetchunk", "GRcreate", "GRsetexternalfile",
    "VSwrite", "VSsetname", "VSsetclass", "VSfdefine", "VSsetattr", "VSsetinterlace", "VSsetblocksize", "VSsetnumblocks",
    "Vsetname", "Vsetclass", "Vsetattr", "Vaddtagref", "Vinsert", "ANwriteann", "ANcreate", "ANcreatef",
}
# calls whose result is a handle of the same role as their first argument
DERIVE = {"Hopen", "SDstart", "SDselect", "SDcreate", "SDgetdimid", "GRselect", "GRcreate", "GRgetlutid", "VSattach", "Vattach", "ANstart", "ANselect", "ANcreate", "ANcreatef",
          "GRstart", "SDidtoref", "GRidtoref"}
HANDLE_DERIVE = DERIVE - {"SDidtoref", "GRidtoref"}
SKIP_FILES = ("hrepacktst.c", "hrepack_check.c")


def _param_roles(f):
    names = [p[0] for p in f.params]
    roles = {}
    for nm in names:
        low = nm.lower()
        if "out" in low:
            roles[nm] = "out"
        elif re.search(r"(^|_)in($|_)|^infile|^in$|_in\d*$", low) or low.startswith("infile") or low.startswith("infname"):
            roles[nm] = "in"
    # `<stem>_id` (or `<stem>`) next to `<stem>_out`: the plain one is the input
    for nm in names:
        if nm in roles:
            continue
        stem = re.sub(r"_id$", "", nm)
        if any(o in names for o in (stem + "_out", stem + "_id_out", nm + "_out")):
            roles[nm] = "in"
    return roles


class _Roles(PathAnalysis):
    """flow-insensitive role propagation is enough here (a handle variable never changes role inside a function);
    implemented as a fixpoint over assignments, then one pass over the calls"""
    pass


def _roles_of(f):
    roles = _param_roles(f)
    changed = True
    conflicts = set()
    while changed:
        changed = False
        for _b, _i, _s, x in f.nodes(True):
            tgt = None
            rhs = None
            if x[0] == "asg" and x[1] == "=" and kind(strip(x[2])) == "var":
                tgt, rhs = strip(x[2])[1], strip(x[3])
            elif x[0] == "decl":
                for d in x[1]:
                    if d[2] is not None:
                        r = strip(d[2])
                        if kind(r) == "call" and r[1] in HANDLE_DERIVE and r[3] and kind(strip(r[3][0])) == "var":
                            ro = roles.get(strip(r[3][0])[1])
                            if ro and roles.get(d[0]) != ro:
                                if d[0] in roles:
                                    conflicts.add(d[0])
                                roles[d[0]] = ro
                                changed = True
                continue
            if tgt is None:
                continue
            if kind(rhs) == "call" and rhs[1] in HANDLE_DERIVE and rhs[3] and kind(strip(rhs[3][0])) == "var":
                ro = roles.get(strip(rhs[3][0])[1])
                if ro and roles.get(tgt) != ro:
                    if tgt in roles:
                        conflicts.add(tgt)
                    roles[tgt] = ro
                    changed = True
            elif kind(rhs) == "var" and rhs[1] in roles and roles.get(tgt) != roles[rhs[1]]:
                if tgt in roles:
                    conflicts.add(tgt)
                roles[tgt] = roles[rhs[1]]
                changed = True
        if len(conflicts) > 20:
            break
    for c in conflicts:
        roles.pop(c, None)  # a variable used in both roles (re-used temporary) is not decided
    return roles


def rule_io_roles(ctx):
    prog = ctx.prog
    n = 0
    nfun = 0
    for f in prog.funcs:
        if "mfhdf/hrepack/" not in f.rel or f.rel.endswith(SKIP_FILES):
            continue
        roles = _roles_of(f)
        if not roles:
            continue
        bad = []
        cnt = 0
        for _b, _i, _s, c in f.calls():
            nm = c[1]
            if nm not in READERS and nm not in WRITERS:
                continue
            if not c[3] or kind(strip(c[3][0])) != "var":
                continue
            ro = roles.get(strip(c[3][0])[1])
            if ro is None:
                continue
            cnt += 1
            if nm in WRITERS and ro == "in":
                bad.append((c[5], "%s() mutates through `%s`, which is an input handle" % (nm, strip(c[3][0])[1])))
            elif nm in READERS and nm not in WRITERS and ro == "out":
                bad.append((c[5], "%s() reads through `%s`, which is an output handle" % (nm, strip(c[3][0])[1])))
        if not cnt:
            continue
        n += cnt
        nfun += 1
        key = "IOROLE:%s" % f.name
        exc = IOROLE_EXCEPT.get(f.name)
        if bad and exc:
            ctx.excepted("IOROLE", key, f.where(bad[0][0]), exc)
        elif bad:
            ctx.violated("IOROLE", key, f.where(bad[0][0]), "%s: the copy would read what it has just written, or modify its input" % bad[0][1])
        else:
            ctx.holds("IOROLE", key, f.where(), "%d API call(s) on role-carrying handles: readers on input handles, mutators on output handles" % cnt, nontrivial=True)
    ctx.floor("IOROLE", 80, n, "(API calls on handles with a known in/out role in hrepack)")
    return n


IOROLE_EXCEPT = {}


class _Traverse(PathAnalysis):
    def __init__(self, prog):
        super().__init__(prog)
        self.bad = set()
        self.seen_calls = set()

    def init_user(self, func):
        return (frozenset(), None)  # (traversals seen ok, has_GRelems truth)

    def on_call_outcome(self, func, call, outcome, env, user):
        if call[1] in TRAVERSAL + ("list_gr",):
            self.seen_calls.add(call[1])
            if outcome == "ok":
                return (user[0] | {call[1]}, user[1])
        return user

    def on_assume(self, func, bid, cond, pol, env, user):
        c = strip(cond)
        if kind(c) == "var" and c[1] == "has_GRelems":
            return (user[0], pol)
        return user

    def on_exit(self, func, bid, retval, env, user):
        if classify_ret(retval, self.fails) == "fail":
            return
        for t in TRAVERSAL:
            if t not in user[0]:
                self.bad.add(t)


def rule_traverse(ctx):
    prog = ctx.prog
    n = 0
    f = prog.func("list_main")
    if f is None:
        ctx.unrecognised("TRAVERSE", "TRAVERSE:list_main", "-", "list_main not found")
    else:
        a = _Traverse(prog)
        a.fails = {-1}
        a.run(f)
        for t in TRAVERSAL + ("list_gr",):
            n += 1
            key = "TRAVERSE:list_main:%s" % t
            if t not in a.seen_calls:
                ctx.violated("TRAVERSE", key, f.where(), "list_main never calls %s (or never tests its result): that kind of object is not carried over" % t)
            elif t in a.bad:
                ctx.violated("TRAVERSE", key, f.where(), "list_main can return SUCCEED on a path on which %s() was not called or was not seen to succeed" % t)
            else:
                ctx.holds("TRAVERSE", key, f.where(), "called and seen to succeed on every non-failing path" + (" (when the file has GR elements)" if t == "list_gr" else ""), nontrivial=True)
    # member switch of the Vgroup traversal
    sw = None
    host = None
    for g in prog.funcs:
        if "mfhdf/hrepack/hrepack_list.c" not in g.rel:
            continue
        found = []

        def vis(nn, st):
            if nn[0] == "switch" and kind(strip(nn[1])) == "var" and strip(nn[1])[1] == "tag":
                found.append(nn)
            return True
        ast_walk(g.raw.get("ast"), vis)
        for s in found:
            labels = set()
            for ls, _st, _ft in switch_arms(s):
                labels |= {l for l in ls if l != "default"}
            if 1965 in labels and (sw is None or len(labels) > len(sw[1])):
                sw = (s, labels)
                host = g
    if sw is None:
        ctx.unrecognised("TRAVERSE", "TRAVERSE:member-switch", "-", "switch over member tags (with a DFTAG_VG arm) not found in hrepack_list.c")
    else:
        from .codec import ast_calls
        arms = switch_arms(sw[0])
        for kindname, tags in MEMBER_ARMS.items():
            n += 1
            key = "TRAVERSE:members:%s" % kindname
            missing = sorted(tags - sw[1])
            copies = False
            for ls, stmts, _ft in arms:
                if ls & tags:
                    for s in stmts:
                        if any((c[1] or "").startswith("copy_") or (c[1] or "").startswith("vgroup_insert") or (c[1] or "") in ("Vattach",) for c in ast_calls(s)):
                            copies = True
            if missing:
                ctx.violated("TRAVERSE", key, host.where(), "the member switch of the Vgroup traversal has no arm for tag(s) %s: %s objects inside Vgroups are dropped" % (missing, kindname))
            elif not copies:
                ctx.violated("TRAVERSE", key, host.where(), "the %s arm of the member switch no longer calls a copy routine" % kindname)
            else:
                ctx.holds("TRAVERSE", key, host.where(), "arm(s) for %s present and copying" % kindname, nontrivial=True)
    ctx.floor("TRAVERSE", 10, n, "(traversal routines and member kinds)")
    return n


def rule_copy_results(ctx):
    """COPYERR: results of copy_* / list_* / vgroup_insert calls inside the hrepack traversal are consumed"""
    prog = ctx.prog
    n = 0
    for f in prog.funcs:
        if "mfhdf/hrepack/" not in f.rel or f.rel.endswith(SKIP_FILES):
            continue
        dropped = []
        cnt = 0
        for _b, _i, st, c in f.calls():
            nm = c[1] or ""
            if not (nm.startswith("copy_") or nm.startswith("list_") or nm == "vgroup_insert"):
                continue
            g = prog.func(nm)
            if g is None or g.ret == "void" or "mfhdf/hrepack/" not in g.rel:
                continue
            if nm.startswith("list_table") or nm.startswith("list_tbl"):
                continue
            cnt += 1
            top = strip(st["e"])
            if top is c or (kind(top) == "cast" and strip(top[2]) is c):
                dropped.append((c[5], nm))
        if not cnt:
            continue
        n += cnt
        key = "COPYERR:%s" % f.name
        if dropped:
            ctx.violated("COPYERR", key, f.where(dropped[0][0]), "the result of %s() is dropped: a failed copy ends in a successful repack" % dropped[0][1])
        else:
            ctx.holds("COPYERR", key, f.where(), "%d copy/traversal call(s), every result consumed" % cnt, nontrivial=True)
    ctx.floor("COPYERR", 15, n, "(copy_* / list_* calls in hrepack)")
    return n


CLOSERS_OUT = {"SDend", "Hclose", "GRend", "SDendaccess", "GRendaccess", "VSdetach", "Vdetach", "Vend", "ANend", "ANendaccess"}


class _OutFail(PathAnalysis):
    """user = line of the first failing mutator/closer on an output-role handle"""

    def __init__(self, prog, roles):
        super().__init__(prog)
        self.roles = roles
        self.bad = {}
        self.sites = set()

    def init_user(self, func):
        return None

    def _is_out(self, call):
        if not call[1] or not call[3]:
            return False
        if call[1] not in WRITERS and call[1] not in CLOSERS_OUT:
            return False
        a = strip(call[3][0])
        return kind(a) == "var" and self.roles.get(a[1]) == "out"

    def on_stmt(self, func, bid, idx, stmt, env, user):
        for c in calls_in(stmt["e"]):
            if self._is_out(c):
                self.sites.add((c[5], c[6]))
        return user

    def on_call_outcome(self, func, call, outcome, env, user):
        if user is None and outcome == "fail" and self._is_out(call):
            return (call[1], call[5])
        return user

    def on_exit(self, func, bid, retval, env, user):
        if user is not None and classify_ret(retval, self.fails) == "ok":
            self.bad[user] = True


def rule_out_failures(ctx):
    """OUTFAIL: when a mutating or closing API call on an *output* handle is seen to fail, the hrepack function does not
    return its success value on that path (printing a message is not reporting)."""
    prog = ctx.prog
    n = 0
    for f in prog.funcs:
        if "mfhdf/hrepack/" not in f.rel or f.rel.endswith(SKIP_FILES) or f.ret == "void":
            continue
        roles = _roles_of(f)
        if "out" not in roles.values():
            continue
        a = _OutFail(prog, roles)
        fv = fail_values(f, prog)
        a.fails = fv if fv else {-1}
        # hrepack functions return FAIL (-1) or a negative status on failure, SUCCEED / >= 0 otherwise
        try:
            a.run(f)
        except Exception as e:
            ctx.excepted("OUTFAIL", "OUTFAIL:%s" % f.name, f.where(), "not decided: %s" % e)
            continue
        if not a.sites:
            continue
        n += len(a.sites)
        key = "OUTFAIL:%s" % f.name
        exc = OUTFAIL_EXCEPT.get(f.name)
        if a.bad and exc:
            ctx.excepted("OUTFAIL", key, f.where(), exc)
        elif a.bad:
            (nm, line) = sorted(a.bad)[0]
            ctx.violated("OUTFAIL", key, f.where(line), "%s() on an output handle is seen to fail (line %d), yet %s returns its success value on that path: hrepack reports success with an incomplete output" % (nm, line, f.name))
        else:
            ctx.holds("OUTFAIL", key, f.where(), "%d mutating/closing call(s) on output handles: no failing one is followed by a success return" % len(a.sites), nontrivial=True)
    ctx.floor("OUTFAIL", 40, n, "(mutating / closing API calls on output handles in hrepack)")
    return n


def _load_outfail_unconfirmed():
    import os
    up = os.path.join(os.path.dirname(os.path.dirname(os.path.abspath(__file__))), "rules", "outfail_unconfirmed.txt")
    out = {}
    for line in open(up):
        line = line.rstrip("\n")
        if not line or line.startswith("#"):
            continue
        k, _, why = line.partition("\t")
        out[k.strip().split(":", 1)[1]] = "unconfirmed candidate (rules/outfail_unconfirmed.txt): " + why.strip()
    return out


OUTFAIL_EXCEPT = _load_outfail_unconfirmed()


ATTR_GUARD_ALLOWED = {"options", "nlones", "visited"}  # confirmed on the pinned tree: inspection mode, 'there are lone Vgroups', 'not yet copied'


def rule_attr_copy_unconditional(ctx):
    """ATTRCOND (C18): the attributes of an object are copied whenever the object is copied.  The calls that copy attributes
    (copy_sds_attrs for data sets, dimensions and the file; copy_gr_attrs; copy_vgroup_attrs; copy_vdata_attribute) are guarded
    only by conditions about the run (inspection mode), about whether the object has been copied already, and by their own
    `count != 0` test — never by a property of the object's *data* (a scale type, a record count, a size): an object without
    that data still has its attributes."""
    from .codec import ast_walk
    prog = ctx.prog
    n = 0
    for f in prog.funcs:
        if "mfhdf/hrepack/" not in f.rel or f.rel.endswith(SKIP_FILES):
            continue
        sites = []

        def vis(nn, st):
            exprs = [nn[1]] if nn[0] in ("s", "if", "while") else []
            for e in exprs:
                for c in calls_in(e, True):
                    if c[1] and c[1].startswith("copy_") and "attr" in c[1]:
                        sites.append((c, [a[1] for a in st if a[0] == "if"]))
            return True
        ast_walk(f.raw.get("ast"), vis)
        for k, (c, conds) in enumerate(sites):
            n += 1
            key = "ATTRCOND:%s:%s#%d" % (f.name, c[1], k + 1)
            names = {y[1] for cd in conds for y in walk(cd, True) if y[0] == "var"}
            extra = sorted(names - ATTR_GUARD_ALLOWED)
            if extra:
                ctx.violated("ATTRCOND", key, f.where(c[5]), "%s() is called only when a condition on `%s` holds (%s): objects for which it does not hold lose their attributes in the copy" % (
                    c[1], "`, `".join(extra), "; ".join(render(cd)[:40] for cd in conds)))
            else:
                ctx.holds("ATTRCOND", key, f.where(c[5]), "guarded only by %s" % (", ".join(render(cd)[:30] for cd in conds) or "its own result test"), nontrivial=True)
    ctx.floor("ATTRCOND", 8, n, "(attribute-copy calls in hrepack)")
    return n


def rule_copy_interlace_pair(ctx):
    """RWIL (C18): a routine that copies records with VSread followed by VSwrite passes the same interlace to both: the buffer
    VSread fills is laid out as the interlace argument says, and VSwrite interprets it by *its* interlace argument.  Different
    arguments scramble the field values of every NO_INTERLACE Vdata."""
    prog = ctx.prog
    n = 0
    for f in prog.funcs:
        if "mfhdf/hrepack/" not in f.rel or f.rel.endswith(SKIP_FILES):
            continue
        rd = [c for _b, _i, _s, c in f.calls() if c[1] == "VSread" and len(c[3]) >= 4]
        wr = [c for _b, _i, _s, c in f.calls() if c[1] == "VSwrite" and len(c[3]) >= 4]
        if not rd or not wr:
            continue
        n += 1
        key = "RWIL:%s" % f.name
        ri = {render(strip(c[3][3])) for c in rd}
        wi = {render(strip(c[3][3])) for c in wr}
        if ri == wi and len(ri) == 1:
            ctx.holds("RWIL", key, f.where(rd[0][5]), "VSread and VSwrite both use `%s`" % next(iter(ri)), nontrivial=True)
        else:
            ctx.violated("RWIL", key, f.where(rd[0][5]), "records are read with interlace %s and written with interlace %s: for a NO_INTERLACE Vdata the buffer is interpreted with the wrong layout" % (
                "/".join(sorted(ri)), "/".join(sorted(wi))))
    ctx.floor("RWIL", 1, n, "(hrepack routines that read and write Vdata records)")
    return n


CREATE_TYPE_ARG = {"SDcreate": 2, "GRcreate": 3, "SDsetdimscale": 2, "SDsetattr": 2, "GRsetattr": 2, "VSfdefine": 2}
INFO_CALLS = {"SDgetinfo", "GRgetiminfo", "SDdiminfo", "SDattrinfo", "GRattrinfo", "VFfieldtype", "Vattrinfo", "VSattrinfo"}


def rule_created_with_read_type(ctx):
    """CREATETYPE (C18): an object keeps its number type through repacking — including the flag bits (little-endian, native) that are
    part of the type.  Every call that creates the copy (SDcreate, GRcreate, SDsetdimscale, the attribute setters) must be handed
    the type exactly as the info call of the input object delivered it: the variable whose address went to SDgetinfo /
    GRgetiminfo / SDdiminfo / ..attrinfo in the same routine, or a parameter that carries it.  A local derived from it
    (`dtype & DFNT_MASK`, computed to look up the element size) silently turns a little-endian object into a big-endian one."""
    prog = ctx.prog
    n = 0
    occ = {}
    for f in prog.funcs:
        if not f.rel.startswith("mfhdf/hrepack/") or f.rel.endswith("hrepacktst.c"):
            continue
        params = {q[0] for q in f.params}
        outs = set()
        derived = {}
        for _b, _i, _s, x in f.nodes(True):
            if x[0] == "call" and x[1] in INFO_CALLS:
                for a in x[3]:
                    a = strip(a)
                    if kind(a) == "addr" and kind(strip(a[1])) == "var":
                        outs.add(strip(a[1])[1])
            elif x[0] == "asg" and x[1] == "=" and kind(strip(x[2])) == "var":
                r = strip(x[3])
                if kind(r) == "call" and r[1] in INFO_CALLS:
                    outs.add(strip(x[2])[1])
                else:
                    derived.setdefault(strip(x[2])[1], []).append(x[3])
        for _b, _i, s, c in f.calls():
            if c[1] not in CREATE_TYPE_ARG or len(c[3]) <= CREATE_TYPE_ARG[c[1]]:
                continue
            a = strip(c[3][CREATE_TYPE_ARG[c[1]]])
            n += 1
            key = "CREATETYPE:%s:%s" % (f.name, c[1])
            occ[key] = occ.get(key, 0) + 1
            if occ[key] > 1:
                key += "#%d" % occ[key]
            line = s.get("l", f.line)
            if kind(a) == "int":
                ctx.excepted("CREATETYPE", key, f.where(line), "a constant type: an object hrepack itself defines, not a copy")
            elif kind(a) == "var" and (a[1] in outs or (a[1] in params and a[1] not in derived)):
                ctx.holds("CREATETYPE", key, f.where(line), "`%s` is the type as the info call delivered it" % a[1], nontrivial=True)
            elif kind(a) == "mem":
                ctx.holds("CREATETYPE", key, f.where(line), "`%s` is a stored copy of the type" % render(a), nontrivial=False)
            else:
                why = ("`%s` is computed in this routine (`%s`)" % (a[1], render(derived[a[1]][0])[:50])) if kind(a) == "var" and a[1] in derived else "`%s` is not the variable an info call filled" % render(a)[:40]
                ctx.violated("CREATETYPE", key, f.where(line), "%s() is given a number type that is not the one read from the input object: %s — flag bits of the type (little-endian, native) are lost in the copy" % (c[1], why))
    ctx.floor("CREATETYPE", 6, n, "(creating calls that take a number type)")
    return n


PAIR_FUNCS = {"copy_vgroup_attrs": (0, 1), "copy_vg_an": (2, 3), "copy_vs_an": (2, 3), "copy_vdata_attribute": (0, 1),
              "copy_sds_attrs": (0, 1), "copy_gr_attrs": (0, 1)}


def rule_copy_pairs_agree(ctx):
    """COPYPAIR (C18): the attributes and annotations of an object are copied by several helper calls, each given the input object and
    the output object it belongs to.  Inside one routine all helpers that are given the same input object must be given the same
    output object: a helper handed the *parent's* output id attaches the child's attributes to the parent."""
    prog = ctx.prog
    n = 0
    for f in prog.funcs:
        if not f.rel.startswith("mfhdf/hrepack/"):
            continue
        pairs = {}
        for _b, _i, s, c in f.calls():
            if c[1] in PAIR_FUNCS and len(c[3]) > max(PAIR_FUNCS[c[1]]):
                a, b = (strip(c[3][k]) for k in PAIR_FUNCS[c[1]])
                if kind(a) == "var" and kind(b) == "var":
                    pairs.setdefault(a[1], []).append((b[1], c[1], s.get("l", f.line)))
        for inv, outs in sorted(pairs.items()):
            if len(outs) < 2:
                continue
            n += 1
            key = "COPYPAIR:%s:%s" % (f.name, inv)
            names = {}
            for o, cn, line in outs:
                names.setdefault(o, []).append((cn, line))
            if len(names) == 1:
                ctx.holds("COPYPAIR", key, f.where(outs[0][2]), "all %d helper calls for `%s` write to `%s`" % (len(outs), inv, outs[0][0]), nontrivial=True)
            else:
                minority = min(names.items(), key=lambda kv: len(kv[1]))
                ctx.violated("COPYPAIR", key, f.where(minority[1][0][1]), "%s() copies from `%s` into `%s` while the other helper calls for `%s` write to `%s`: that part of the object ends up on a different output object" %
                             (minority[1][0][0], inv, minority[0], inv, ", ".join(sorted(set(names) - {minority[0]}))))
    ctx.floor("COPYPAIR", 3, n, "(input objects handed to more than one copy helper)")
    return n


# writer call -> (info call, indices of the info call's out-parameters that may decide whether the writer runs)
PRESENCE = {
    "GRwritelut": ("GRgetlutinfo", (1, 2, 3, 4)),
    "SDsetdimscale": ("SDdiminfo", (3,)),
}


def rule_presence_decided_by_info(ctx):
    """PRESENCE (C18): whether an optional part of an object exists — a palette, a dimension scale — is what the library's info call says
    about it (GRgetlutinfo's component count / entries, SDdiminfo's scale type), for every kind of object.  The conditions
    hrepack puts around the call that writes that part to the output may therefore read only those out-parameters (and the
    status of the read call just before).  A condition that also looks at the *object* (its component count, the size of the
    dimension) drops the part for some objects that have one: palettes of multi-component images, scales of unlimited
    dimensions."""
    from .codec import ast_walk
    prog = ctx.prog
    n = 0
    for f in prog.funcs:
        if not f.rel.startswith("mfhdf/hrepack/") or f.rel.endswith("hrepacktst.c") or not f.raw.get("ast"):
            continue
        calls = list(f.calls())
        for writer, (info, idxs) in PRESENCE.items():
            if not any(c[1] == writer for _b, _i, _s, c in calls):
                continue
            allowed = set()
            for _b, _i, _s, c in calls:
                if c[1] == info:
                    for k in idxs:
                        if k < len(c[3]):
                            a = strip(c[3][k])
                            if kind(a) == "addr" and kind(strip(a[1])) == "var":
                                allowed.add(strip(a[1])[1])
            if not allowed:
                continue
            # locals derived only from allowed ones (has_pal = f(r_ncomp, ..)) and statuses of read calls
            derived = {}
            for _b, _i, _s, x in f.nodes(True):
                if x[0] == "asg" and x[1] == "=" and kind(strip(x[2])) == "var":
                    vs = {y[1] for y in walk(x[3], True) if y[0] == "var"}
                    cs = [y[1] for y in walk(x[3], True) if y[0] == "call"]
                    derived.setdefault(strip(x[2])[1], []).append((vs, cs, x))
            sites = []

            def vis(nd, st):
                exprs = [nd[1]] if nd[0] in ("s", "if") and nd[1] is not None else []
                for e in exprs:
                    if any(c[1] == writer for c in calls_in(e, True)):
                        sites.append((nd, list(st)))
                return True

            from .facts import calls_in
            ast_walk(f.raw["ast"], vis)
            for nd, st in sites[:1]:
                n += 1
                key = "PRESENCE:%s:%s" % (f.name, writer)
                line = nd[-3] if isinstance(nd[-3], int) else f.line
                bad = None
                for s_ in st:
                    if s_[0] != "if":
                        continue
                    cvars = {y[1] for y in walk(s_[1], True) if y[0] == "var"}
                    if not (cvars & (allowed | set(derived))):
                        continue  # an unrelated condition (loop over dimensions, option tests) is not a presence decision
                    for v in cvars:
                        if v in allowed:
                            continue
                        defs = derived.get(v, [])
                        ok = bool(defs) and all((vs <= allowed and not cs) or (cs and not (vs - allowed - {a_ for a_ in vs})) for vs, cs, _x in defs)
                        # a status variable: assigned from a call (the read of the part)
                        if defs and all(cs for _vs, cs, _x in defs):
                            ok = True
                        if defs and all(vs <= allowed for vs, _cs, _x in defs):
                            ok = True
                        if not ok:
                            bad = (v, render(s_[1])[:70])
                        else:
                            # a derived flag: its defining expression must not read anything else either
                            for vs, cs, x in defs:
                                extra = vs - allowed
                                if extra and not cs:
                                    bad = (sorted(extra)[0], render(x[3])[:70])
                if bad:
                    ctx.violated("PRESENCE", key, f.where(line), "whether %s() runs also depends on `%s` (`%s`), which is not what %s() reports about the part: objects that have the part lose it when that condition fails" % (writer, bad[0], bad[1], info))
                else:
                    ctx.holds("PRESENCE", key, f.where(line), "%s() runs exactly when %s() reported the part (%s)" % (writer, info, ", ".join(sorted(allowed))), nontrivial=True)
    ctx.floor("PRESENCE", 2, n, "(optional parts copied under a presence test)")
    return n


def rule_chunked_both_forms(ctx):
    """CHUNKFORMS (C18): hrepack describes an object's chunking with `chunk_flags`, and "chunked" has two spellings: HDF_CHUNK and
    HDF_CHUNK | HDF_COMP (chunked and compressed - what an object that is compressed in the input arrives as).  Wherever
    options_get_info decides "this object is chunked, so the requested compression goes into the chunk definition" it accepts
    both: a test of `*chunk_flags == HDF_CHUNK` stands in a disjunction with `*chunk_flags == (HDF_CHUNK | HDF_COMP)`.  A
    test of one spelling only leaves an already compressed object with its old method while every other object gets the new
    one."""
    from .codec import ast_walk
    from .facts import kind, strip, walk, render, int_val, is_int
    prog = ctx.prog
    n = 0
    for f in prog.funcs:
        ast = f.raw.get("ast")
        if not ast or not f.rel.endswith("mfhdf/hrepack/hrepack_utils.c"):
            continue
        params = {(p[0] if isinstance(p, (list, tuple)) else p.get("name")) for p in f.params}
        if "chunk_flags" not in params:
            continue
        k = 0

        def flag_tests(c):
            out = set()
            for x in walk(c, True):
                if x[0] == "bin" and x[1] == "==":
                    for a_, b_ in ((strip(x[2]), strip(x[3])), (strip(x[3]), strip(x[2]))):
                        if kind(a_) == "deref" and kind(strip(a_[1])) == "var" and strip(a_[1])[1] == "chunk_flags" and is_int(b_):
                            out.add(int_val(b_))
            return out

        found = []

        def vis(nd, st):
            if nd[0] == "s" and nd[1] is not None:
                for x in walk(nd[1], True):
                    if x[0] == "asg" and x[1] == "=" and kind(strip(x[2])) == "deref" and kind(strip(strip(x[2])[1])) == "var" and strip(strip(x[2])[1])[1] == "chunk_flags" and is_int(x[3]) and int_val(x[3]) == 3:
                        encl = [a for a in st if a[0] == "if" and a[1] is not None]
                        if encl:
                            found.append(encl[-1])
            return True

        ast_walk(ast, vis)
        for nd in found:
            k += 1
            n += 1
            key = "CHUNKFORMS:%s#%d" % (f.name, k)
            line = nd[-3] if isinstance(nd[-3], int) else f.line
            vals = flag_tests(nd[1])
            global_case = any(x[0] == "mem" and x[2] == "chunk_g" for x in walk(nd[1], True))
            # HDF_CHUNK = 1, HDF_COMP = 2
            bit_test = any(x[0] == "bin" and x[1] == "&" and kind(strip(x[2])) == "deref" and kind(strip(strip(x[2])[1])) == "var" and strip(strip(x[2])[1])[1] == "chunk_flags" and is_int(x[3]) and int_val(x[3]) & 1 for x in walk(nd[1], True))
            if bit_test:
                ctx.holds("CHUNKFORMS", key, f.where(line), "the decision tests the HDF_CHUNK bit, which both spellings of \"chunked\" carry", nontrivial=True)
            elif global_case:
                ctx.holds("CHUNKFORMS", key, f.where(line), "the global chunking applies to this object: its chunk definition is built from the options", nontrivial=False)
            elif 1 in vals and 3 in vals:
                ctx.holds("CHUNKFORMS", key, f.where(line), "the decision accepts both spellings of \"chunked\"", nontrivial=True)
            elif 1 in vals:
                ctx.violated("CHUNKFORMS", key, f.where(line), "the merge of chunking and compression is decided on `*chunk_flags == HDF_CHUNK` alone: an object that arrives chunked-and-compressed is passed over and keeps its old compression method")
            else:
                ctx.violated("CHUNKFORMS", key, f.where(line), "the merge of chunking and compression is decided without looking at `*chunk_flags`: an object that is chunked in the input (and stays so) never gets the requested compression")
    ctx.floor("CHUNKFORMS", 3, n, "(decisions in options_get_info that merge compression into an existing chunking)")
    return n


def rule_image_annotations_both_tags(ctx):
    """ANBOTH (C18): an image can be annotated under either of its two tags - DFTAG_RIG (the group) or DFTAG_RI (the data) - and
    hrepack reaches an image sometimes with one, sometimes with the other.  The routine that copies an image therefore copies
    the annotations of *both* tags by name: it calls copy_an once with DFTAG_RIG and once with DFTAG_RI, not once with the tag
    it happened to be called with."""
    from .facts import int_name
    prog = ctx.prog
    n = 0
    for f in prog.funcs:
        if not f.rel.endswith("mfhdf/hrepack/hrepack_gr.c"):
            continue
        tags = set()
        line = f.line
        calls = 0
        for _b, _i, s, c in f.calls():
            if c[1] == "copy_an" and len(c[3]) > 3:
                calls += 1
                line = s.get("l", f.line)
                if int_name(c[3][3]):
                    tags.add(int_name(c[3][3]))
        if not calls:
            continue
        n += 1
        key = "ANBOTH:%s" % f.name
        if {"DFTAG_RIG", "DFTAG_RI"} <= tags:
            ctx.holds("ANBOTH", key, f.where(line), "annotations are copied for DFTAG_RIG and for DFTAG_RI", nontrivial=True)
        else:
            ctx.violated("ANBOTH", key, f.where(line), "the image's annotations are copied for %s only: those attached under the image's other tag are lost in the output" % (", ".join(sorted(tags)) or "the tag the routine was called with"))
    ctx.floor("ANBOTH", 1, n, "(image copies that copy annotations)")
    return n
