"""C06: number-type conversion — F7d table obligations and F8 byte-move kernel verifier."""
import re

from . import facts
from .facts import kind, strip, walk, path, render, int_val, is_int, unseen, AnalysisBroken
from .codec import ast_walk

BASE = {3: "UCHAR8", 4: "CHAR8", 5: "FLOAT32", 6: "FLOAT64", 20: "INT8", 21: "UINT8", 22: "INT16", 23: "UINT16",
        24: "INT32", 25: "UINT32"}
SPEC_SIZE = {3: 1, 4: 1, 5: 4, 6: 8, 20: 1, 21: 1, 22: 2, 23: 2, 24: 4, 25: 4}  # bytes, from the HDF4 format spec
NATIVE, CUSTOM, LITEND = 0x1000, 0x2000, 0x4000
FLAVOURS = {0: "standard (big-endian in file)", NATIVE: "native", LITEND: "little-endian in file"}


def switch_arms(sw):
    """[(set(case values or 'default'), [statement nodes], falls_through)] of a switch AST node"""
    body = sw[2]
    if body[0] != "block":
        return []
    arms = []
    cur = None
    for ch in body[1]:
        node = ch
        labels = []
        while node[0] in ("case", "default"):
            if node[0] == "case":
                labels.append(node[1].get("case"))
                node = node[2]
            else:
                labels.append("default")
                node = node[1]
        if labels:
            if cur is not None and not cur[3]:
                # previous arm falls through into this one
                cur[2] = True
            cur = [set(labels), [node], False, False]
            arms.append(cur)
        elif cur is not None:
            cur[1].append(node)
        if cur is not None and _terminates(node):
            cur[3] = True
    return [(a[0], a[1], a[2]) for a in arms]


def _terminates(node):
    if node[0] in ("break", "goto", "continue"):
        return True
    if node[0] == "s" and kind(node[1]) == "ret":
        return True
    if node[0] == "do":  # HRETURN_ERROR etc: do { ...; return } while (0)
        r = [False]

        def f(n, st):
            if n[0] == "s" and kind(n[1]) == "ret":
                r[0] = True
            if n[0] == "goto":
                r[0] = True
            return True

        ast_walk(node, f)
        return r[0]
    if node[0] == "block":
        return any(_terminates(c) for c in node[1])
    return False


def _find_switch(func):
    out = []

    def f(n, st):
        if n[0] == "switch":
            out.append(n)
        return True

    ast_walk(func.raw["ast"], f)
    return out


def _bigendian(prog, tu_suffix="dfconv.c"):
    if getattr(prog, "force_big", None) is not None:
        return prog.force_big
    for tu, d in prog.facts.items():
        if tu.endswith(tu_suffix):
            return "H4_WORDS_BIGENDIAN" in d["defs"]
    raise AnalysisBroken("dfconv.c not among the analysed units")


def table_obligations(ctx, prog, cfgname):
    setnt = prog.func("DFKsetNT")
    ntsize = prog.func("DFKNTsize")
    if setnt is None or ntsize is None:
        ctx.unrecognised("F7d", "F7d:anchors", "-", "DFKsetNT / DFKNTsize not found")
        return
    big = _bigendian(prog)
    # --- DFKNTsize: value -> size
    sws = _find_switch(ntsize)
    if len(sws) != 1:
        ctx.unrecognised("F7d", "F7d:DFKNTsize", ntsize.where(), "expected exactly one switch")
        return
    cond = strip(sws[0][1])
    mask = None
    if kind(cond) == "bin" and cond[1] == "&" and is_int(cond[3]):
        mask = int_val(cond[3])
    elif kind(cond) == "var":
        mask = -1
    if mask is None:
        ctx.unrecognised("F7d", "F7d:DFKNTsize", ntsize.where(), "switch discriminant is not `number_type & CONST`")
        return
    size_of = {}
    for labels, stmts, ft in switch_arms(sws[0]):
        ret = None
        for s in stmts:
            if s[0] == "s" and kind(s[1]) == "ret" and s[1][1] is not None and is_int(s[1][1]):
                ret = int_val(s[1][1])
        for l in labels:
            if l != "default" and ret is not None:
                size_of[l] = ret

    def ntsize_of(v):
        return size_of.get(v & mask & 0xffffffff if mask != -1 else v)

    # --- DFKsetNT: value -> (in, out)
    sws = _find_switch(setnt)
    if len(sws) != 1 or kind(strip(sws[0][1])) != "var":
        ctx.unrecognised("F7d", "F7d:DFKsetNT", setnt.where(), "expected one switch over the number type")
        return
    sel = {}
    for labels, stmts, ft in switch_arms(sws[0]):
        fin = fout = None
        for s in stmts:
            if s[0] == "s" and kind(s[1]) == "asg" and s[1][1] == "=":
                t = strip(s[1][2])
                r = strip(s[1][3])
                if kind(r) == "addr":
                    r = strip(r[1])
                if kind(t) == "var" and kind(r) == "fn":
                    if t[1] == "DFKnumin":
                        fin = r[1]
                    elif t[1] == "DFKnumout":
                        fout = r[1]
        for l in labels:
            if l != "default":
                sel[l] = (fin, fout, ft)
    # --- obligations
    for fl, flname in FLAVOURS.items():
        for b, bname in sorted(BASE.items()):
            v = fl | b
            key = "F7d:%s:%s%s" % (cfgname, {0: "", NATIVE: "N", LITEND: "L"}[fl], bname)
            where = setnt.where()
            sz = ntsize_of(v)
            if sz is None:
                ctx.violated("F7d", key, ntsize.where(), "DFKNTsize has no size for number type %d (%s %s)" % (v, flname, bname))
                continue
            if fl != NATIVE and sz != SPEC_SIZE[b]:
                ctx.violated("F7d", key, ntsize.where(), "DFKNTsize(%d) = %d but the format stores %s in %d byte(s)" % (v, sz, bname, SPEC_SIZE[b]))
                continue
            if v not in sel:
                ctx.violated("F7d", key, where, "DFKsetNT has no arm for number type %d (%s %s)" % (v, flname, bname))
                continue
            fin, fout, ft = sel[v]
            file_big = {0: True, LITEND: False, NATIVE: big}[fl]
            swap = (file_big != big) and sz > 1
            want = "DFK%sb%db" % ("s" if swap else "n", sz)
            if ft:
                ctx.violated("F7d", key, where, "the arm for %d falls through into the next arm" % v)
            elif fin != want or fout != want:
                ctx.violated("F7d", key, where,
                             "for %s %s on a %s-endian host DFKsetNT selects in=%s out=%s; the %d-byte %s routine %s is required in both "
                             "directions" % (flname, bname, "big" if big else "little", fin, fout, sz, "swapping" if swap else "copying", want))
            else:
                ctx.holds("F7d", key, where, "in = out = %s (%d bytes, %s)" % (want, sz, "byte swap" if swap else "no swap"))
    # unsupported codes must not be accepted
    for v, (fin, fout, ft) in sorted(sel.items()):
        if isinstance(v, int) and (v & 0xfff) not in BASE and v != CUSTOM:
            ctx.violated("F7d", "F7d:%s:extra:%d" % (cfgname, v), setnt.where(), "DFKsetNT accepts number type %d which has no defined size" % v)
    return sel


def convert_routing(ctx, prog):
    f = prog.func("DFKconvert")
    if f is None:
        ctx.unrecognised("F7d", "F7d:DFKconvert", "-", "not found")
        return
    pn = [p[0] for p in f.params]
    found = {}

    def visit(n, st):
        if n[0] == "if":
            c = strip(n[1])
            if kind(c) == "bin" and c[1] == "==" and path(c[2]) == pn[4] and is_int(c[3]) and int_name_of(c[3]) == "DFACC_READ":
                for branch, nm in ((n[2], "then"), (n[3], "else")):
                    calls = []

                    def g(m, st2):
                        if m[0] == "s":
                            for x in walk(m[1], True):
                                if x[0] == "call" and x[1] is None:
                                    ce = strip(x[2])
                                    while kind(ce) == "deref":
                                        ce = strip(ce[1])
                                    if kind(ce) == "var":
                                        calls.append((ce[1], [path(a) for a in x[3]]))
                        return True

                    if branch is not None:
                        ast_walk(branch, g)
                    found[nm] = calls
        return True

    ast_walk(f.raw["ast"], visit)
    want_args = [pn[0], pn[1], pn[3], pn[5], pn[6]]
    key = "F7d:DFKconvert"
    ok = (found.get("then") == [("DFKnumin", want_args)] and found.get("else") == [("DFKnumout", want_args)])
    if ok:
        ctx.holds("F7d", key, f.where(), "DFACC_READ -> DFKnumin, otherwise DFKnumout; source, dest, count and both strides passed through unchanged")
    elif "then" not in found:
        ctx.unrecognised("F7d", key, f.where(), "no `acc_mode == DFACC_READ` branch found")
    else:
        ctx.violated("F7d", key, f.where(), "DFKconvert does not route read->DFKnumin / write->DFKnumout with (source, dest, num_elm, "
                     "source_stride, dest_stride) unchanged: then=%s else=%s" % (found.get("then"), found.get("else")))


def int_name_of(e):
    e = strip(e)
    return e[2] if kind(e) == "int" and len(e) > 2 else None


# ---------------------------------------------------------------------------------------
# F8 kernels

KERNELS = {"DFKsb2b": (2, True), "DFKsb4b": (4, True), "DFKsb8b": (8, True),
           "DFKnb1b": (1, False), "DFKnb2b": (2, False), "DFKnb4b": (4, False), "DFKnb8b": (8, False)}


class KErr(Exception):
    pass


def _cell(e):
    """X[c] / *X  -> (X, c)"""
    e = strip(e)
    if kind(e) == "idx" and kind(strip(e[1])) == "var" and is_int(e[2]):
        return strip(e[1])[1], int_val(e[2])
    if kind(e) == "deref" and kind(strip(e[1])) == "var":
        return strip(e[1])[1], 0
    return None


def _verify_loop(body, N, swap, ctxinfo, SRC, DST, BUF, strides):
    """symbolically execute one loop body; returns a description or raises KErr"""
    stmts = body[1] if body[0] == "block" else [body]
    bufv = {}
    dstv = {}
    adv = {}
    dest_written = False
    flat = []
    for s in stmts:
        if s[0] != "s":
            raise KErr("statement kind %s inside the loop" % s[0])
        e = strip(s[1])
        if kind(e) == "call" and e[1] == "memcpy" and len(e[3]) == 3 and is_int(e[3][2]):
            dn, sn = path(e[3][0]), path(e[3][1])
            if dn is None or sn is None:
                raise KErr("memcpy with computed operands: %s" % render(e))
            for j in range(int_val(e[3][2])):
                flat.append(("copy", (dn, j), (sn, j), e))
        elif kind(e) == "asg" and e[1] == "=":
            lc, rc = _cell(e[2]), _cell(e[3])
            if lc is None or rc is None:
                raise KErr("not a byte copy: %s" % render(e))
            flat.append(("copy", lc, rc, e))
        else:
            flat.append(("other", None, None, e))
    first_copy = min([i for i, x in enumerate(flat) if x[0] == "copy"] or [0])
    last_copy = max([i for i, x in enumerate(flat) if x[0] == "copy"] or [0])
    for i, x in enumerate(flat):
        if x[0] == "other" and first_copy < i < last_copy:
            raise KErr("pointer update between the byte copies of one element")
    for kindx, lc, rc, e in flat:
        if kindx == "copy":
            (ln, li), (rn, ri) = lc, rc
            if rn == SRC:
                if dest_written and ctxinfo["inplace"]:
                    raise KErr("in-place path reads source[%d] after a destination byte was written" % ri)
                val = ("src", ri)
            elif rn == BUF:
                if ri not in bufv:
                    raise KErr("buf[%d] read before written" % ri)
                val = bufv[ri]
            else:
                raise KErr("copy from %s" % rn)
            if ln == BUF:
                bufv[li] = val
            elif ln == DST:
                if li in dstv:
                    raise KErr("dest[%d] written twice" % li)
                dstv[li] = val
                dest_written = True
            else:
                raise KErr("store to %s" % ln)
        elif kind(e) == "asg" and e[1] == "+=":
            t = strip(e[2])
            if kind(t) != "var" or t[1] not in (SRC, DST):
                raise KErr("unexpected update %s" % render(e))
            r = strip(e[3])
            adv[t[1]] = r[1] if kind(r) in ("int", "var") else None
            if adv[t[1]] is None:
                raise KErr("pointer advance by %s" % render(r))
        else:
            raise KErr("unexpected statement %s" % render(e)[:60])
    if sorted(dstv) != list(range(N)):
        raise KErr("destination bytes written: %s, expected 0..%d exactly once" % (sorted(dstv), N - 1))
    for k in range(N):
        want = ("src", (N - 1 - k) if swap else k)
        if dstv[k] != want:
            raise KErr("dest[%d] <- source[%s], expected source[%d]" % (k, dstv[k][1], want[1]))
    if ctxinfo["fast"]:
        if adv.get(SRC) != N or adv.get(DST) != N:
            raise KErr("contiguous path advances source by %s and dest by %s, expected %d" % (adv.get(SRC), adv.get(DST), N))
    else:
        if adv.get(SRC) != strides[0] or adv.get(DST) != strides[1]:
            raise KErr("strided path advances source by %s and dest by %s, expected %s / %s" % (adv.get(SRC), adv.get(DST), strides[0], strides[1]))
    return "%d bytes %s, %s" % (N, "reversed" if swap else "copied", "advance %s/%s" % (adv.get(SRC), adv.get(DST)))


def verify_kernel(ctx, prog, name):
    N, swap = KERNELS[name]
    f = prog.func(name)
    if f is None:
        ctx.unrecognised("F8", "F8:%s" % name, "-", "kernel not found")
        return
    pn = [p[0] for p in f.params]
    if len(pn) != 5:
        ctx.unrecognised("F8", "F8:%s" % name, f.where(), "unexpected signature")
        return
    strides = (pn[3], pn[4])
    num = pn[2]
    # locals: source/dest aliases of params 0/1, buf, flags
    SRC = DST = BUF = None
    flags = {}  # var -> condition under which it is set to 1
    top = f.raw["ast"]
    leaves = []
    problems = []

    def flagcond(c):
        """classify a condition setting fast_processing / in_place"""
        c = strip(c)
        return render(c)

    for ch in top[1]:
        if ch[0] == "s" and kind(ch[1]) == "decl":
            for d in ch[1][1]:
                if d[2] is not None:
                    r = strip(d[2])
                    if kind(r) == "var" and r[1] == pn[0]:
                        SRC = d[0]
                    elif kind(r) == "var" and r[1] == pn[1]:
                        DST = d[0]
                    elif is_int(d[2], 0) and d[1] == "int":
                        flags[d[0]] = None
                if d[1].startswith("uint8[") and d[2] is None:
                    BUF = d[0]
    if SRC is None or DST is None:
        ctx.unrecognised("F8", "F8:%s" % name, f.where(), "source/dest byte pointers not found")
        return
    inplace_var = fast_var = None
    for ch in top[1]:
        if ch[0] == "if" and ch[3] is None:
            thenb = ch[2]
            st = thenb[1] if thenb[0] == "block" else [thenb]
            if len(st) == 1 and st[0][0] == "s" and kind(st[0][1]) == "asg" and is_int(st[0][1][3], 1) and kind(strip(st[0][1][2])) == "var":
                v = strip(st[0][1][2])[1]
                c = strip(ch[1])
                if v in flags:
                    if kind(c) == "bin" and c[1] == "==" and {path(c[2]), path(c[3])} == {SRC, DST}:
                        inplace_var = v
                    else:
                        fast_var = v
                        flags[v] = c
    if inplace_var is None:
        # the decision exists but is nested under another condition: then aliasing source and destination is recognised only
        # in that case, and the element-wise loops run over a buffer they are overwriting in all others
        nested = []

        def _vis(nd, stk):
            if nd[0] == "if" and stk and any(s_[0] == "if" for s_ in stk):
                c = strip(nd[1])
                if kind(c) == "bin" and c[1] == "==" and {path(c[2]), path(c[3])} == {SRC, DST}:
                    nested.append((nd, [s_ for s_ in stk if s_[0] == "if"][-1]))
            return True

        ast_walk(top, _vis)
        if nested:
            nd, outer = nested[0]
            ctx.violated("F8", "F8:%s" % name, f.where(nd[-3] if isinstance(nd[-3], int) else None),
                         "the in-place decision `%s` is taken only under `%s`: a strided conversion whose source is its destination runs the element-wise loop over the bytes it is overwriting" % (render(nd[1]), render(outer[1])[:60]))
            return
        ctx.unrecognised("F8", "F8:%s" % name, f.where(), "`if (source == dest) in_place = 1` not found")
        return
    # fast condition must imply both strides are 0 (or both equal the element size for copy kernels)
    if fast_var is not None:
        c = flags[fast_var]
        okfast = _fast_cond_ok(c, strides, N, swap)
        key = "F8:%s:fastcond" % name
        if okfast:
            ctx.holds("F8", key, f.where(), "contiguous path taken only when both strides are 0%s" % ("" if swap else " or both equal the element size"))
        else:
            ctx.violated("F8", key, f.where(), "contiguous path selected under `%s`, which does not imply contiguous source and destination" % render(c))

    def descend(node, cx):
        k = node[0]
        if k == "block":
            prev = []
            for c in node[1]:
                if c[0] == "for":
                    leaves.append((dict(cx), c, list(prev)))
                else:
                    descend(c, cx)
                prev = prev + [c] if c[0] == "s" else []
        elif k == "if":
            c = strip(node[1])
            pol = True
            while kind(c) == "un" and c[1] == "!":
                c = strip(c[2])
                pol = not pol
            if kind(c) == "var" and c[1] in (fast_var, inplace_var):
                which = "fast" if c[1] == fast_var else "inplace"
                c1 = dict(cx)
                c1[which] = pol
                descend(node[2], c1)
                c2 = dict(cx)
                c2[which] = not pol
                if node[3] is not None:
                    descend(node[3], c2)
                else:
                    pass
                # code after an if whose then-branch returns is the else context: handled by caller via 'returned'
            elif kind(c) == "bin" and path(c[2]) == num:
                pass  # num_elm == 0 check
            elif kind(c) == "bin":
                pass  # flag-setting ifs (already processed)
            else:
                problems.append("unrecognised branch `%s`" % render(node[1]))
        elif k == "for":
            leaves.append((dict(cx), node, []))
        elif k == "s":
            e = strip(node[1])
            if kind(e) == "call" and e[1] == "memcpy" and not is_int(e[3][2]):
                leaves.append((dict(cx), node, []))
        elif k in ("do",):
            pass

    # top-level: statements after `if (fast) {... return}` are the non-fast context
    cx = {"fast": None, "inplace": None}
    for ch in top[1]:
        if ch[0] == "if":
            c = strip(ch[1])
            if kind(c) == "var" and c[1] == fast_var:
                descend(ch, cx)
                cx = dict(cx, fast=False)
                continue
        descend(ch, cx)
    if fast_var is None:
        for l in leaves:
            l[0]["fast"] = False
    if problems:
        ctx.unrecognised("F8", "F8:%s" % name, f.where(), "; ".join(problems))
        return
    seen_ctx = set()
    expanded = []
    for cxi, node, prev in leaves:
        if cxi["inplace"] is None and cxi["fast"] is not None and N == 1:
            # a single byte has no ordering hazard: one loop serves the in-place and the out-of-place case
            expanded.append((dict(cxi, inplace=False), node, prev))
            expanded.append((dict(cxi, inplace=True), node, prev))
        else:
            expanded.append((cxi, node, prev))
    for cxi, node, prev in expanded:
        if cxi["inplace"] is None or cxi["fast"] is None:
            ctx.unrecognised("F8", "F8:%s" % name, f.where(node[-3] if node[0] == "for" else None), "loop outside the fast/in-place branch structure")
            continue
        tag = "%s,%s" % ("contiguous" if cxi["fast"] else "strided", "in-place" if cxi["inplace"] else "out-of-place")
        key = "F8:%s:%s" % (name, tag)
        seen_ctx.add((cxi["fast"], cxi["inplace"]))
        try:
            if node[0] == "for":
                start = _check_header(node, num)
                if start == 1:
                    # peeled first iteration: the statements just before the loop must be the loop's own copies
                    body = node[4][1] if node[4][0] == "block" else [node[4]]
                    bc = [render(x[1]) for x in body if x[0] == "s" and kind(strip(x[1])) == "asg" and strip(x[1])[1] == "="]
                    pc = [render(x[1]) for x in prev if x[0] == "s" and kind(strip(x[1])) == "asg" and strip(x[1])[1] == "="]
                    if not bc or pc[-len(bc):] != bc:
                        raise KErr("loop starts at 1 but the first element is not converted by identical statements before the loop")
                    if kind(strip(body[0][1])) != "asg" or strip(body[0][1])[1] != "+=":
                        raise KErr("loop starts at 1 but does not advance before converting")
                why = _verify_loop(node[4], N, swap, cxi, SRC, DST, BUF, strides)
            else:
                e = strip(node[1])
                a = e[3]
                if swap or cxi["inplace"] or not cxi["fast"]:
                    raise KErr("memcpy is only an exact copy kernel on the contiguous out-of-place path")
                if path(a[0]) != DST or path(a[1]) != SRC:
                    raise KErr("memcpy(%s, %s, …)" % (render(a[0]), render(a[1])))
                sz = strip(a[2])
                if N == 1 and path(sz) == num:
                    pass
                elif not (kind(sz) == "bin" and sz[1] == "*" and {path(sz[2]) or int_val(sz[2]), path(sz[3]) or int_val(sz[3])} == {num, N}):
                    raise KErr("memcpy length %s, expected %s * %d" % (render(sz), num, N))
                if kind(sz) == "bin":
                    ib = ctx.prog.int_bits(sz[-1]) if isinstance(sz[-1], str) else None
                    if ib is not None and ib[0] < 64:
                        raise KErr("memcpy length `%s` is computed in a %d-bit type: it wraps for large element counts and the copy is silently short" % (render(sz), ib[0]))
                why = "memcpy of num_elm*%d bytes" % N
            ctx.holds("F8", key, f.where(node[-3]), why)
        except KErr as e:
            ctx.violated("F8", key, f.where(node[-3]), "%s path of %s: %s" % (tag, name, e))
    # every (fast, inplace) combination must be handled: nb kernels legitimately have nothing to do for contiguous in-place
    need = {(True, False), (False, False), (False, True)} | ({(True, True)} if swap else set())
    if fast_var is None:
        need = {(False, False), (False, True)}
    for nd in sorted(need - seen_ctx):
        ctx.violated("F8", "F8:%s:%s,%s" % (name, "contiguous" if nd[0] else "strided", "in-place" if nd[1] else "out-of-place"),
                     f.where(), "no conversion loop found for this path")


def _check_header(node, num):
    init, cond, inc = node[1], strip(node[2]), strip(node[3])
    ok = (kind(cond) == "bin" and cond[1] == "<" and path(cond[3]) == num and kind(inc) == "incdec" and inc[1] == "++")
    i0 = None
    if kind(init) == "asg":
        i0 = init[3]
    elif kind(init) == "decl":
        i0 = init[1][0][2]
    if not ok or not (is_int(i0, 0) or is_int(i0, 1)):
        raise KErr("loop header is not `for (i = 0; i < %s; i++)`" % num)
    return int_val(i0)


def _fast_cond_ok(c, strides, N, swap):
    """c must be (s==0 && d==0) [|| (s==N && d==N)]"""
    def conj(e):
        e = strip(e)
        if kind(e) == "bin" and e[1] == "&&":
            return conj(e[2]) + conj(e[3])
        return [e]

    def disj(e):
        e = strip(e)
        if kind(e) == "bin" and e[1] == "||":
            return disj(e[2]) + disj(e[3])
        return [e]

    for alt in disj(c):
        vals = {}
        for t in conj(alt):
            if kind(t) == "bin" and t[1] == "==" and path(t[2]) in strides and is_int(t[3]):
                vals[path(t[2])] = int_val(t[3])
            else:
                return False
        if set(vals) != set(strides):
            return False
        v = set(vals.values())
        if v == {0}:
            continue
        if v == {N} and not swap:
            continue
        return False
    return True


def rule_tables(ctx):
    prog = ctx.prog
    table_obligations(ctx, prog, "host")
    convert_routing(ctx, prog)
    if ctx.tier == "thorough":
        other = load_other_endian(prog)
        table_obligations(ctx, other, "other-endian")
    ctx.floor("F7d", 31, len([i for i in ctx.instances if i.rule == "F7d"]), "(number-type table obligations)")


def load_other_endian(prog):
    big = _bigendian(prog)
    units, cfg_h, bdir = facts.compile_db()
    sel = {f: fl for f, fl in units.items() if f.endswith(("/hdf/src/dfconv.c", "/hdf/src/dfkswap.c", "/hdf/src/dfknat.c"))}
    if len(sel) != 3:
        raise AnalysisBroken("conversion units not found in the compile database")
    for f in sel:
        sel[f] = sel[f] + (["-UH4_WORDS_BIGENDIAN", "-DH4X_FORCE_LITTLE"] if big else ["-DH4_WORDS_BIGENDIAN"])
    fx = facts.extract(sel, cfg_h)
    p = facts.Program(fx)
    p.n_units = 3
    p.force_big = not big
    if big:
        raise AnalysisBroken("host configuration is big-endian: the little-endian variant cannot be forced by a -D flag")
    return p


def rule_kernels(ctx):
    for k in sorted(KERNELS):
        verify_kernel(ctx, ctx.prog, k)
    ctx.floor("F8", 20, len([i for i in ctx.instances if i.rule == "F8"]), "(kernel path obligations)")


def rule_flavour_mask_operand(ctx):
    """NTMASK (C06): the byte-order flavour of a number type lives in flag bits of the *HDF* number type (DFNT_LITEND 0x4000,
    DFNT_NATIVE 0x1000).  The SD layer keeps two type fields per variable and attribute: `type` (an nc_type, a small
    enumeration) and `HDFtype`.  A flavour mask applied to a value whose static type is nc_type is always 0, so a little-endian
    data set is described as big-endian in the number-type record written for it."""
    from .facts import int_name
    prog = ctx.prog
    n = 0
    for f in prog.lib_funcs():
        ordn = 0
        for _b, _i, s, x in f.nodes(True):
            if x[0] != "bin" or x[1] != "&":
                continue
            for m, o in ((x[2], x[3]), (x[3], x[2])):
                if kind(strip(m)) == "int" and int_name(m) in ("DFNT_LITEND", "DFNT_NATIVE", "DFNT_CUSTOM"):
                    ordn += 1
                    n += 1
                    key = "NTMASK:%s#%d" % (f.name, ordn)
                    uo = strip(o)
                    ty = uo[4] if kind(uo) == "mem" else (uo[3] if kind(uo) == "var" else None)
                    if ty and "nc_type" in str(ty):
                        ctx.violated("NTMASK", key, f.where(s.get("l")), "`%s` applies the number-type flag %s to a value of type nc_type: the result is always 0 and the flavour of the "
                                     "data is lost" % (render(x)[:60], int_name(m)))
                    else:
                        ctx.holds("NTMASK", key, f.where(s.get("l")), "`%s`" % render(x)[:60], nontrivial=False)
    ctx.floor("NTMASK", 10, n, "(uses of the number-type flavour masks)")
    return n


def rule_nt_record_class(ctx):
    """NTCLASS (C06, C09): a number-type record (DFTAG_NT: version, type, width, class) describes stored data to every later reader.
    Byte 1 holds only the low byte of the number type, so the byte-order flavour (DFNT_LITEND, DFNT_NATIVE) survives only through
    byte 3, the format class.  A routine that writes such a record for data whose type comes from a variable (not a constant
    like DFNT_UCHAR) must derive byte 3 from the flavour flags; a constant class byte makes a little-endian image or data set
    read back byte-swapped after reopen."""
    from .facts import int_name, is_int
    prog = ctx.prog
    n = 0
    for f in prog.lib_funcs():
        stores = {}
        for _b, _i, _s, x in f.nodes(True):
            if x[0] == "asg" and x[1] == "=":
                t = strip(x[2])
                if kind(t) == "idx" and kind(strip(t[1])) == "var" and strip(t[1])[1] == "ntstring" and is_int(t[2]):
                    stores.setdefault(int_val(t[2]), []).append(x)
        if 1 not in stores or 3 not in stores:
            continue
        variable_type = [x for x in stores[1] if not is_int(x[3])]
        if not variable_type:
            continue
        n += 1
        key = "NTCLASS:%s" % f.name
        flavour = any((y[0] == "int" and int_name(y) in ("DFNT_LITEND", "DFNT_NATIVE")) or (y[0] == "call" and y[1] in ("DFKislitendNT", "DFKisnativeNT", "DFKgetPNSC")) for _b, _i, _s, y in f.nodes(True))
        const3 = all(is_int(x[3]) for x in stores[3])
        if const3 and not flavour:
            ctx.violated("NTCLASS", key, f.where(stores[3][0][4]), "%s writes a number-type record for a type taken from `%s` with a constant class byte: the little-endian / native flavour of the "
                         "data is not recorded and the data reads back byte-swapped after reopen" % (f.name, render(variable_type[0][3])[:40]))
        else:
            ctx.holds("NTCLASS", key, f.where(stores[3][0][4]), "the class byte follows the flavour flags of the number type", nontrivial=True)
    ctx.floor("NTCLASS", 2, n, "(writers of number-type records for variable types)")
    return n


def _signed_div_bytes(nodes, int_bits):
    """(line, text) of stores `byte = <signed> / 256` among expression nodes"""
    out = []
    for line, x in nodes:
        if x[0] != "asg" or x[1] != "=":
            continue
        t = strip(x[2])
        if kind(t) not in ("idx", "deref"):
            continue
        r = x[3]
        while isinstance(r, list) and r and r[0] in ("cast", "seen"):
            r = r[2] if r[0] == "cast" else r[1]
        if kind(r) == "bin" and r[1] == "/" and is_int(r[3]) and int_val(r[3]) in (256, 65536, 16777216):
            ty = r[4] if len(r) > 4 and isinstance(r[4], str) else ""
            lt = strip(r[2])
            lty = lt[2] if kind(lt) == "deref" else (lt[3] if kind(lt) in ("var", "idx") and len(lt) > 3 else "")
            b = int_bits(lty) if isinstance(lty, str) and lty else None
            signed = (b[1] if isinstance(b, tuple) else None)
            if signed is None:
                signed = isinstance(lty, str) and not lty.startswith(("u", "unsigned"))
            if signed:
                out.append((line, render(x)[:70]))
    return out


def rule_high_byte_by_shift(ctx):
    """BYTEDIV (C06): the file image of an integer is produced byte by byte.  The high bytes of a *signed* value must be taken with a
    shift (or after conversion to unsigned): `v / 256` truncates toward zero, so for a negative v that is not a multiple of 256
    it is one more than the stored high byte must be (-12688 = 0xCE70 would be written CF 70).  No store of a byte is a signed
    quotient by 256 / 65536 / 2^24.  The expected number of matches is zero, so the matcher runs on a built-in positive example
    on every check."""
    prog = ctx.prog
    ex = [(1, ["asg", "=", ["idx", ["var", "buf", "l", "unsigned char[4]"], ["int", 0], "unsigned char"],
               ["cast", "unsigned char", ["bin", "/", ["deref", ["var", "values", "p", "short *"], "short"], ["int", 256], "int"]], 1, "unsigned char"])]
    if not _signed_div_bytes(ex, prog.int_bits):
        ctx.unrecognised("BYTEDIV", "BYTEDIV:selftest", "-", "the matcher no longer recognises its built-in positive example")
    n = 0
    for f in prog.lib_funcs():
        nodes = [(s.get("l", f.line), x) for _b, _i, s, x in f.nodes(True)]
        n += 1
        for line, txt in _signed_div_bytes(nodes, prog.int_bits):
            ctx.violated("BYTEDIV", "BYTEDIV:%s" % f.name, f.where(line), "`%s` takes a high byte of a signed value by division: wrong by one for negative values that are not multiples of the divisor" % txt)
    ctx.holds("BYTEDIV", "BYTEDIV:all", "-", "%d functions scanned: no byte is stored from a signed quotient by 256 / 65536 / 2^24" % n, nontrivial=False)
    ctx.floor("BYTEDIV", 500, n, "(functions scanned)")
    return n


def rule_nt_class_from_type(ctx):
    """NTCLASS+ (C09, C06, C15): the little-endian class byte (DFNTF_PC) goes into a number-type record exactly when the number type of
    the data carries DFNT_LITEND.  Every store of DFNTF_PC - `ntstring[3] = DFNTF_PC`, `outNT = DFNTF_PC`, or the arm of a
    conditional expression - is chosen by a *bit test* of that flag (`nt & DFNT_LITEND`, or DFKislitendNT): not by a test of
    some other field of the record (the file sub-class of an image created in this session is still the default), and not by
    comparing the whole type with the flag (`type == DFNT_LITEND` is never true for a real type).  And a routine that writes a
    number-type record for data whose type may be little-endian (it names DFNT_LITEND or DFNT_NATIVE) has such a store."""
    from .codec import ast_walk
    from .facts import int_name, is_int
    prog = ctx.prog
    n = 0

    def bit_test(c):
        for y in walk(c, True):
            if y[0] == "bin" and y[1] == "&" and "DFNT_LITEND" in (int_name(y[2]), int_name(y[3])):
                return True
            if y[0] == "bin" and y[1] == "&" and any(z[0] == "int" and int_name(z) == "DFNT_LITEND" for z in walk(y, True)):
                return True
            if y[0] == "call" and y[1] == "DFKislitendNT":
                return True
        return False

    for f in prog.lib_funcs():
        if not f.raw.get("ast"):
            continue
        sites = []

        def vis(nd, st):
            if nd[0] == "s" and nd[1] is not None:
                for x in walk(nd[1], True):
                    if x[0] == "asg" and x[1] == "=":
                        r = strip(x[3])
                        if int_name(r) == "DFNTF_PC":
                            conds = [a[1] for a in st if a[0] == "if" and a[1] is not None]
                            sites.append((nd, conds[-1] if conds else None))
                        else:
                            for y in walk(x[3], True):
                                if y[0] == "cond" and (int_name(y[2]) == "DFNTF_PC" or int_name(y[3]) == "DFNTF_PC"):
                                    sites.append((nd, y[1]))
            return True

        ast_walk(f.raw["ast"], vis)
        for k, (nd, guard) in enumerate(sites):
            n += 1
            key = "NTCLASS+:%s#%d" % (f.name, k + 1)
            line = nd[-3] if isinstance(nd[-3], int) else f.line
            if guard is not None and bit_test(guard):
                ctx.holds("NTCLASS+", key, f.where(line), "the little-endian class is recorded under a bit test of the type's DFNT_LITEND flag", nontrivial=True)
            else:
                ctx.violated("NTCLASS+", key, f.where(line), "the little-endian class byte is recorded under `%s`, not under a bit test of the number type's DFNT_LITEND flag: a little-endian object gets the wrong byte-order class and reads back byte-swapped through the other interfaces" %
                             (render(guard)[:60] if guard is not None else "no condition"))
        # writers of a number-type record for data that may be little-endian
        writes_nt = sum(1 for _b, _i, _s, c in f.calls() if c[1] == "Hputelement" and len(c[3]) > 3 and any(z[0] == "var" and z[1] == "ntstring" for z in walk(c[3][3], True)))
        flavoured = any(x[0] == "int" and int_name(x) in ("DFNT_LITEND", "DFNT_NATIVE") for _b, _i, _s, x in f.nodes(True))
        # the class byte taken from the record's file sub-class field: for an object created in this session that field is
        # still the default
        for _b, _i, s_, x in f.nodes(True):
            if x[0] == "asg" and x[1] == "=" and kind(strip(x[2])) == "idx" and kind(strip(strip(x[2])[1])) == "var" and strip(strip(x[2])[1])[1] == "ntstring" and is_int(strip(x[2])[2], 3):
                if any(y[0] == "mem" and y[2] == "file_nt_subclass" for y in walk(x[3], True)):
                    n += 1
                    ctx.violated("NTCLASS+", "NTCLASS+:%s:subclass" % f.name, f.where(s_.get("l", f.line)), "the class byte of the number-type record is copied from `file_nt_subclass`, which describes what was read from a file: an object created in this session still has the default there, whatever its number type says")
        if writes_nt and flavoured and not sites:
            n += 1
            ctx.violated("NTCLASS+", "NTCLASS+:%s:writer" % f.name, f.where(), "the routine writes a number-type record and knows about the little-endian/native flags, but never stores DFNTF_PC: a little-endian object is recorded with whatever class another field holds")
    ctx.floor("NTCLASS+", 2, n, "(stores of the little-endian class byte into a number-type record)")
    return n


def rule_element_count_from_type_size(ctx):
    """ELEMCOUNT (C06): the conversion entry points take a number of *elements*.  A caller that starts from a byte count divides
    by the size of the number type it converts (DFKNTsize, an element-size field, sizeof) - a count obtained as `bytes / 4`
    with a literal divisor is right for 4-byte types only and makes the routine run twice as far for float64 as the buffers
    reach.  Every element count handed to DFKconvert / DFKnumin / DFKnumout that is a quotient has a divisor that is not an
    integer literal."""
    from .facts import calls_in
    prog = ctx.prog
    n = 0
    ARG = {"DFKconvert": 3, "DFKnumin": 2, "DFKnumout": 2}
    for f in prog.lib_funcs():
        quot = {}
        for _b, _i, s, x in f.nodes(True):
            rhs = None
            if x[0] == "asg" and x[1] == "=" and kind(strip(x[2])) == "var":
                rhs, v = strip(x[3]), strip(x[2])[1]
            elif x[0] == "decl":
                for d in x[1]:
                    if d[2] is not None and kind(strip(d[2])) == "bin" and strip(d[2])[1] == "/":
                        quot[d[0]] = (strip(d[2]), s.get("l", f.line))
                continue
            if rhs is not None and kind(rhs) == "bin" and rhs[1] == "/":
                quot[v] = (rhs, s.get("l", f.line))
        k = 0
        for _b, _i, s, x in f.nodes(True):
            if x[0] != "call":
                continue
            name = x[1]
            if name is None:
                # (DFKnumin)(...) — a call through the parenthesised global function pointer
                ce = strip(x[2])
                name = ce[1] if kind(ce) in ("var", "fn", "ref") else None
            if name not in ARG or len(x[3]) <= ARG[name]:
                continue
            a = strip(x[3][ARG[name]])
            q = a if kind(a) == "bin" and a[1] == "/" else (quot.get(a[1], (None,))[0] if kind(a) == "var" else None)
            if q is None:
                continue
            k += 1
            n += 1
            key = "ELEMCOUNT:%s#%d" % (f.name, k)
            line = s.get("l", f.line)
            if is_int(q[3]) and int_val(q[3]) > 1 and not (len(strip(q[3])) > 2 and isinstance(strip(q[3])[2], str) and "sizeof" in strip(q[3])[2]):
                ctx.violated("ELEMCOUNT", key, f.where(line), "the element count handed to %s is `%s`: a byte count divided by the literal %d, whatever the size of the number type being converted" % (name, render(q)[:40], int_val(q[3])))
            else:
                ctx.holds("ELEMCOUNT", key, f.where(line), "the element count handed to %s is `%s`, a quotient by an element size" % (name, render(q)[:50]), nontrivial=True)
    ctx.floor("ELEMCOUNT", 2, n, "(element counts that are quotients)")
    return n


def rule_assembled_byte_unsigned(ctx):
    """BYTESIGN (C06): a 16-bit value is put together from two file bytes as `(hi << 8) + lo`.  The low byte enters an `int`
    expression, so what it contributes depends on the type it is read through: read through `unsigned char` (or uint8, or
    masked with 0xff) it adds 0..255; read through plain `char` it is sign-extended and every value whose low byte is >= 0x80
    comes out 256 too small.  Every byte that is added or or-ed to a shifted value is read through an unsigned 8-bit type."""
    from .facts import unseen
    prog = ctx.prog
    n = 0

    def elem(e):
        e = unseen(e)
        if kind(e) == "deref":
            return e[2] if len(e) > 2 and isinstance(e[2], str) else None
        if kind(e) == "idx":
            return e[3] if len(e) > 3 and isinstance(e[3], str) else None
        return None

    for f in prog.lib_funcs():
        k = 0
        seen = set()
        for _b, _i, s, x in f.nodes(True):
            if x[0] != "bin" or x[1] not in ("+", "|"):
                continue
            l, r = unseen(x[2]), unseen(x[3])
            for a, b in ((l, r), (r, l)):
                if not any(y[0] == "bin" and y[1] == "<<" for y in walk(a, True)):
                    continue
                t = elem(b)
                if t is None:
                    continue
                line = s.get("l", f.line)
                if (line, render(b)) in seen:
                    continue
                seen.add((line, render(b)))
                k += 1
                n += 1
                key = "BYTESIGN:%s#%d" % (f.name, k)
                tt = t.replace("const ", "").strip()
                if tt in ("unsigned char", "uint8", "uint8_t", "u_char"):
                    ctx.holds("BYTESIGN", key, f.where(line), "the byte joined to the shifted value is read through `%s`" % tt, nontrivial=True)
                elif tt in ("char", "signed char", "int8", "int8_t"):
                    ctx.violated("BYTESIGN", key, f.where(line), "`%s` is read through `%s` and added to a shifted value: bytes >= 0x80 are sign-extended and the assembled value is 256 too small" % (render(b)[:30], tt))
                else:
                    ctx.holds("BYTESIGN", key, f.where(line), "the operand joined to the shifted value has type `%s` (not a signed byte)" % tt, nontrivial=False)
    ctx.floor("BYTESIGN", 3, n, "(bytes joined to a shifted value)")
    return n


def rule_dfsd_records_keep_flavour(ctx):
    """RECFLAVOUR (C15): the small records DFSD stores next to a data set (max/min, calibration) are written in the byte order of
    the data set's own number type.  The SD reader decodes them with helpers that take a number type: (a) every call of such
    a helper in hdf_read_ndgs passes a type that carries the data set's flavour (it mentions `HDFtype`, the variable that has
    the little-endian / native flags from the NT record), and (b) inside the helpers the type handed to DFKconvert is not
    reduced with DFNT_MASK.  Either slip decodes little-endian records as big-endian: SDgetrange / SDgetcal then disagree
    with DFSDgetrange / DFSDgetcal on the same file."""
    from .facts import int_name
    prog = ctx.prog
    n = 0
    helpers = ("hdf_get_cal", "hdf_get_rangeinfo")
    for f in prog.lib_funcs():
        if not f.rel.endswith("mfhdf/src/hdfsds.c"):
            continue
        k = 0
        for _b, _i, s, c in f.calls():
            if c[1] in helpers and len(c[3]) > 1:
                k += 1
                n += 1
                key = "RECFLAVOUR:%s:%s#%d" % (f.name, c[1], k)
                line = s.get("l", f.line)
                if any(x[0] == "var" and x[1] == "HDFtype" for x in walk(c[3][1], True)):
                    ctx.holds("RECFLAVOUR", key, f.where(line), "%s is given a type that carries the data set's flavour (`%s`)" % (c[1], render(c[3][1])[:50]), nontrivial=True)
                else:
                    ctx.violated("RECFLAVOUR", key, f.where(line), "%s is given `%s`, which does not carry the byte order of the data set the record belongs to: a record stored little-endian is decoded as big-endian" % (c[1], render(c[3][1])[:40]))
        if f.name in helpers:
            for _b, _i, s, c in f.calls():
                if c[1] == "DFKconvert" and len(c[3]) > 2:
                    n += 1
                    key = "RECFLAVOUR:%s:convert@%d" % (f.name, sum(1 for i_ in ctx.instances if i_.key.startswith("RECFLAVOUR:%s:convert@" % f.name)))
                    line = s.get("l", f.line)
                    masked = any(x[0] == "bin" and x[1] == "&" and (int_name(x[3]) == "DFNT_MASK" or (is_int(x[3]) and int_val(x[3]) == 0xfff)) for x in walk(c[3][2], True))
                    if masked:
                        ctx.violated("RECFLAVOUR", key, f.where(line), "the type handed to DFKconvert is reduced with DFNT_MASK: the flavour flags the caller passed are dropped for the conversion")
                    else:
                        ctx.holds("RECFLAVOUR", key, f.where(line), "the conversion uses the type with its flavour flags", nontrivial=True)
    ctx.floor("RECFLAVOUR", 5, n, "(decoders of DFSD side records)")
    return n
