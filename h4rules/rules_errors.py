"""C16: I/O failures are reported — F4 error propagation (E-prim and E-prop)."""
from .facts import kind, strip, walk, path, render, int_val, is_int, calls_in, mem_field, unseen
from .par import pmap
from .flow import PathAnalysis, fail_values, classify_ret, call_key, call_name, default_fail

# storage primitives whose failure is an I/O failure
PRIM_WRITE = {"fwrite", "fflush", "fclose", "write", "close", "ftruncate"}
PRIM_READ = {"fread", "fseek", "read", "lseek", "fopen", "open"}
PRIMS = PRIM_WRITE | PRIM_READ
LEGACY_FILES = ("dfsd.c", "dfgr.c", "dfr8.c", "dfan.c", "dfp.c", "df24.c", "dfstubs.c", "dfcomp.c", "dfjpeg.c", "dfunjpeg.c", "dfimcomp.c",
                "dfrle.c", "dfutil.c", "dfufp2i.c", "dfgroup.c", "dfconv.c", "dfknat.c", "dfkswap.c", "vconv.c")


# release functions and the open calls that make the released handle a read-only one
CLOSERS = {"Hendaccess": 0, "Hclose": 0, "VSdetach": 0, "Vdetach": 0, "Hendbitaccess": 0, "GRendaccess": 0, "SDendaccess": 0, "ANendaccess": 0}
READ_OPENERS = {"Hstartread", "Hstartbitread"}


def _opened_for_read(prog, call):
    nm = call[1]
    if nm in READ_OPENERS:
        return True
    from .rules_access import MODE_CALLEES
    mc = MODE_CALLEES.get(nm)
    if mc and mc[0] is not None and mc[0] < len(call[3]):
        return mc[1](call[3][mc[0]]) == "r"
    return False


def read_handle(prog, f, call):
    """the handle released by `call` is a local that this function only ever assigns from opened-for-read calls"""
    if not call[3]:
        return False
    a = strip(call[3][CLOSERS.get(call[1], 0)])
    if kind(a) != "var" or a[2] == "p":
        return False
    defs = []
    for _, _, _, n in f.nodes(True):
        if n[0] == "asg" and n[1] == "=" and kind(strip(n[2])) == "var" and strip(n[2])[1] == a[1]:
            defs.append(strip(n[3]))
        elif n[0] == "decl":
            for d in n[1]:
                if d[0] == a[1] and d[2] is not None:
                    defs.append(strip(d[2]))
    defs = [d for d in defs if not (kind(d) == "int")]  # initialisations with FAIL / 0
    return bool(defs) and all(kind(d) == "call" and _opened_for_read(prog, d) for d in defs)


def read_stream(prog, f, call):
    """`hi_close_stdio(&v)` / `fclose(v)` where the local v is only ever assigned from HI_OPEN / fopen with a constant
    read-only mode ("rb"/"r"): closing a stream that was never written cannot lose data"""
    if not call[3]:
        return False
    a = strip(call[3][0])
    if kind(a) == "addr":
        a = strip(a[1])
    if kind(a) != "var" or a[2] == "p":
        return False
    defs = []
    for _, _, _, n in f.nodes(True):
        if n[0] == "asg" and n[1] == "=" and kind(strip(n[2])) == "var" and strip(n[2])[1] == a[1]:
            defs.append(strip(n[3]))
        elif n[0] == "decl":
            for d in n[1]:
                if d[0] == a[1] and d[2] is not None:
                    defs.append(strip(d[2]))

    def ro_open(d):
        d = strip(d)
        if kind(d) == "cond":
            c = strip(d[1])
            if is_int(c):
                return ro_open(d[2] if int_val(c) else d[3])
            return ro_open(d[2]) and ro_open(d[3])
        if kind(d) == "call" and d[1] == "fopen" and len(d[3]) == 2:
            m = strip(d[3][1])
            return kind(m) == "str" and m[1] in ("r", "rb")
        return False

    defs = [d for d in defs if not is_int(d)]
    if bool(defs) and all(ro_open(d) for d in defs):
        return True
    # a local stream that this function opens and only ever tests against NULL and closes was never written either
    def opened(d):
        d = strip(d)
        if kind(d) == "cond":
            return opened(d[2]) and opened(d[3])
        return kind(d) == "call" and d[1] == "fopen"
    if not (defs and all(opened(d) for d in defs)):
        return False
    for _, _, _, n in f.nodes(True):
        if n[0] == "call" and n is not call:
            for arg in n[3]:
                if any(x[0] == "var" and x[1] == a[1] for x in walk(arg, True)):
                    return False
        if n[0] == "ret" and n[1] is not None and any(x[0] == "var" and x[1] == a[1] for x in walk(n[1], True)):
            return False
        if n[0] == "asg" and any(x[0] == "var" and x[1] == a[1] for x in walk(n[3], True)):
            return False
    return True


# write / commit functions whose failure must not be lost (slot fillers, confirmed by reading; see DESIGN Appendix B)
W_CORE = {
    # low-level file and DD layer
    "HP_write", "HP_read", "HPseek", "HIextend_file", "HTPsync", "HIsync", "HTIupdate_dd", "HTInew_dd_block", "HPgetdiskblock",
    "HTPcreate", "HTPdelete", "HTPupdate", "HIupdate_version",
    # element API
    "Hwrite", "Hputelement", "Hsetlength", "Hendaccess", "Hclose", "Hsync", "Htrunc", "Hdeldd", "Hdupdd", "HDreuse_tagref",
    "HLcreate", "HLconvert", "HLInewlink", "HXcreate", "HCcreate", "HMCcreate",
    "Hbitwrite", "Hendbitaccess", "HIbitflush", "HIwrite2read", "HIread2write",
    # chunk cache
    "mcache_sync", "mcache_get",
    # Vgroup / Vdata
    "Vdetach", "VSdetach", "VSwrite", "VSsetattr", "Vsetattr", "VHstoredata", "VHstoredatam", "VHmakegroup",
    # GR / AN
    "GRend", "GRendaccess", "GRIupdatemeta", "GRIupdateRIG", "GRIupdateRI", "GRwriteimage", "ANIwriteann",
    # SD / netCDF layer
    "SDend", "hdf_close", "hdf_write_var", "hdf_write_dim", "hdf_write_attr", "hdf_cdf_clobber", "hdf_vg_clobber", "hdf_write_xdr_cdf",
    "H4_ncclose", "bio_write_page", "hi_close_stdio",
}
# failure values that are not visible from HGOTO_ERROR macros or the return type
FAIL_OVERRIDE = {"hdf_get_data": {0}}


def libc_fail_outcome(call, op, n):
    """failure conventions of the stdio/posix primitives"""
    nm = call[1]
    if nm in ("fwrite", "fread"):
        return None  # compared with the requested count: handled as 'tested'
    if nm in ("fseek", "fflush", "fclose", "close", "ftruncate"):
        if op == "==" and n == 0:
            return "ok"
        if op == "!=" and n == 0:
            return "fail"
        if op == "==" and n == -1:
            return "fail"
        if op == "<" and n == 0:
            return "fail"
    return None


def _resolved_names(prog, call, func):
    from .rules_mem import _callee_names
    return _callee_names(prog, call, func)


class F4(PathAnalysis):
    """typestate = (unchecked: calls whose result has not been looked at, failed: calls a branch decided to have failed)"""

    def __init__(self, prog, W, read_only_aids=True):
        super().__init__(prog)
        self.W = W
        self.findings = {}  # key -> (kind, line, callee)
        self.counts = {"sites": 0}
        self._indirect = {}
        self.ro_aids = set()
        self.propagates = False
        self.swallow_for = None  # when set: failures are remembered for these callees only (the ones 'swallowed' is decided for)
        self.prop_keys = None  # when set: only failures of these call keys count as propagated

    def init_user(self, func):
        self._retvars = set()
        for _b, _i, _s, n in func.nodes(True):
            if n[0] == "ret" and n[1] is not None and kind(strip(n[1])) == "var":
                self._retvars.add(strip(n[1])[1])
        return (frozenset(), frozenset())

    def tracked_vars(self, func):
        t = super().tracked_vars(func)
        # also track variables that receive a W result even if never tested (to see them at the exit)
        for bid, i, s, n in func.nodes(True):
            if n[0] == "asg" and kind(strip(n[2])) == "var" and kind(strip(n[3])) == "call" and strip(n[3])[1] in self.W:
                t.add(strip(n[2])[1])
        return t

    def _inW(self, call, func):
        """direct callee in W, or an indirect call all of whose resolved targets... any of whose resolved targets is in W"""
        if call[1]:
            return call[1] in self.W
        k = (call[5], call[6])
        r = self._indirect.get(k)
        if r is None:
            names = _resolved_names(self.prog, call, func)
            r = bool(names) and any(n in self.W for n in names)
            self._indirect[k] = r
        return r

    def _consumer(self, stmt_e, call):
        """how is the call's value used inside its statement: 'dropped' | 'void' | 'used'"""
        e = stmt_e
        top = unseen(e)
        if top is call:
            return "dropped"
        if kind(top) == "cast" and top[1] == "void" and unseen(top[2]) is call:
            return "void"
        return "used"

    def on_stmt(self, func, bid, idx, stmt, env, user):
        unchecked, failed = user
        u = set(unchecked)
        if u:
            # a held result that is read again (passed on, stored into a record, returned, compared) has been looked at;
            # only the plain `v = f();` definition itself does not count
            e = stmt["e"]
            reads = set()
            for x in walk(e, True):
                if x[0] == "var":
                    reads.add(x[1])
            defs = set()
            for x in walk(e, True):
                if x[0] == "asg" and x[1] == "=" and kind(strip(x[2])) == "var":
                    defs.add(strip(x[2])[1])
                    # the variable on the left of `=` was not read by this node
            for x in walk(e, True):
                if x[0] == "asg" and x[1] == "=" and kind(strip(x[2])) == "var":
                    rhs_reads = {y[1] for y in walk(x[3], True) if y[0] == "var"}
                    if strip(x[2])[1] not in rhs_reads:
                        reads.discard(strip(x[2])[1]) if sum(1 for y in walk(e, True) if y[0] == "var" and y[1] == strip(x[2])[1]) == 1 else None
            looked = set()
            for v in reads:
                val = env.get(v)
                if val is not None and val[0] == "r":
                    looked.add(val[1])
            # the holder variable is remembered with the entry, so this also works where the path environment was degraded
            u = {x for x in u if x[0] not in looked and not (x[2] is not None and x[2] in reads)}
        if u:
            # a holder that is overwritten by something else loses its (unseen) result for good
            for x in walk(stmt["e"], True):
                if x[0] == "asg" and x[1] == "=" and kind(strip(x[2])) == "var":
                    hv = strip(x[2])[1]
                    r = unseen(strip(x[3]))
                    if not (kind(r) == "call" and r[1] in self.W) and any(y[2] == hv for y in u):
                        u = {(y[0], y[1], None) if y[2] == hv else y for y in u}
        for c in calls_in(stmt["e"]):
            nm = c[1]
            if self._inW(c, func):
                k = call_key(c)
                self.counts["sites"] += 1
                how = self._consumer(stmt["e"], c)
                if how in ("dropped", "void"):
                    u.add((k, how, None))
                else:
                    hv = self._stored_in_var(stmt["e"], c)
                    if hv:
                        # an older result still held by the same variable is overwritten unseen: keep it, holder-less and
                        # under a key of its own (the same call site may be executing again in a loop)
                        u = {((x[0][0] + "#overwritten", x[0][1], x[0][2]), x[1], None) if x[2] == hv else x for x in u}
                        u.add((k, "held", hv))
        # a W result copied into another call's argument or arithmetic counts as used; assignments keep 'held'
        return (frozenset(u), failed)

    def _stored_in_var(self, e, call):
        """`v = call` / `type v = call` with v a plain local: the only consumer is the variable"""
        for x in walk(e, True):
            if x[0] == "asg" and x[1] == "=" and unseen(strip(x[3])) is call and kind(strip(x[2])) == "var":
                return strip(x[2])[1]
            if x[0] == "decl":
                for d in x[1]:
                    if d[2] is not None and unseen(strip(d[2])) is call:
                        return d[0]
        return None

    def on_call_outcome(self, func, call, outcome, env, user):
        if not self._inW(call, func):
            return user
        unchecked, failed = user
        k = call_key(call)
        u = frozenset(x for x in unchecked if x[0] != k)
        if outcome in ("fail", "fail?") and (self.swallow_for is None or call[1] in self.swallow_for):
            # only the first failure on a path is remembered: every failure is the first one on the path where the
            # earlier calls succeeded, and the state space stays linear in the number of call sites
            return (u, failed if failed else frozenset({k}))
        return (u, failed)

    def on_assume(self, func, bid, cond, pol, env, user):
        # any comparison that mentions a held W result counts as 'looked at' (e.g. fwrite() != n)
        unchecked, failed = user
        ks = set()
        for x in walk(cond, True):
            if x[0] == "call" and self._inW(x, func):
                ks.add(call_key(x))
            elif x[0] == "var":
                v = env.get(x[1])
                if v is not None and v[0] == "r":
                    ks.add(v[1])
                for y in unchecked:
                    if y[2] == x[1]:
                        ks.add(y[0])
        if ks:
            u = frozenset(x for x in unchecked if x[0] not in ks)
            c = strip(cond)
            # comparison of fwrite/fread with the requested count: != means failure
            fl = failed
            if kind(c) == "bin" and c[1] in ("==", "!="):
                for side in (c[2], c[3]):
                    x = strip(side)
                    if kind(x) == "call" and x[1] in ("fwrite", "fread"):
                        if ((c[1] == "==") == pol) is False and not fl:
                            fl = frozenset({call_key(x)})
            return (u, fl)
        return user

    def on_exit(self, func, bid, retval, env, user):
        unchecked, failed = user
        cls = classify_ret(retval, self.fails)
        returned = retval[1] if retval and retval[0] == "r" else None
        retvars = self._retvars
        if self.prop_keys is None:
            if (cls == "fail" and failed) or (returned is not None and (returned[0] in self.W or returned[0].startswith("<"))):
                self.propagates = True
        elif (cls == "fail" and failed & self.prop_keys) or (returned is not None and returned in self.prop_keys):
            self.propagates = True
        for k in failed:
            if cls == "ok" and func.ret != "void":
                self._add(("swallowed", k), k)
            elif returned is not None and returned != k and func.ret != "void" and returned[1:] > k[1:]:
                # the function returns the result of a *later* call (typically a clean-up) instead of its fail value
                self._add(("swallowed", k), k)
        for (k, how, holder) in unchecked:
            if k == returned or (holder is not None and holder in retvars):
                continue
            if cls == "fail":
                continue  # cleanup on an already failing path
            if how == "held" and func.ret == "void":
                pass
            self._add((how if how != "held" else "unchecked", k), k)

    def _add(self, what, k):
        self.findings.setdefault((what[0], k), True)


def compute_W(prog):
    """functions (returning a status) from which a storage primitive is reachable"""
    funcs = {}
    for f in prog.lib_funcs():
        if f.name not in funcs or not f.static:
            funcs[f.name] = f
    from .rules_access import MODE_CALLEES
    callees = {}
    wcallees = {}  # edges that can carry a write (calls made for reading through a mode-dependent callee are dropped)
    for nm, f in funcs.items():
        cs = set()
        ws = set()
        for _, _, _, c in f.calls():
            for t in prog.callee_names(c, f):
                cs.add(t)
                mc = MODE_CALLEES.get(t)
                if mc and mc[0] is not None and mc[0] < len(c[3]) and mc[1](c[3][mc[0]]) == "r":
                    continue
                if t in CLOSERS and read_handle(prog, f, c):
                    continue  # releasing a handle this function opened for reading writes nothing
                ws.add(t)
        callees[nm] = cs
        wcallees[nm] = ws
    reach_w = set(PRIM_WRITE)
    reach_any = set(PRIMS)
    changed = True
    while changed:
        changed = False
        for nm, cs in callees.items():
            if nm not in reach_w and wcallees[nm] & reach_w:
                reach_w.add(nm)
                changed = True
            if nm not in reach_any and cs & reach_any:
                reach_any.add(nm)
                changed = True
    W = {nm for nm in reach_any if (nm in funcs and funcs[nm].ret != "void") or nm in PRIMS}
    Ww = {nm for nm in reach_w if (nm in funcs and funcs[nm].ret != "void") or nm in PRIM_WRITE}
    return W, Ww, funcs


def _write_edge(prog, f, c):
    """can this call carry a write? (read-mode calls of mode-dependent callees and releases of read handles cannot)"""
    from .rules_access import MODE_CALLEES
    mc = MODE_CALLEES.get(c[1])
    if mc and mc[0] is not None and mc[0] < len(c[3]) and mc[1](c[3][mc[0]]) == "r":
        return False
    if c[1] in READ_OPENERS:
        return False
    if c[1] in CLOSERS and read_handle(prog, f, c):
        return False
    return True


_PAR = {}


def _prop_worker(nm):
    prog, W, funcs, write_only = _PAR["prog"], _PAR["W"], _PAR["funcs"], _PAR["write_only"]
    f = funcs[nm]
    a = F4(prog, W)
    a.fails = FAIL_OVERRIDE.get(nm) or fail_values(f, prog)
    if write_only:
        a.prop_keys = frozenset(call_key(c) for _, _, _, c in f.calls() if c[1] in W and _write_edge(prog, f, c))
        if not a.prop_keys:
            return False
    try:
        a.run(f)
    except Exception:
        return False
    return bool(a.propagates)


def _f4_worker(nm):
    prog, W, W0, funcs = _PAR["prog"], _PAR["W"], _PAR["W0"], _PAR["funcs"]
    f = funcs[nm]
    res = {"err": None, "undecided": None, "findings": [], "sites": {}}
    a = F4(prog, W)
    a.swallow_for = W if nm in _PAR.get("slotfns", ()) else W0
    a.fails = FAIL_OVERRIDE.get(nm) or fail_values(f, prog)
    try:
        a.run(f)
    except Exception as e:
        res["err"] = str(e)
        return res
    if a.hard_degraded and a.findings:
        # the path environment was dropped on some path: exit classification is unreliable there, so a report
        # could be a false alarm -- retry with a larger state budget, then refuse to decide
        a = F4(prog, W)
        a.swallow_for = W if nm in _PAR.get("slotfns", ()) else W0
        a.STATE_CAP = 1500
        a.fails = FAIL_OVERRIDE.get(nm) or fail_values(f, prog)
        try:
            a.run(f)
        except Exception:
            a.hard_degraded = True
        if a.hard_degraded:
            res["undecided"] = sum(1 for _, _, _, c in f.calls() if a._inW(c, f))
            return res
    res["findings"] = sorted(a.findings, key=lambda x: (x[1][1], x[1][2], x[0]))
    for _, _, _, c in f.calls():
        if a._inW(c, f):
            res["sites"].setdefault(call_name(c), set()).add((c[5], c[6]))
    return res


def close_W(prog, W0, funcs, Wall, log=None, write_only=False):
    """least set containing W0 and every status-returning function that turns a failure of a member into its own failure
    (tests the result and returns its fail value, or returns the result itself)"""
    W = set(W0)
    callers = {}
    for nm, f in funcs.items():
        for _, _, _, c in f.calls():
            for t in prog.callee_names(c, f):
                callers.setdefault(t, set()).add(nm)
    work = set()
    for w in W:
        work |= callers.get(w, set())
    rounds = 0
    while work:
        rounds += 1
        new = set()
        cands = []
        for nm in sorted(work):
            f = funcs.get(nm)
            if f is None or nm in W or f.ret == "void" or nm not in Wall:
                continue
            if not any((c[1] in W) if c[1] else any(t in W for t in prog.callee_names(c, f)) for _, _, _, c in f.calls()):
                continue
            cands.append(nm)
        _PAR.update(prog=prog, W=W, funcs=funcs, write_only=write_only)
        for nm, ok in pmap(_prop_worker, cands, "f4prop").items():
            if ok:
                new.add(nm)
        W |= new
        work = set()
        for w in new:
            work |= callers.get(w, set())
        if log is not None:
            log.append((rounds, sorted(new)))
    return W


_WCACHE = {}


def closed_W(ctx):
    """W closure shared by the rules of one check run"""
    key = id(ctx.prog)
    if key not in _WCACHE:
        prog = ctx.prog
        Wall, Ww, funcs = compute_W(prog)
        slots = set()
        for (rec, fld), targets in prog.fp_targets().items():
            if rec == "funclist_t" and fld in ("write", "endaccess"):
                slots |= set(targets)
            if fld in ("pgout",):
                slots |= set(targets)
        W0 = ((set(W_CORE) & Wall) | (slots & Wall) | PRIMS)
        _WCACHE[key] = (close_W(prog, W0, funcs, Wall), W0)
    return _WCACHE[key][0]


def _layer(f):
    b = f.rel.rsplit("/", 1)[-1]
    return "legacy" if b in LEGACY_FILES else "core"


def rule_F4(ctx):
    prog = ctx.prog
    Wall, Ww, funcs = compute_W(prog)
    # E-prim covers every raw primitive, read or write.  E-prop is decided for the write/commit functions: the frozen core
    # list below plus every function stored in a write / endaccess slot of a function table — all of them verified to reach
    # a write primitive (an entry that no longer does makes the check exit 2).  Context-insensitive reachability alone is
    # useless here: through mode switches (read after write flushes) almost every H-layer function can reach fwrite.
    slots = set()
    for (rec, fld), targets in prog.fp_targets().items():
        if rec == "funclist_t" and fld in ("write", "endaccess"):
            slots |= set(targets)
        if fld in ("pgout",):
            slots |= set(targets)
    core = set()
    for nm in sorted(W_CORE):
        if nm not in funcs:
            ctx.unrecognised("F4", "F4:core:%s" % nm, "-", "write/commit function %s of the frozen list no longer exists" % nm)
        elif nm not in Wall:
            ctx.unrecognised("F4", "F4:core:%s" % nm, funcs[nm].where(), "%s no longer reaches a storage primitive" % nm)
        else:
            core.add(nm)
    W = closed_W(ctx)
    W0 = _WCACHE[id(ctx.prog)][1]
    if not core <= W0:
        ctx.unrecognised("F4", "F4:core", "-", "seed set of the closure differs from the verified core list")
    ctx.stats["W_seed"] = len(W0)
    n_sites = 0
    todo = []
    for nm, f in sorted(funcs.items()):
        if not any((c[1] in W) if c[1] else True for _, _, _, c in f.calls()):
            continue
        if _layer(f) == "legacy":
            # the single-file DF* interfaces and the format converters are outside the workload classes C16 quantifies over
            # (H/V/SD/GR/AN); their 16 candidate sites were never replayed and are therefore neither armed nor listed
            # (DESIGN 11.4)
            continue
        todo.append(nm)
    # In an end-of-access or write routine of a function table a tested failure of *any* failure-propagating callee is a
    # storage failure (there is no 'not found' to continue after), so 'swallowed' is decided there for derived callees too.
    slotfns = {t for (rec, fld), targets in prog.fp_targets().items() if rec == "funclist_t" and fld in ("write", "endaccess") for t in targets}
    _PAR.update(prog=prog, W=W, W0=W0, funcs=funcs, slotfns=slotfns)
    results = pmap(_f4_worker, todo, "f4main")
    for nm in todo:
        f = funcs[nm]
        res = results[nm]
        if res["err"]:
            ctx.unrecognised("F4", "F4:%s" % nm, f.where(), "analysis failed: %s" % res["err"])
            continue
        if res["undecided"] is not None:
            ctx.excepted("F4", "F4:%s" % nm, f.where(), "not decided: too many path states for the path-sensitive analysis even with the larger budget "
                         "(%d call sites of W members skipped)" % res["undecided"])
            continue
        # group per callee+kind with ordinal
        per = {}
        for (what, k) in res["findings"]:
            callee, line, col = k
            per.setdefault((what, callee.split("#")[0]), []).append(line)
        sites = res["sites"]
        for callee, st in sorted(sites.items()):
            n_sites += len(st)
            if callee in CLOSERS and all(read_handle(prog, f, c) for _, _, _, c in f.calls() if c[1] == callee):
                ctx.holds("F4", "F4:%s:%s" % (nm, callee), f.where(min(st)[0]),
                          "releases a handle this function opened for reading (nothing is written by it)", nontrivial=False)
                continue
            ro_lines = set()
            for _, _, _, c in f.calls():
                if c[1] == callee and ((callee in CLOSERS and read_handle(prog, f, c)) or
                                       (callee in ("hi_close_stdio", "fclose") and read_stream(prog, f, c))):
                    ro_lines.add(c[5])
            bad = []
            for (what, cal), lines in per.items():
                if cal != callee:
                    continue
                if what == "swallowed" and callee not in W0 and nm not in slotfns:
                    # the failure value of a derived function also encodes 'not found' / 'end of iteration': going on
                    # after a tested failure is ordinary control flow there; only the seed functions fail for storage
                    # reasons alone (DESIGN: clause not decided)
                    continue
                lines = [l for l in lines if l not in ro_lines]
                if lines:
                    bad.append((what, lines))
            if not bad and ro_lines:
                ctx.holds("F4", "F4:%s:%s" % (nm, callee), f.where(min(ro_lines)),
                          "the dropped result belongs to the release of a handle / stream this function opened read-only (nothing written can be lost)",
                          nontrivial=True)
                continue
            if not bad:
                ctx.holds("F4", "F4:%s:%s" % (nm, callee), f.where(min(st)[0]),
                          "%d call site(s): result tested, propagated, or dropped only on an already failing path" % len(st),
                          nontrivial=True)
            for what, lines in bad:
                key = "F4:%s:%s:%s" % (nm, callee, what)
                write_side = callee in Ww
                exc = _f4_exception(prog, f, callee, what, write_side)
                if exc:
                    ctx.excepted("F4", key, f.where(lines[0]), exc)
                    continue
                txt = {"dropped": "the result of %s() is dropped", "void": "the result of %s() is cast to void",
                       "unchecked": "the result of %s() is stored but never looked at",
                       "swallowed": "%s() is seen to fail, yet the function returns its success value"}[what] % callee
                ctx.violated("F4", key, f.where(lines[0]),
                             "%s on a path to a non-failing return (line%s %s): an I/O failure below this call is not reported to the caller" % (
                                 txt, "s" if len(lines) > 1 else "", ",".join(map(str, sorted(set(lines))[:6]))))
    ctx.floor("F4", 350, n_sites, "(call sites of functions that can reach a storage primitive)")
    ctx.stats["W_functions"] = len(W)


# accepted idioms (each one line of reason); anything else is a finding
# one named function + callee each, confirmed by reading; the reason says why no storage failure can be lost at that site
F4_SITE_EXCEPT = {
    ("HLInewlink", "Hendaccess"): "link_id is an AID on the DFTAG_LINKED table element this module has just created as a plain element: Hendaccess of a plain element only releases the access record (no I/O)",
    ("HLPwrite", "Hendaccess"): "link_id is an AID on a plain DFTAG_LINKED table element (Hstartwrite on link_tag/link_ref): Hendaccess of a plain element performs no I/O",
    ("GRIupdateRI", "Hendaccess"): "temp_aid was opened on a reference number obtained from Htagnewref two statements earlier: a new plain element, Hendaccess performs no I/O",
    ("SDgetblocksize", "Hendaccess"): "temp_aid is released only when it came from Hstartread in this function (guard var->aid == FAIL): read handle, nothing written",
    ("Hopen", "HIread_version"): "documented: the version element is optional; on any failure the in-memory version stays 'unknown' and nothing is written",
    ("HIrelease_filerec_node", "hi_close_stdio"): "record destructor: Hclose closes the stream itself before calling it (stream pointer already NULL); the remaining callers are failing paths of Hopen",
    ("HXPwrite", "hi_close_stdio"): "the remaining unchecked close releases the stream whose write has just failed (it was opened without write permission): nothing was ever buffered in it; the two re-open closes are checked",
    ("*", "Hendaccess"): "lemma ATTACH (decided in the same check): a failing end-of-access never decrements file_rec->attach and Hclose returns FAIL while it is raised, so the failure is reported by the final close (replays: gr_deflate k=21-24, gr_two k=49)",
    ("ANIcreate_ann_tree", "Hnextread"): "iteration idiom: the stored result is the loop condition of the next round; it is not read only when the other conjunct (i < nanns) already ended the loop",
    ("hdf_read_ndgs", "Hnextread"): "iteration idiom: `status` is the condition of the enclosing while loop; the flagged path leaves the loop through a failing HGOTO_ERROR of another call",
    ("tbbt_printNode", "fflush"): "debug printer flushing stdout, not an HDF file stream",
    ("H4_ncabort", "H4_NC_free_cdf"): "ncabort discards the in-memory handle by contract (abort of a definition); reached for classic netCDF handles only (file_type != HDF_FILE)",
    ("NC_endef", "H4_NC_free_cdf"): "classic netCDF redef path (temporary-file rename): not an HDF4 file",
    ("nssdc_xdr_cdf", "H4_NC_free_cdf"): "NSSDC CDF import, read-only foreign format; the call is on the failing path of the import",
    ("nssdc_read_cdf", "fseek"): "NSSDC CDF import (read-only foreign format), not an HDF4 workload",
    ("nssdc_read_cdf", "fread"): "NSSDC CDF import (read-only foreign format), not an HDF4 workload",
    ("hdf_xdr_destroy", "bio_write_page"): "buffered POSIX XDR stream used for classic netCDF files only; HDF4 files never create a biobuf",
    ("hdf_xdr_destroy", "close"): "buffered POSIX XDR stream used for classic netCDF files only; HDF4 files never create a biobuf",
}


def _load_unconfirmed():
    import os
    up = os.path.join(os.path.dirname(os.path.dirname(os.path.abspath(__file__))), "rules", "f4_unconfirmed.txt")
    out = {}
    for line in open(up):
        line = line.rstrip("\n")
        if not line or line.startswith("#"):
            continue
        k, _, why = line.partition("\t")
        out[k.strip()] = why.strip()
    return out


F4_UNCONFIRMED = _load_unconfirmed()


def _f4_exception(prog, f, callee, what, write_side):
    r = F4_SITE_EXCEPT.get((f.name, callee)) or (F4_SITE_EXCEPT.get(("*", callee)) if what in ("dropped", "void") else None)
    if r:
        return r
    r = F4_UNCONFIRMED.get("F4:%s:%s:%s" % (f.name, callee, what))
    if r:
        return "unconfirmed candidate (rules/f4_unconfirmed.txt): " + r
    if not write_side and what in ("dropped", "void", "unchecked"):
        return "read-side callee (%s cannot reach a write primitive): a dropped failure cannot make written data incomplete" % callee
    return None


class _AttachOnFail(PathAnalysis):
    """user = True once `->attach--` has been executed on the path"""

    def __init__(self, prog):
        super().__init__(prog)
        self.bad = []
        self.seen_dec = False

    def init_user(self, func):
        return False

    def on_stmt(self, func, bid, idx, stmt, env, user):
        for x in walk(stmt["e"], True):
            if x[0] == "incdec" and x[1] == "--" and (mem_field(x[3]) or (0, 0))[1] == "attach":
                self.seen_dec = True
                return True
            if x[0] == "asg" and (mem_field(x[2]) or (0, 0))[1] == "attach":
                self.seen_dec = True
                return True
        # ending access to a *dependent* element takes that element's count off the file: a bare `Hendaccess(dep);`
        # (result not looked at) is counted as done
        e = strip(stmt["e"])
        if kind(e) == "call" and e[1] in ("Hendaccess", "Hendbitaccess") and func.name not in ("Hendaccess",):
            self.seen_dec = True
            return True
        return user

    def on_call_outcome(self, func, call, outcome, env, user):
        if call[1] in ("Hendaccess", "Hendbitaccess") and outcome == "ok" and func.name not in ("Hendaccess",):
            self.seen_dec = True
            return True
        return user

    def on_exit(self, func, bid, retval, env, user):
        if user and classify_ret(retval, self.fails) == "fail":
            self.bad.append(bid)


class _CloseRefuses(PathAnalysis):
    """Hclose: every path on which `file_rec->attach > 0` was seen true ends in a failure return"""

    def __init__(self, prog):
        super().__init__(prog)
        self.bad = []
        self.guards = 0

    def init_user(self, func):
        return False

    def on_assume(self, func, bid, cond, pol, env, user):
        c = strip(cond)
        if kind(c) == "bin" and c[1] == ">" and (mem_field(c[2]) or (0, 0))[1] == "attach" and is_int(c[3]) and int_val(c[3]) == 0:
            self.guards += 1
            if pol:
                return True
        return user

    def on_exit(self, func, bid, retval, env, user):
        if user and classify_ret(retval, self.fails) != "fail":
            self.bad.append(bid)


def rule_attach_on_fail(ctx):
    """Lemma behind the accepted idiom 'result of Hendaccess not looked at': a failing end-of-access leaves the file's
    attach count raised, and Hclose refuses to close (returns FAIL) while it is raised -- so the failure stays visible."""
    prog = ctx.prog
    targets = set(prog.fp_targets().get(("funclist_t", "endaccess"), ())) | {"Hendaccess"}
    # the close helpers the end-of-access routines hand their access record to (HBPcloseAID, HCPcloseAID, ..)
    for nm in sorted(targets):
        f = prog.func(nm)
        if f is None:
            continue
        params = [(p[0] if isinstance(p, (list, tuple)) else p.get("name")) for p in f.params]
        for _b, _i, _s, c in f.calls():
            if c[1] and "closeAID" in c[1] and any(kind(strip(a)) == "var" and strip(a)[1] in params for a in c[3]):
                targets.add(c[1])
    n = 0
    decs = 0
    for nm in sorted(targets):
        f = prog.func(nm)
        if f is None:
            ctx.unrecognised("ATTACH", "ATTACH:%s" % nm, "-", "end-of-access routine %s not found" % nm)
            continue
        a = _AttachOnFail(prog)
        a.fails = fail_values(f, prog)
        a.run(f)
        n += 1
        decs += 1 if a.seen_dec else 0
        key = "ATTACH:%s" % nm
        if a.bad:
            ctx.violated("ATTACH", key, f.where(), "%s can return its failure value after `attach--`: the final Hclose would then succeed although "
                         "ending the access failed, and callers that do not look at the result of Hendaccess hide the failure" % nm)
        else:
            ctx.holds("ATTACH", key, f.where(), "no failing return after `attach--`" if a.seen_dec else "does not touch the attach count",
                      nontrivial=a.seen_dec)
    f = prog.func("Hclose")
    a = _CloseRefuses(prog)
    a.fails = fail_values(f, prog)
    a.run(f)
    if not a.guards:
        ctx.unrecognised("ATTACH", "ATTACH:Hclose", f.where(), "Hclose no longer tests `file_rec->attach > 0`")
    elif a.bad:
        ctx.violated("ATTACH", "ATTACH:Hclose", f.where(), "Hclose can return success although access elements are still attached")
    else:
        ctx.holds("ATTACH", "ATTACH:Hclose", f.where(), "every path with attach > 0 returns FAIL", nontrivial=True)
    ctx.floor("ATTACH", 6, decs, "(end-of-access routines that decrement the attach count)")
    return n


def rule_bool_result_vs_fail(ctx):
    """BOOLFAIL (C16): the XDR/netCDF layer reports failure with FALSE (bool_t), the HDF layer with FAIL (-1).  A result of type
    bool_t compared with FAIL is never equal to it: the error branch is dead and every failure below the call — here the whole
    metadata write-out of SDend — is dropped, after which the dirty flags are cleared and the close succeeds."""
    from .facts import kind, strip, walk, render, is_int, int_val
    prog = ctx.prog
    n = 0
    for f in prog.lib_funcs():
        if not f.rel.startswith("mfhdf/src/"):
            continue
        ordn = 0
        for _b, _i, s, x in f.nodes(True):
            if x[0] != "bin" or x[1] not in ("==", "!="):
                continue
            for a, o in ((x[2], x[3]), (x[3], x[2])):
                ua = strip(a)
                if kind(ua) == "call" and ua[1] and is_int(o) and int_val(o) in (-1, 0, 1):
                    g = prog.func(ua[1])
                    if g is None or "bool_t" not in str(g.ret):
                        continue
                    ordn += 1
                    n += 1
                    key = "BOOLFAIL:%s#%d" % (f.name, ordn)
                    if int_val(o) == -1:
                        ctx.violated("BOOLFAIL", key, f.where(s.get("l")), "`%s` compares the bool_t result of %s with FAIL (-1); it only ever is TRUE or FALSE, so the failure branch can never "
                                     "be taken and a failure of %s is dropped" % (render(x)[:70], ua[1], ua[1]))
                    else:
                        ctx.holds("BOOLFAIL", key, f.where(s.get("l")), "`%s`" % render(x)[:60], nontrivial=False)
        # `if (!call())` / `if (call())` are the normal forms; count them as instances too
        for b in f.blocks.values():
            t = b.get("term")
            if t and t.get("cond") is not None:
                c = strip(t["cond"])
                inner = strip(c[2]) if kind(c) == "un" and c[1] == "!" else c
                if kind(inner) == "call" and inner[1]:
                    g = prog.func(inner[1])
                    if g is not None and "bool_t" in str(g.ret):
                        n += 1
    ctx.floor("BOOLFAIL", 10, n, "(tests of bool_t results in the SD/netCDF layer)")
    return n


def rule_bit_io_count_checked(ctx):
    """BITCOUNT (C16, C05): Hbitread and Hbitwrite report how many bits they transferred.  A storage failure underneath does not make
    them return FAIL (that is reserved for bad arguments): the count comes back short.  Every call in the coders must therefore be
    compared with the number of bits it asked for; a dropped result, or a comparison with FAIL only, lets a read or write fault
    pass as success — wrong data is delivered, or a damaged element is stored, with every API call returning success."""
    from .facts import kind, strip, walk, render, is_int, int_val
    from .codec import ast_walk
    prog = ctx.prog
    n = 0
    occ = {}
    for f in prog.lib_funcs():
        if not f.rel.startswith("hdf/src/c") or not f.raw.get("ast"):
            continue
        sites = []

        def vis(nd, st):
            exprs = [nd[1]] if nd[0] in ("s", "if", "while") and nd[1] is not None else []
            for e in exprs:
                top = strip(e)
                for x in walk(e, True):
                    if x[0] == "call" and x[1] in ("Hbitread", "Hbitwrite") and len(x[3]) > 1:
                        # find the comparison the call is an operand of
                        verdict = "dropped"
                        for y in walk(e, True):
                            if y[0] == "bin" and y[1] in ("!=", "==", "<") and any(z is x for z in (strip(y[2]), strip(y[3]))):
                                other = strip(y[3]) if strip(y[2]) is x else strip(y[2])
                                if is_int(other) and int_val(other) == -1:
                                    verdict = "FAIL only"
                                elif render(other) == render(strip(x[3][1])) or (is_int(other) and is_int(strip(x[3][1])) and int_val(other) == int_val(strip(x[3][1]))):
                                    verdict = "count"
                                else:
                                    verdict = "other:" + render(other)[:30]
                        sites.append((x, nd, verdict))
            return True

        ast_walk(f.raw["ast"], vis)
        for x, nd, verdict in sites:
            n += 1
            key = "BITCOUNT:%s:%s" % (f.name, x[1])
            occ[key] = occ.get(key, 0) + 1
            if occ[key] > 1:
                key += "#%d" % occ[key]
            line = x[5] if len(x) > 5 and isinstance(x[5], int) else f.line
            if verdict == "count":
                ctx.holds("BITCOUNT", key, f.where(line), "the result is compared with the `%s` bits asked for" % render(strip(x[3][1]))[:40], nontrivial=True)
            elif verdict.startswith("other:"):
                ctx.excepted("BITCOUNT", key, f.where(line), "compared with `%s`: not one of the recognised forms" % verdict[6:])
            else:
                ctx.violated("BITCOUNT", key, f.where(line), "the result of %s() is %s: a storage failure underneath returns a short count, which this call site takes for success" %
                             (x[1], "dropped" if verdict == "dropped" else "compared with FAIL only"))
    ctx.floor("BITCOUNT", 4, n, "(bit I/O calls in the coders)")
    return n


def _dead_fail_tests(nodes, int_bits):
    """comparisons `narrowed == K` where K cannot be represented in the narrowed operand's type"""
    out = []
    for line, x in nodes:
        if x[0] != "bin" or x[1] not in ("==", "!="):
            continue
        for a, o in ((x[2], x[3]), (x[3], x[2])):
            k = o
            while isinstance(k, list) and k and k[0] in ("cast", "seen"):
                k = k[2] if k[0] == "cast" else k[1]
            if kind(k) != "int":
                continue
            kv = k[1]
            if kv == -1:
                kv = 0xFFFFFFFF
            if kv < 256:
                continue
            e = a
            while isinstance(e, list) and e and e[0] == "seen":
                e = e[1]
            if kind(e) == "asg":
                e = e[3]
                while isinstance(e, list) and e and e[0] == "seen":
                    e = e[1]
            if kind(e) != "cast":
                continue
            b = int_bits(e[1])
            bits = b[0] if isinstance(b, tuple) else b
            signed = b[1] if isinstance(b, tuple) and len(b) > 1 else not str(e[1]).startswith(("u", "unsigned"))
            if not bits or bits >= 32 or signed:
                continue
            inner = strip(e[2])
            if kind(inner) != "call":
                continue
            if kv > (1 << bits) - 1:
                out.append((line, render(x)[:80], e[1], bits))
    return out


def rule_failure_test_alive(ctx):
    """DEADFAIL (C16): a read primitive reports a failure with a value outside the range of good results (HDgetc returns FAIL, -1, where
    good results are 0..255).  If its result is narrowed to an unsigned type that cannot hold the failure value before it is
    compared with it — `(uint8)HDgetc(aid) == (unsigned)FAIL` — the comparison can never be true: the failure test is dead, a
    read error becomes the data byte 0xFF, and the caller reports success.  No comparison in the library has a call result
    narrowed to fewer bits than its constant operand needs.  The expected count is zero; the matcher is exercised on a built-in
    positive example on every run."""
    prog = ctx.prog
    ex = [(1, ["bin", "==", ["asg", "=", ["mem", ["var", "r", "l", "x *"], "last_byte", "x", "unsigned int", 1],
                                 ["cast", "uint8", ["call", "HDgetc", None, [["var", "aid", "l", "int32"]], "int", 1, 1, []]], 1, "unsigned int"],
               ["cast", "unsigned int", ["int", -1]], "int"])]
    if not _dead_fail_tests(ex, prog.int_bits):
        ctx.unrecognised("DEADFAIL", "DEADFAIL:selftest", "-", "the matcher no longer recognises its built-in positive example")
    n = 0
    for f in prog.lib_funcs():
        nodes = [(s.get("l", f.line), x) for _b, _i, s, x in f.nodes(True)]
        n += 1
        for line, txt, ty, bits in _dead_fail_tests(nodes, prog.int_bits):
            ctx.violated("DEADFAIL", "DEADFAIL:%s" % f.name, f.where(line), "`%s`: the call result is narrowed to %s (%d bits) before it is compared with a value that does not fit: the failure test can never fire" % (txt, ty, bits))
    ctx.holds("DEADFAIL", "DEADFAIL:all", "-", "%d functions scanned: no call result is narrowed below the constant it is compared with" % n, nontrivial=False)
    ctx.floor("DEADFAIL", 500, n, "(functions scanned)")
    return n


def rule_fallback_only_when_absent(ctx):
    """FALLBACK (C16): opening a file through the SD interface first reads the SD metadata (the CDF Vgroup) and, "if that fails",
    interprets the file the old way (DFSD data groups).  The fallback is meant for files that *have* no SD metadata.  A read that
    fails half way through metadata that exists — an I/O error — is a failure of SDstart; reinterpreting the file instead makes
    SDstart succeed with a wrong picture of it, and later reads return wrong data with success.  In hdf_xdr_cdf the call of the
    fallback reader is preceded, in the failure arm, by an exit taken when the primary reader had found its metadata (a test of
    a handle field the primary reader sets only then)."""
    from .codec import ast_walk
    from .facts import calls_in
    prog = ctx.prog
    f = prog.func("hdf_xdr_cdf")
    g = prog.func("hdf_read_xdr_cdf")
    if f is None or g is None or not f.raw.get("ast"):
        ctx.unrecognised("FALLBACK", "FALLBACK:hdf_xdr_cdf", "-", "hdf_xdr_cdf / hdf_read_xdr_cdf not found")
        return 0
    found_fields = {mem_field(x[2])[1] for _b, _i, _s, x in g.nodes(True) if x[0] == "asg" and x[1] == "=" and mem_field(x[2]) and mem_field(x[2])[0] == "NC"}
    sites = []

    def vis(nd, st):
        if nd[0] == "block":
            for i, k in enumerate(nd[1]):
                if k[0] in ("s", "if") and k[1] is not None and any(c[1] == "hdf_read_sds_cdf" for c in calls_in(k[1], True)):
                    sites.append((nd[1][:i], k, list(st)))
        return True

    ast_walk(f.raw["ast"], vis)
    n = 0
    for before, k, st in sites:
        n += 1
        key = "FALLBACK:hdf_xdr_cdf#%d" % n
        line = k[-3] if isinstance(k[-3], int) else f.line
        in_fail_arm = any(s_[0] == "if" and any(c[1] == "hdf_read_xdr_cdf" for c in calls_in(s_[1], True)) for s_ in st)
        guard = False
        for b in before:
            if b[0] == "if" and any(y[0] == "mem" and y[2] in found_fields for y in walk(b[1], True)):
                arm = b[2]
                leaves = arm[1] if arm[0] == "block" else [arm]
                if any(l_[0] in ("goto",) or (l_[0] == "s" and kind(l_[1]) == "ret") or l_[0] == "do" or l_[0] == "block" for l_ in leaves):
                    guard = True
        if not in_fail_arm:
            ctx.unrecognised("FALLBACK", key, f.where(line), "the fallback reader is no longer called in the failure arm of the primary reader")
        elif guard:
            ctx.holds("FALLBACK", key, f.where(line), "the fallback reader runs only when the primary reader had not found its metadata (test of %s)" % "/".join(sorted(found_fields)), nontrivial=True)
        else:
            ctx.violated("FALLBACK", key, f.where(line), "the old-style reader is called after *any* failure of the SD metadata reader, also an I/O error half way through metadata that exists: SDstart succeeds with a wrong picture of the file")
    ctx.floor("FALLBACK", 1, n, "(fallbacks to the old-style reader)")
    return n


def rule_closed_stream_replaced(ctx):
    """STREAMKEPT (C16, C13): HI_CLOSE(file_rec->file) closes the record's stream and sets the field to NULL, whatever the close
    returns.  Where this is done to a record that other file ids still refer to (under a test of `refcount`) and the result is
    tested, the arm taken when the close reports an error does not leave before the field holds a stream again: the earlier
    id is still registered, and the next call through it does fseek(NULL)."""
    from .codec import ast_walk
    from .rules_loops import _terminates, seq_of
    prog = ctx.prog
    n = 0
    for f in prog.lib_funcs():
        ast = f.raw.get("ast")
        if not ast or not f.rel.endswith("hdf/src/hfile.c"):
            continue
        found = []

        def closes_record_stream(e):
            for c in calls_in(e, True):
                if c[1] == "hi_close_stdio" and c[3]:
                    a = strip(c[3][0])
                    if kind(a) == "addr" and mem_field(a[1]) == ("filerec_t", "file"):
                        return True
            return False

        def vis(nd, st):
            if nd[0] == "if" and nd[1] is not None and closes_record_stream(nd[1]):
                shared = any(a[0] == "if" and a[1] is not None and any(x[0] == "mem" and x[2] == "refcount" for x in walk(a[1], True)) for a in st)
                if shared:
                    found.append(nd)
            return True

        ast_walk(ast, vis)
        for k, nd in enumerate(found, 1):
            n += 1
            key = "STREAMKEPT:%s#%d" % (f.name, k)
            line = nd[-3] if isinstance(nd[-3], int) else f.line
            restored = False
            for e, _k in seq_of(nd[2]):
                for x in walk(e, True):
                    if x[0] == "asg" and mem_field(x[2]) == ("filerec_t", "file"):
                        restored = True
            if not _terminates(nd[2]) or restored:
                ctx.holds("STREAMKEPT", key, f.where(line), "the arm taken when closing the shared record's stream fails gives the record a stream again before it leaves", nontrivial=True)
            else:
                ctx.violated("STREAMKEPT", key, f.where(line), "when closing the stream of a record that is still referenced fails, the routine leaves with `file_rec->file` NULL: the file ids that are still out wrap no stream")
    ctx.floor("STREAMKEPT", 1, n, "(tested closes of a shared file record's stream)")
    return n


class _PosAfterTransfer(PathAnalysis):
    """user: 0 = no stdio transfer yet, 1 = transfer made and last_op not assigned since, 2 = assigned"""

    def __init__(self, prog):
        super().__init__(prog)
        self.exits = []

    def init_user(self, func):
        return 0

    def on_stmt(self, func, bid, idx, stmt, env, user):
        for n in walk(stmt["e"], True):
            if n[0] == "call" and n[1] in ("fread", "fwrite"):
                user = 1
            elif n[0] == "asg" and mem_field(n[2]) == ("filerec_t", "last_op"):
                user = 2
        return user

    def on_exit(self, func, bid, retval, env, user):
        self.exits.append((classify_ret(retval, self.fails), user))


def rule_failed_transfer_forgets_position(ctx):
    """POSUNKNOWN (C01, C16): the file record remembers where the stream stands (`f_cur_off`, `last_op`) so that HPseek can skip
    a seek to the place it is already at.  That memory is only as good as the last transfer: when fread/fwrite fails the
    stream stands wherever the partial transfer left it, so every failing exit of a routine that made a stdio transfer has
    assigned `last_op` after it (to "unknown").  Otherwise the next seek to the remembered offset is skipped and the write
    that follows lands somewhere else - in the replay, ten bytes into the element."""
    prog = ctx.prog
    n = 0
    for f in prog.lib_funcs():
        if not f.rel.endswith("hdf/src/hfile.c"):
            continue
        has_xfer = any(x[0] == "call" and x[1] in ("fread", "fwrite") for _b, _i, _s, x in f.nodes(True))
        sets = any(x[0] == "asg" and mem_field(x[2]) == ("filerec_t", "last_op") for _b, _i, _s, x in f.nodes(True))
        if not (has_xfer and sets):
            continue
        n += 1
        key = "POSUNKNOWN:%s" % f.name
        a = _PosAfterTransfer(prog)
        a.fails = fail_values(f, prog)
        a.run(f)
        if any(cls == "fail" and u == 1 for cls, u in a.exits):
            ctx.violated("POSUNKNOWN", key, f.where(), "a failing exit follows the stdio transfer with `last_op` left as it was: the record still claims a known position and the next HPseek to it is skipped")
        else:
            ctx.holds("POSUNKNOWN", key, f.where(), "every failing exit after the stdio transfer has reassigned last_op", nontrivial=True)
    ctx.floor("POSUNKNOWN", 2, n, "(routines that transfer through stdio and maintain the cached position)")
    return n


def rule_dirty_bits_independent(ctx):
    """DIRTYBITS (C01, C02): `file_rec->dirty` is a set of independent bits (the DD list has changed; the end of the file has to
    be extended), and a flush handles every bit that is set.  The tests of different bits are therefore separate `if`s, never
    the arms of one if / else-if: with both bits set the second step - writing out the reserved end of the file - would be
    skipped at Hclose, and an element that was given its space by Hstartwrite and only partly written reads back FAIL."""
    from .codec import ast_walk
    from .facts import int_name
    prog = ctx.prog
    n = 0
    for f in prog.lib_funcs():
        ast = f.raw.get("ast")
        if not ast or not f.rel.endswith("hdf/src/hfile.c"):
            continue
        tests = []

        def bit_of(c):
            for x in walk(c, True):
                if x[0] == "bin" and x[1] == "&":
                    for a_, b_ in ((x[2], x[3]), (x[3], x[2])):
                        if kind(strip(a_)) == "mem" and strip(a_)[2] == "dirty" and int_name(b_):
                            return int_name(b_)
            return None

        def vis(nd, st):
            if nd[0] == "if" and nd[1] is not None and bit_of(nd[1]):
                # is this if the else-arm of another dirty-bit test?
                parent = st[-1] if st else None
                chained = parent is not None and parent[0] == "if" and parent[3] is nd and bit_of(parent[1]) and bit_of(parent[1]) != bit_of(nd[1])
                tests.append((nd, bit_of(nd[1]), chained))
            return True

        ast_walk(ast, vis)
        if len({b for _nd, b, _c in tests}) < 2:
            continue
        for k, (nd, b, chained) in enumerate(tests, 1):
            n += 1
            key = "DIRTYBITS:%s:%s#%d" % (f.name, b, k)
            line = nd[-3] if isinstance(nd[-3], int) else f.line
            if chained:
                ctx.violated("DIRTYBITS", key, f.where(line), "the test of %s is the else-arm of the test of another dirty bit: when both are set this step of the flush is skipped" % b)
            else:
                ctx.holds("DIRTYBITS", key, f.where(line), "the test of %s stands on its own" % b, nontrivial=True)
    ctx.floor("DIRTYBITS", 2, n, "(tests of the file record's dirty bits)")
    return n


def rule_sync_before_cache_off(ctx):
    """SYNCFIRST (C02): HIsync writes the cached descriptors only while `file_rec->cache` is set.  A routine that turns the
    cache off and flushes what is pending therefore calls HIsync *before* it stores the new value of `cache`; in the other
    order the flush is a no-op, the descriptors created while caching was on never reach the file, and Hclose - cache now
    off - does not write them either."""
    from .codec import ast_walk
    prog = ctx.prog
    n = 0
    for f in prog.lib_funcs():
        ast = f.raw.get("ast")
        if not ast or not f.rel.endswith("hdf/src/hfile.c"):
            continue
        order = []
        ast_walk(ast, lambda nd, st: (order.append(nd) if nd[0] in ("s", "if") and nd[1] is not None else None, True)[1])
        stored = None
        sync = None
        for i, nd in enumerate(order):
            for x in walk(nd[1], True):
                if x[0] == "asg" and x[1] == "=" and mem_field(x[2]) == ("filerec_t", "cache") and stored is None and not (is_int(x[3]) and f.name != "Hcache"):
                    stored = i
            if nd[0] == "if" and sync is None:
                pass
            for c in calls_in(nd[1], True):
                if c[1] == "HIsync" and sync is None:
                    sync = i
        if stored is None or sync is None:
            continue
        n += 1
        key = "SYNCFIRST:%s" % f.name
        line = order[sync][-3] if isinstance(order[sync][-3], int) else f.line
        if sync < stored:
            ctx.holds("SYNCFIRST", key, f.where(line), "HIsync is called before the new caching state is stored", nontrivial=True)
        else:
            ctx.violated("SYNCFIRST", key, f.where(line), "file_rec->cache is assigned before HIsync is called: with caching just switched off the flush does nothing and the pending descriptors are never written")
    ctx.floor("SYNCFIRST", 1, n, "(routines that change the caching state and flush)")
    return n
