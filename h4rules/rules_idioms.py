"""Small repository idioms whose violation breaks a property; each rule lists its instances from the source on every run.

GUARDSTORE (C07, C12)  high-water-mark idiom: a store to a field that is directly guarded by `if (E > X->f)` (or `X->f < E`)
                       stores E itself (`X->f = E`), not something derived from the old value.
CACHEKEY  (C11, C15)   the single-file interfaces keep the name of the last file (`Lastfile`) to know whether their cached
                       directories still apply: in every *Iopen routine the name is compared with the new file name *before* it
                       is overwritten, on every path.
KEYCMP    (C01, C13)   the predicate with which an access record looks for another record on the same element
                       (HPcompare_accrec_tagref, behind HIgetspinfo) compares the file identity as well as tag/ref; special-
                       element state is shared only within one file.
NAMECMP   (C08, C07)   look-up by name (Vfind, VSfind, Vfindclass, VSfindclass) compares whole names (strcmp), not a fixed-
                       length prefix: names longer than the historical 64 bytes are legal.
ENCDECSYM (C05)        a coder's encoder and decoder advance a shared cursor field of the coder state by the same expression.
ALLOCLEN  (C19)        in the difference tool, a byte-wise comparison of two buffers covers the number of bytes that were
                       allocated/read for them (same size variable), not an element count.
PAIRAN    (C18, C19)   a loop over the annotations of one kind is bounded by the count ANfileinfo returned for that kind.
"""
import re
from .facts import kind, strip, walk, path, render, int_val, is_int, int_name, calls_in, mem_field, base_var
from .codec import ast_walk, ast_calls, ast_exprs
from .flow import PathAnalysis, fail_values, classify_ret


# ---------------------------------------------------------------------------------------------------------------------
def rule_guarded_store(ctx):
    prog = ctx.prog
    n = 0
    for f in prog.lib_funcs():
        ifs = []

        def vis(nn, st):
            if nn[0] == "if":
                ifs.append(nn)
            return True
        ast_walk(f.raw.get("ast"), vis)
        for nn in ifs:
            c = strip(nn[1])
            if kind(c) != "bin" or c[1] not in (">", "<"):
                continue
            l, r = strip(c[2]), strip(c[3])
            if c[1] == "<":
                l, r = r, l  # normalise to  E > field
            if kind(l) == "asg" and l[1] == "=":
                l = strip(l[2])  # `(v = E) > field`: the compared value is v
            mf = mem_field(r)
            if not mf or kind(l) == "int":
                continue
            then = nn[2]
            stmts = then[1] if then[0] == "block" else [then]
            if not stmts or stmts[0][0] != "s":
                continue
            e0 = strip(stmts[0][1])
            if kind(e0) != "asg" or mem_field(e0[2]) != mf or render(strip(e0[2])) != render(r):
                continue
            n += 1
            key = "GUARDSTORE:%s:%s" % (f.name, mf[1])
            ok = e0[1] == "=" and render(strip(e0[3])) == render(l)
            # `f = (cast)E` is the same value
            if not ok and e0[1] == "=":
                rr = strip(e0[3])
                while kind(rr) == "cast":
                    rr = strip(rr[2])
                ll = l
                while kind(ll) == "cast":
                    ll = strip(ll[2])
                ok = render(rr) == render(ll)
            if ok:
                ctx.holds("GUARDSTORE", key, f.where(e0[4]), "`if (%s) %s`" % (render(c)[:50], render(e0)[:50]), nontrivial=True)
            else:
                ctx.violated("GUARDSTORE", key, f.where(e0[4]), "`%s` is guarded by `%s` but does not store the value it was compared with: the high-water mark no longer equals the largest value seen" % (
                    render(e0)[:60], render(c)[:60]))
    ctx.floor("GUARDSTORE", 4, n, "(stores guarded by a comparison with the stored field)")
    return n


# ---------------------------------------------------------------------------------------------------------------------
class _CacheKey(PathAnalysis):
    def __init__(self, prog, keyvar, namevar):
        super().__init__(prog)
        self.keyvar = keyvar
        self.namevar = namevar
        self.bad = []
        self.cmp_seen = False
        self.store_seen = False

    def init_user(self, func):
        return False  # compared yet?

    def _mentions(self, e, v):
        return any(x[0] == "var" and x[1] == v for x in walk(e, True))

    def on_stmt(self, func, bid, idx, stmt, env, user):
        for x in walk(stmt["e"]):
            # a key buffer that was allocated on this path holds no previous name: nothing to compare with
            if x[0] == "asg" and x[1] == "=" and kind(strip(x[2])) == "var" and strip(x[2])[1] == self.keyvar:
                user = True
        for c in calls_in(stmt["e"]):
            if c[1] in ("strncmp", "strcmp") and len(c[3]) >= 2 and any(self._mentions(a, self.keyvar) for a in c[3][:2]) and any(self._mentions(a, self.namevar) for a in c[3][:2]):
                self.cmp_seen = True
                user = True
            elif c[1] in ("strncpy", "strcpy", "HIstrncpy", "memcpy") and c[3] and self._mentions(c[3][0], self.keyvar) and len(c[3]) > 1 and self._mentions(c[3][1], self.namevar):
                self.store_seen = True
                if not user:
                    self.bad.append(c[5])
        return user


def rule_cache_key(ctx):
    prog = ctx.prog
    n = 0
    for f in prog.lib_funcs():
        if not re.search(r"Iopen$", f.name):
            continue
        if not any(x[0] == "var" and x[1] == "Lastfile" for _b, _i, _s, x in f.nodes(True)):
            continue
        namevar = f.params[0][0] if f.params else "filename"
        a = _CacheKey(prog, "Lastfile", namevar)
        a.fails = fail_values(f, prog)
        a.run(f)
        if not a.store_seen:
            continue
        n += 1
        key = "CACHEKEY:%s" % f.name
        if not a.cmp_seen:
            ctx.violated("CACHEKEY", key, f.where(), "%s records the file name in Lastfile but never compares it with the new name: cached directories of another file would be reused" % f.name)
        elif a.bad:
            ctx.violated("CACHEKEY", key, f.where(a.bad[0]), "Lastfile is overwritten with the new file name (line %d) before it has been compared with it: the comparison then always says 'same file' and the cached "
                         "directories of the previous file are kept" % a.bad[0])
        else:
            ctx.holds("CACHEKEY", key, f.where(), "Lastfile is compared with `%s` before it is overwritten, on every path" % namevar, nontrivial=True)
    ctx.floor("CACHEKEY", 3, n, "(single-file-interface open routines that remember the last file name)")
    return n


# ---------------------------------------------------------------------------------------------------------------------
def rule_key_compare(ctx):
    prog = ctx.prog
    f = prog.func("HPcompare_accrec_tagref")
    if f is None:
        ctx.unrecognised("KEYCMP", "KEYCMP:HPcompare_accrec_tagref", "-", "HPcompare_accrec_tagref not found")
        return 0
    fields = set()
    for _b, _i, _s, x in f.nodes(True):
        if x[0] == "bin" and x[1] in ("==", "!="):
            l, r = mem_field(x[2]), mem_field(x[3])
            if l and r and l[1] == r[1] and base_var(x[2]) != base_var(x[3]):
                fields.add(l[1])
    calls = {c[1] for _b, _i, _s, c in f.calls()}
    if "file_id" in fields:
        ctx.holds("KEYCMP", "KEYCMP:HPcompare_accrec_tagref", f.where(), "compares %s of the two records%s" % (", ".join(sorted(fields)), " and their tag/ref (HTPinquire)" if "HTPinquire" in calls else ""), nontrivial=True)
    else:
        ctx.violated("KEYCMP", "KEYCMP:HPcompare_accrec_tagref", f.where(), "the two access records are matched on tag/ref without comparing `file_id` (compared fields: %s): an element of another open file "
                     "with the same tag/ref would share its special-element state" % (", ".join(sorted(fields)) or "none"))
    return 1


# ---------------------------------------------------------------------------------------------------------------------
NAME_LOOKUPS = ("Vfind", "VSfind", "Vfindclass", "VSfindclass")


def rule_name_compare(ctx):
    prog = ctx.prog
    n = 0
    for nm in NAME_LOOKUPS:
        f = prog.func(nm)
        if f is None:
            ctx.unrecognised("NAMECMP", "NAMECMP:%s" % nm, "-", "%s not found" % nm)
            continue
        cmps = [c for _b, _i, _s, c in f.calls() if c[1] in ("strcmp", "strncmp", "memcmp", "HDstrcmp")]
        if not cmps:
            ctx.unrecognised("NAMECMP", "NAMECMP:%s" % nm, f.where(), "no string comparison found")
            continue
        n += len(cmps)
        bad = [c for c in cmps if c[1] in ("strncmp", "memcmp") and len(c[3]) >= 3 and is_int(c[3][2])]
        if bad:
            ctx.violated("NAMECMP", "NAMECMP:%s" % nm, f.where(bad[0][5]), "%s compares only the first %d bytes of the name: two objects whose names share that prefix are confused" % (nm, int_val(bad[0][3][2])))
        else:
            ctx.holds("NAMECMP", "NAMECMP:%s" % nm, f.where(), "%d comparison(s) over the whole name" % len(cmps), nontrivial=True)
    ctx.floor("NAMECMP", 4, n, "(name comparisons in the look-up routines)")
    return n


# ---------------------------------------------------------------------------------------------------------------------
def rule_encdec_symmetry(ctx):
    prog = ctx.prog
    n = 0
    for coder in ("skphuff", "rle", "nbit", "deflate"):
        enc = prog.func("HCIc%s_encode" % coder)
        dec = prog.func("HCIc%s_decode" % coder)
        if enc is None or dec is None:
            continue

        def cursor_updates(f):
            out = {}
            for _b, _i, _s, x in f.nodes(True):
                if x[0] == "asg" and x[1] == "=":
                    mf = mem_field(x[2])
                    if mf and "coder" in mf[0] and any(y[0] == "mem" and y[2] == mf[1] for y in walk(x[3], True)):
                        out.setdefault(mf[1], set()).add(render(strip(x[3])))
            return out
        ue, ud = cursor_updates(enc), cursor_updates(dec)
        for fld in sorted(set(ue) & set(ud)):
            n += 1
            key = "ENCDECSYM:%s:%s" % (coder, fld)
            if ue[fld] == ud[fld]:
                ctx.holds("ENCDECSYM", key, dec.where(), "encoder and decoder advance `%s` by %s" % (fld, sorted(ue[fld])[0][:60]), nontrivial=True)
            else:
                ctx.violated("ENCDECSYM", key, dec.where(), "the %s encoder advances `%s` by %s, the decoder by %s: what one writes the other reads back with a different model state" % (
                    coder, fld, sorted(ue[fld])[0][:50], sorted(ud[fld])[0][:50]))
    ctx.floor("ENCDECSYM", 1, n, "(cursor fields advanced by both the encoder and the decoder of a coder)")
    return n


# ---------------------------------------------------------------------------------------------------------------------
def rule_alloc_len(ctx):
    prog = ctx.prog
    n = 0
    for f in prog.funcs:
        if "mfhdf/hdiff/" not in f.rel:
            continue
        alloc = {}
        for _b, _i, _s, x in f.nodes(True):
            if x[0] == "asg" and x[1] == "=" and kind(strip(x[2])) == "var":
                r = strip(x[3])
                while kind(r) == "cast":
                    r = strip(r[2])
                if kind(r) == "call" and r[1] in ("malloc", "calloc") and r[3]:
                    a = strip(r[3][0])
                    while kind(a) == "cast":
                        a = strip(a[2])
                    if kind(a) == "var":
                        alloc[strip(x[2])[1]] = a[1]
        if not alloc:
            continue
        for _b, _i, _s, c in f.calls():
            if c[1] != "memcmp" or len(c[3]) < 3:
                continue
            b1, b2 = base_var(c[3][0]), base_var(c[3][1])
            if b1 not in alloc or b2 not in alloc:
                continue
            ln = strip(c[3][2])
            while kind(ln) == "cast":
                ln = strip(ln[2])
            n += 1
            key = "ALLOCLEN:%s:%s" % (f.name, b1)
            if kind(ln) == "var" and ln[1] == alloc[b1] == alloc[b2]:
                ctx.holds("ALLOCLEN", key, f.where(c[5]), "memcmp over `%s` bytes, the size both buffers were allocated with" % ln[1], nontrivial=True)
            else:
                ctx.violated("ALLOCLEN", key, f.where(c[5]), "memcmp(%s, %s, %s) does not cover the %s / %s bytes the buffers hold: differences beyond that length are never looked at" % (
                    b1, b2, render(ln)[:30], alloc[b1], alloc[b2]))
    ctx.floor("ALLOCLEN", 1, n, "(byte-wise buffer comparisons in hdiff)")
    return n


# ---------------------------------------------------------------------------------------------------------------------
AN_KIND_BY_POS = {1: "AN_FILE_LABEL", 2: "AN_FILE_DESC", 3: "AN_DATA_LABEL", 4: "AN_DATA_DESC"}
AN_KIND_VAL = {"AN_DATA_LABEL": 0, "AN_DATA_DESC": 1, "AN_FILE_LABEL": 2, "AN_FILE_DESC": 3}


def rule_pair_an(ctx):
    prog = ctx.prog
    n = 0
    n_obj = 0
    for f in prog.funcs:
        if not any(d in f.rel for d in ("mfhdf/hrepack/", "mfhdf/hdp/", "mfhdf/hdiff/")):
            continue
        # count variables filled by ANfileinfo(an, &a, &b, &c, &d)
        kinds = {}
        for _b, _i, _s, c in f.calls():
            if c[1] == "ANfileinfo" and len(c[3]) >= 5:
                for pos in (1, 2, 3, 4):
                    a = strip(c[3][pos])
                    if kind(a) == "addr" and kind(strip(a[1])) == "var":
                        kinds[strip(a[1])[1]] = AN_KIND_BY_POS[pos]
        # per-object counts: v = ANnumann(an, type, tag, ref); lists filled by ANannlist
        numann = set()
        lists = set()
        for _b, _i, _s, x in f.nodes(True):
            if x[0] == "asg" and x[1] == "=" and kind(strip(x[2])) == "var":
                r = strip(x[3])
                if kind(r) == "call" and r[1] == "ANnumann":
                    numann.add(strip(x[2])[1])
            if x[0] == "call" and x[1] == "ANannlist" and len(x[3]) >= 5 and base_var(x[3][4]):
                lists.add(base_var(x[3][4]))
        if not kinds and not numann:
            continue
        loops = []

        def vis(nn, st):
            if nn[0] == "for":
                loops.append(nn)
            return True
        ast_walk(f.raw.get("ast"), vis)
        for lp in loops:
            c = strip(lp[2]) if lp[2] else None
            if c is None or kind(c) != "bin" or c[1] not in ("<", "<=") or kind(strip(c[2])) != "var" or kind(strip(c[3])) != "var":
                continue
            iv, bv = strip(c[2])[1], strip(c[3])[1]
            if bv in numann:
                # the count of one object's annotations bounds positions in that object's list (ANannlist), never the
                # file-wide positions ANselect takes
                n_obj += 1
                key = "PAIRAN:%s:%s" % (f.name, bv)
                sel = [x for x in ast_calls(lp[4]) if x[1] == "ANselect" and len(x[3]) >= 3 and kind(strip(x[3][1])) == "var" and strip(x[3][1])[1] == iv]
                idx = [x for e in ast_exprs(lp[4]) for x in walk(e, True) if x[0] == "idx" and base_var(x[1]) in lists and kind(strip(x[2])) == "var" and strip(x[2])[1] == iv]
                used = [x for x in ast_calls(lp[4]) if x[1] in ("ANreadann", "ANannlen", "ANwriteann", "ANget_tagref", "ANid2tagref")]
                if sel and not used:
                    ctx.excepted("PAIRAN", key, f.where(sel[0][5]), "the annotation selected by position is only opened and closed, nothing is read from it (hdiff does not compare annotations)")
                elif sel:
                    ctx.violated("PAIRAN", key, f.where(sel[0][5]), "the loop runs over the `%s` annotations of one object (ANnumann) but selects by file-wide position (ANselect(.., %s, ..)): "
                                 "it handles the first annotations of the file, not those of the object" % (bv, iv))
                elif idx:
                    ctx.holds("PAIRAN", key, f.where(), "loop over `%s` indexes the list ANannlist filled for the same object" % bv, nontrivial=True)
                continue
            if bv not in kinds:
                continue
            sel = [x for x in ast_calls(lp[4]) if x[1] == "ANselect" and len(x[3]) >= 3 and kind(strip(x[3][1])) == "var" and strip(x[3][1])[1] == iv and is_int(x[3][2])]
            if not sel:
                continue
            n += 1
            key = "PAIRAN:%s:%s" % (f.name, bv)
            want = AN_KIND_VAL[kinds[bv]]
            bad = [x for x in sel if int_val(x[3][2]) != want]
            if bad:
                ctx.violated("PAIRAN", key, f.where(bad[0][5]), "the loop runs up to `%s` (the number of %s annotations) but selects annotations of another kind (%s): some are skipped or the selection fails" % (
                    bv, kinds[bv], render(bad[0][3][2])))
            else:
                ctx.holds("PAIRAN", key, f.where(), "loop over `%s` selects %s annotations" % (bv, kinds[bv]), nontrivial=True)
    ctx.floor("PAIRAN", 4, n, "(annotation loops bounded by an ANfileinfo count)")
    ctx.floor("PAIRAN", 1, n_obj, "(annotation loops bounded by an ANnumann count)")
    return n


# ---------------------------------------------------------------------------------------------------------------------
def rule_window_test(ctx):
    """WINDOW (C05): a buffer that caches the N bytes starting at `base` covers the half-open range [base, base + N).  A test
    of the shape `p < base || p OP base + N` (position outside the window: refill) must use `>=`; its negation
    `p >= base && p OP base + N` must use `<`.  With `>` / `<=` the position base + N is served from a buffer that does not hold it."""
    prog = ctx.prog
    n = 0
    for f in prog.lib_funcs():
        for bid, i, s, x in f.nodes(True):
            if not (x[0] == "bin" and x[1] in ("||", "&&")):
                continue
            l, r = strip(x[2]), strip(x[3])
            if not (kind(l) == "bin" and kind(r) == "bin" and l[1] in ("<", "<=", ">", ">=") and r[1] in ("<", "<=", ">", ">=")):
                continue
            if render(strip(l[2])) != render(strip(r[2])):
                continue
            base = render(strip(l[3]))
            hi = strip(r[3])
            if not (kind(hi) == "bin" and hi[1] == "+" and base in (render(strip(hi[2])), render(strip(hi[3])))):
                continue
            n += 1
            key = "WINDOW:%s:%s" % (f.name, render(strip(l[2]))[:30])
            want = ("<", ">=") if x[1] == "||" else (">=", "<")
            if (l[1], r[1]) == want:
                ctx.holds("WINDOW", key, f.where(s.get("l")), "`%s` tests the half-open window [%s, %s)" % (render(x)[:90], base, render(hi)[:40]), nontrivial=True)
            else:
                ctx.violated("WINDOW", key, f.where(s.get("l")), "`%s` does not test the half-open window [%s, %s): it uses `%s`/`%s` where `%s`/`%s` is required, so one boundary position is served from "
                             "a buffer that does not hold it (or is refetched needlessly while dirty data is pending)" % (render(x)[:100], base, render(hi)[:40], l[1], r[1], want[0], want[1]))
    ctx.floor("WINDOW", 1, n, "(window membership tests)")
    return n


# ---------------------------------------------------------------------------------------------------------------------
OPTION_SIBLINGS = [("hrepack_addcomp", "hrepack_addchunk", {"all_comp": "all_X", "all_chunk": "all_X"})]


def rule_option_siblings(ctx):
    """OPTSIB (C18): the -t and -c option handlers of hrepack accept the same object lists (a comma separated list of names, or
    '*' alone).  The tests they apply to the list — every `if` that mentions the '*'-flag or the number of names — must be the
    same up to the comp/chunk renaming; a handler with a stricter or looser test rejects or accepts lists its sibling treats
    the other way."""
    prog = ctx.prog
    n = 0
    for a, b, ren in OPTION_SIBLINGS:
        fa, fb = prog.func(a), prog.func(b)
        key = "OPTSIB:%s/%s" % (a, b)
        if fa is None or fb is None:
            ctx.unrecognised("OPTSIB", key, "-", "option handler not found")
            continue

        def conds(f):
            out = []

            def vis(nn, st):
                if nn[0] == "if":
                    r = render(strip(nn[1]))
                    for k, v in ren.items():
                        r = r.replace(k, v)
                    if "all_X" in r or re.search(r"\bi [<>]", r):
                        out.append((r, nn[4] if len(nn) > 4 else f.line))
                return True
            ast_walk(f.raw.get("ast"), vis)
            return out
        ca, cb = conds(fa), conds(fb)
        n += len(ca)
        if [c for c, _ in ca] == [c for c, _ in cb]:
            ctx.holds("OPTSIB", key, fb.where(), "%d list tests, identical up to renaming: %s" % (len(ca), "; ".join(c for c, _ in ca)[:120]), nontrivial=True)
        else:
            d = [(x, y) for x, y in zip(ca, cb) if x[0] != y[0]]
            if d:
                (x, lx), (y, ly) = d[0]
                ctx.violated("OPTSIB", key, fb.where(ly), "%s tests `%s` where %s tests `%s`: one of the two handlers rejects (or accepts) an object list the other treats the opposite way" % (b, y, a, x))
            else:
                ctx.violated("OPTSIB", key, fb.where(), "%s applies %d tests to the object list, %s applies %d" % (a, len(ca), b, len(cb)))
    ctx.floor("OPTSIB", 2, n, "(object-list tests in the option handlers)")
    return n


# ---------------------------------------------------------------------------------------------------------------------
GR_COUNT_SINKS = {"array_diff": (0, 2), "dumpfull": (3, 2)}  # callee -> (buffer argument, count argument)


def _dep_closure(f):
    """flow-insensitive 'value depends on' relation over the local variables of f (assignments and compound assignments)"""
    dep = {}
    for _b, _i, _s, x in f.nodes(True):
        if x[0] == "asg" and kind(strip(x[2])) == "var":
            v = strip(x[2])[1]
            dep.setdefault(v, set()).update(y[1] for y in walk(x[3], True) if y[0] == "var")
        elif x[0] == "decl":
            for d in x[1]:
                if d[2] is not None:
                    dep.setdefault(d[0], set()).update(y[1] for y in walk(d[2], True) if y[0] == "var")
    changed = True
    while changed:
        changed = False
        for v, ds in dep.items():
            new = set(ds)
            for d in list(ds):
                new |= dep.get(d, set())
            if new != ds:
                dep[v] = new
                changed = True
    return dep


def rule_gr_component_count(ctx):
    """GRCOMP (C19, C18): an image holds xdim * ydim * ncomp values.  In every tool function that reads an image with
    GRreadimage, the size of the buffer it reads into and every element count handed on with that buffer (array_diff, dumpfull)
    depends on the number of components — the one GRgetiminfo returned in the same function, or the function's own ncomp
    parameter.  A count without that factor covers only the first 1/ncomp of the values."""
    prog = ctx.prog
    n = 0
    for f in prog.funcs:
        if not any(d in f.rel for d in ("mfhdf/hrepack/", "mfhdf/hdp/", "mfhdf/hdiff/")):
            continue
        bufs = set()
        ncv = set()
        for _b, _i, _s, c in f.calls():
            if c[1] == "GRreadimage" and len(c[3]) >= 5 and base_var(c[3][4]):
                bufs.add(base_var(c[3][4]))
            if c[1] == "GRgetiminfo" and len(c[3]) >= 3 and kind(strip(c[3][2])) == "addr" and base_var(c[3][2]):
                ncv.add(base_var(c[3][2]))
        if not bufs:
            continue
        if not ncv:
            ncv = {p[0] for p in f.params if re.fullmatch(r"n_?comps?\d?", p[0])}
        if not ncv:
            ctx.unrecognised("GRCOMP", "GRCOMP:%s" % f.name, f.where(), "reads an image but the number of components is neither queried nor a parameter")
            continue
        dep = _dep_closure(f)
        ordn = 0

        def depends(e):
            vs = {y[1] for y in walk(e, True) if y[0] == "var"}
            allv = set(vs)
            for v in vs:
                allv |= dep.get(v, set())
            return bool(allv & ncv)
        for _b, _i, s, x in f.nodes(True):
            sink = None
            if x[0] == "asg" and x[1] == "=" and kind(strip(x[2])) == "var" and strip(x[2])[1] in bufs:
                r = strip(x[3])
                if kind(r) == "call" and r[1] in ("malloc", "calloc") and r[3]:
                    sink = ("size of `%s`" % strip(x[2])[1], r[3][0] if r[1] == "malloc" else ["bin", "*", r[3][0], r[3][1]], x[4])
            elif x[0] == "call" and x[1] in GR_COUNT_SINKS:
                bi, ci = GR_COUNT_SINKS[x[1]]
                if len(x[3]) > max(bi, ci) and base_var(x[3][bi]) in bufs:
                    sink = ("count given to %s" % x[1], x[3][ci], x[5])
            if sink is None:
                continue
            n += 1
            ordn += 1
            what, e, line = sink
            key = "GRCOMP:%s:%s#%d" % (f.name, what.split()[0], ordn)
            if depends(e):
                ctx.holds("GRCOMP", key, f.where(line), "%s `%s` depends on %s" % (what, render(e)[:50], "/".join(sorted(ncv))), nontrivial=True)
            else:
                ctx.violated("GRCOMP", key, f.where(line), "the %s, `%s`, does not depend on the number of components (%s): only the first 1/ncomp of the image's values is covered" % (
                    what, render(e)[:60], "/".join(sorted(ncv))))
    ctx.floor("GRCOMP", 4, n, "(buffer sizes and element counts of images read by the tools)")
    return n


# ---------------------------------------------------------------------------------------------------------------------
def _paired(c):
    """does condition c compare a quantity of object 1 with the same quantity of object 2 (`x1 != x2`, strcmp(n1, n2))?"""
    for x in walk(c, True):
        a = b = None
        if x[0] == "bin" and x[1] in ("!=", "=="):
            a, b = render(strip(x[2])), render(strip(x[3]))
        elif x[0] == "call" and x[1] in ("strcmp", "strncmp", "memcmp") and len(x[3]) >= 2:
            a, b = render(strip(x[3][0])), render(strip(x[3][1]))
        if a and b and a != b and re.sub(r"1", "2", a) == b:
            return True
    return False


def rule_reported_difference_counted(ctx):
    """DIFFCOUNT (C19): hdiff's exit status is 1 when the sum of the counts its comparison routines return is not zero.  In
    every comparison routine that keeps such a count (`nfound`), a branch that is taken because a quantity of the first object
    differs from the same quantity of the second (`x1 != x2`, or a memcmp/strcmp result) and prints a report must add to the
    count or return a non-zero count — unless it declares the objects not comparable (`compare = 0` or leaving through the `do_nothing` label; by design not a
    difference) or only warns.  A branch that prints 'Different ...' and leaves the count alone makes hdiff print a
    difference and exit 0."""
    prog = ctx.prog
    n = 0
    for f in prog.funcs:
        if "mfhdf/hdiff/" not in f.rel:
            continue
        if not any(x[0] == "var" and x[1] == "nfound" for _b, _i, _s, x in f.nodes(True)):
            continue
        cmpvars = set()
        for _b, _i, _s, x in f.nodes(True):
            if x[0] == "asg" and x[1] == "=" and kind(strip(x[2])) == "var":
                r = strip(x[3])
                if kind(r) == "call" and r[1] in ("memcmp", "strcmp", "strncmp"):
                    cmpvars.add(strip(x[2])[1])
        found = []

        def vis(nn, st):
            if nn[0] == "if":
                c = strip(nn[1])
                on_cmp = kind(c) == "bin" and c[1] == "!=" and kind(strip(c[2])) == "var" and strip(c[2])[1] in cmpvars and is_int(c[3], 0)
                if _paired(c) or on_cmp:
                    found.append(nn)
            return True
        ast_walk(f.raw.get("ast"), vis)
        ordn = 0
        for nn in found:
            then = nn[2]
            msgs = [strip(x[3][0])[1] for x in ast_calls(then) if x[1] == "printf" and x[3] and kind(strip(x[3][0])) == "str"]
            if not msgs:
                continue
            ordn += 1
            n += 1
            key = "DIFFCOUNT:%s#%d" % (f.name, ordn)
            line = nn[4] if len(nn) > 4 else f.line
            upd = any((x[0] == "asg" and base_var(x[2]) == "nfound") or (x[0] == "incdec" and base_var(x[3]) == "nfound") for e in ast_exprs(then) for x in walk(e, True))
            retnz = any(x[0] == "ret" and x[1] is not None and is_int(x[1]) and int_val(x[1]) != 0 for e in ast_exprs(then) for x in walk(e, True))
            notcmp = any(x[0] == "asg" and base_var(x[2]) == "compare" and is_int(x[3], 0) for e in ast_exprs(then) for x in walk(e, True))
            gotos = []

            def gv(g, st):
                if g[0] == "goto":
                    gotos.append(g[1])
                return True
            ast_walk(then, gv)
            notcmp = notcmp or "do_nothing" in gotos
            first = next((m for m in msgs if m.strip(" -\n")), msgs[0]).strip()
            if upd or retnz:
                ctx.holds("DIFFCOUNT", key, f.where(line), "`%s` is counted" % first[:50], nontrivial=True)
            elif notcmp:
                ctx.holds("DIFFCOUNT", key, f.where(line), "`%s`: objects declared not comparable" % first[:50], nontrivial=False)
            elif first.startswith("Warning"):
                ctx.holds("DIFFCOUNT", key, f.where(line), "`%s`: a warning, the comparison goes on" % first[:50], nontrivial=False)
            else:
                ctx.violated("DIFFCOUNT", key, f.where(line), "the branch taken when `%s` prints `%s` but neither adds to nfound nor returns a non-zero count: hdiff prints a difference and exits 0" % (
                    render(strip(nn[1]))[:70], first[:50]))
    ctx.floor("DIFFCOUNT", 4, n, "(difference-reporting branches in hdiff's comparison routines)")
    return n


# ---------------------------------------------------------------------------------------------------------------------
def rule_dump_record_major(ctx):
    """RECMAJOR (C19): hdp's Vdata dump walks the buffer VSread filled record by record, field by field.  That is the layout
    VSread produces for FULL_INTERLACE only; asking for the interlace the Vdata is stored with gives a field-major buffer for
    NO_INTERLACE Vdatas and the dump then prints values under the wrong record and field."""
    prog = ctx.prog
    n = 0
    for f in prog.funcs:
        if "mfhdf/hdp/" not in f.rel:
            continue
        for _b, _i, _s, c in f.calls():
            if c[1] != "VSread" or len(c[3]) < 4:
                continue
            n += 1
            key = "RECMAJOR:%s#%d" % (f.name, n)
            if is_int(c[3][3], 0):
                ctx.holds("RECMAJOR", key, f.where(c[5]), "VSread(.., FULL_INTERLACE)", nontrivial=True)
            else:
                ctx.violated("RECMAJOR", key, f.where(c[5]), "VSread is asked for interlace `%s`, not FULL_INTERLACE, but the dump loop walks the buffer record by record: a NO_INTERLACE Vdata is printed "
                             "with its values under the wrong records and fields" % render(c[3][3])[:30])
    ctx.floor("RECMAJOR", 2, n, "(VSread calls in hdp)")
    return n


# ---------------------------------------------------------------------------------------------------------------------
def _status_bool_tests(f):
    """(variable, line, negated) for every truth test of a local that is only ever assigned the constants SUCCEED and FAIL"""
    vals = {}
    other = set()
    for _b, _i, _s, x in f.nodes(True):
        if x[0] == "asg" and kind(strip(x[2])) == "var":
            v = strip(x[2])[1]
            if x[1] == "=" and int_name(x[3]) in ("SUCCEED", "FAIL"):
                vals.setdefault(v, set()).add(int_name(x[3]))
            else:
                other.add(v)
        elif x[0] == "decl":
            for d in x[1]:
                if d[2] is not None:
                    if int_name(d[2]) in ("SUCCEED", "FAIL"):
                        vals.setdefault(d[0], set()).add(int_name(d[2]))
                    else:
                        other.add(d[0])
        elif x[0] == "addr" and kind(strip(x[1])) == "var":
            other.add(strip(x[1])[1])
    cands = {v for v, s in vals.items() if v not in other and s == {"SUCCEED", "FAIL"}}
    out = []
    if not cands:
        return cands, out

    def vis(nn, st):
        if nn[0] in ("if", "while"):
            def truth(c):
                c = strip(c)
                if kind(c) == "var" and c[1] in cands:
                    out.append((c[1], nn[4] if nn[0] == "if" else nn[3], False))
                elif kind(c) == "un" and c[1] == "!" and kind(strip(c[2])) == "var" and strip(c[2])[1] in cands:
                    out.append((strip(c[2])[1], nn[4] if nn[0] == "if" else nn[3], True))
                elif kind(c) == "bin" and c[1] in ("&&", "||"):
                    truth(c[2])
                    truth(c[3])
            truth(nn[1])
        return True
    ast_walk(f.raw.get("ast"), vis)
    return cands, out


def rule_status_as_boolean(ctx):
    """STATUSBOOL (C15): SUCCEED is 0 and FAIL is -1.  A local that is only ever assigned these two constants is a status, and
    testing it as a truth value (`if (v)`) is true exactly for FAIL: the branch meant for 'yes' runs on 'no'.  Such a variable
    must be compared with SUCCEED or FAIL explicitly."""
    prog = ctx.prog
    n = 0
    for f in prog.lib_funcs():
        cands, tests = _status_bool_tests(f)
        n += len(cands)
        for v, line, neg in tests:
            ctx.violated("STATUSBOOL", "STATUSBOOL:%s:%s" % (f.name, v), f.where(line), "`%s` is only ever set to SUCCEED (0) or FAIL (-1) and is tested as `if (%s%s)`: the test is true exactly when it is %s" % (
                v, "!" if neg else "", v, "SUCCEED" if neg else "FAIL"))
        for v in sorted(cands - {t[0] for t in tests}):
            ctx.holds("STATUSBOOL", "STATUSBOOL:%s:%s" % (f.name, v), f.where(), "`%s` is compared with SUCCEED/FAIL explicitly wherever it is tested" % v, nontrivial=False)
    ctx.floor("STATUSBOOL", 20, n, "(locals that only take the values SUCCEED and FAIL)")
    return n


# ---------------------------------------------------------------------------------------------------------------------
def rule_nc_name_equal(ctx):
    """NCNAMEEQ (C10, C15): names in the SD/netCDF layer are counted strings (NC_string: len, values), not NUL-terminated ones.
    Two names are equal when the lengths are equal and the bytes agree.  Every `strncmp(x, s->values, n) == 0` that decides
    a look-up by name (attribute, dimension, variable) is therefore conjoined with `<length of x> == s->len`; without the
    length test the look-up is a prefix match and `units` finds `units_si`."""
    prog = ctx.prog
    n = 0
    for f in prog.lib_funcs():
        if not f.rel.startswith("mfhdf/src/"):
            continue
        conds = []

        def vis(nn, st):
            if nn[0] in ("if", "while"):
                conds.append((nn[1], nn[4] if nn[0] == "if" else nn[3]))
            return True
        ast_walk(f.raw.get("ast"), vis)
        ordn = 0
        for c, line in conds:
            cmps = [x for x in walk(c, True) if x[0] == "call" and x[1] == "strncmp" and len(x[3]) >= 3 and not is_int(x[3][2])
                    and any(y[0] == "mem" and y[2] == "values" for a in x[3][:2] for y in walk(a, True))]
            for x in cmps:
                ordn += 1
                n += 1
                key = "NCNAMEEQ:%s#%d" % (f.name, ordn)
                # the counted string whose bytes are compared
                sbases = [render(strip(y[1])) for a in x[3][:2] for y in walk(a, True) if y[0] == "mem" and y[2] == "values"]
                sbase = sbases[-1]
                lens = [y for y in walk(c, True) if y[0] == "bin" and y[1] == "==" and any(
                    z[0] == "mem" and z[2] == "len" and render(strip(z[1])) in sbases for side in (y[2], y[3]) for z in walk(side, True))]
                if lens:
                    ctx.holds("NCNAMEEQ", key, f.where(line), "`%s` and the bytes are compared" % render(lens[0])[:60], nontrivial=True)
                else:
                    ctx.violated("NCNAMEEQ", key, f.where(line), "`%s` decides a look-up by name without comparing the length with `%s->len`: the look-up is a prefix match" % (render(x)[:70], sbase))
    ctx.floor("NCNAMEEQ", 8, n, "(byte comparisons against counted names in the SD layer)")
    return n


# ---------------------------------------------------------------------------------------------------------------------
class _SlotFill(PathAnalysis):
    def __init__(self, prog, base):
        super().__init__(prog)
        self.base = base
        self.exits = []

    def init_user(self, func):
        return frozenset()

    def on_stmt(self, func, bid, idx, stmt, env, user):
        u = None
        for x in walk(stmt["e"], True):
            if x[0] == "asg" and x[1] == "=":
                t = strip(x[2])
                if kind(t) == "mem" and kind(strip(t[1])) == "idx" and render(strip(strip(t[1])[1])) == self.base:
                    u = set(user) if u is None else u
                    u.add(t[2])
        return frozenset(u) if u is not None else user

    def on_exit(self, func, bid, retval, env, user):
        self.exits.append((classify_ret(retval, self.fails), user))


def _slot_bases(f):
    """array expressions A such that f stores at least three different fields of A[i]"""
    per = {}
    for _b, _i, _s, x in f.nodes(True):
        if x[0] == "asg" and x[1] == "=":
            t = strip(x[2])
            if kind(t) == "mem" and kind(strip(t[1])) == "idx":
                per.setdefault(render(strip(strip(t[1])[1])), set()).add(t[2])
    return {b: fl for b, fl in per.items() if len(fl) >= 3}


def rule_slot_filled_alike(ctx, files=("vsfld.c", "vio.c", "vgp.c", "vattr.c")):
    """SLOTFILL (C07, C08): a table entry `A[i]` that a routine fills field by field (a field definition of a Vdata: name, type,
    size, order) is filled completely on every non-failing path — also on the path that re-uses an existing entry (a
    redefinition).  A field stored only on the 'new entry' path leaves a redefined entry with the new type and the old size."""
    prog = ctx.prog
    n = 0
    for f in prog.lib_funcs():
        if not f.rel.endswith(tuple(files)):
            continue
        for base, fields in sorted(_slot_bases(f).items()):
            a = _SlotFill(prog, base)
            a.fails = fail_values(f, prog)
            try:
                a.run(f)
            except Exception:
                continue
            sets = [u for cls, u in a.exits if cls != "fail" and u]
            if not sets:
                continue
            n += 1
            key = "SLOTFILL:%s:%s" % (f.name, base[:30])
            inter = frozenset.intersection(*sets)
            union = frozenset.union(*sets)
            if inter == union:
                ctx.holds("SLOTFILL", key, f.where(), "every non-failing path that fills an entry of `%s` stores %s" % (base, ", ".join(sorted(union))), nontrivial=len(sets) > 1)
            else:
                ctx.violated("SLOTFILL", key, f.where(), "an entry of `%s` is filled field by field, but `%s` is stored on some non-failing paths only (others store just %s): "
                             "an entry that is re-used keeps a stale value in that field" % (base, ", ".join(sorted(union - inter)), ", ".join(sorted(inter))))
    ctx.floor("SLOTFILL", 2, n, "(routines that fill a table entry field by field)")
    return n


# ---------------------------------------------------------------------------------------------------------------------
SNAPSHOT_FIELDS = {("vs_instance_struct", "nvertices"): ("vdata_desc", "nvertices")}


def _snapshot_reads(exprs, rec, fld):
    """occurrences of <rec>.<fld> that are read (anything but the target of a plain assignment)"""
    out = []
    for e in exprs:
        targets = set()
        for x in walk(e, True):
            if x[0] == "asg" and x[1] == "=":
                t = strip(x[2])
                if kind(t) == "mem" and (t[3], t[2]) == (rec, fld):
                    targets.add(id(t))
        for x in walk(e, True):
            if x[0] == "mem" and (x[3], x[2]) == (rec, fld) and id(x) not in targets:
                out.append(x)
    return out


def rule_snapshot_not_consulted(ctx):
    """SNAPSHOT (C07): the per-file instance node of a Vdata carries `nvertices`, the record count *when the node was set up*; the
    count that VSwrite keeps up to date is the one in the Vdata record itself.  No decision may read the snapshot: a guard such as
    'records have been written, the interlace can no longer change' that looks at it stays open for a Vdata that was empty when
    attached.  (Expected count 0; the matcher is run on a built-in positive example on every check.)"""
    prog = ctx.prog
    n = 0
    for (rec, fld), (live_rec, live_fld) in SNAPSHOT_FIELDS.items():
        ex = ["bin", ">", ["mem", ["var", "w", "l", "vsinstance_t *"], fld, rec, "int32", True], ["int", 0], "int"]
        if len(_snapshot_reads([ex], rec, fld)) != 1:
            ctx.unrecognised("SNAPSHOT", "SNAPSHOT:selftest", "-", "the matcher no longer recognises its built-in positive example")
        stores = 0
        for f in prog.lib_funcs():
            exprs = [s["e"] for _b, _i, s in f.stmts()]
            stores += sum(1 for e in exprs for x in walk(e, True) if x[0] == "asg" and kind(strip(x[2])) == "mem" and (strip(x[2])[3], strip(x[2])[2]) == (rec, fld))
            reads = _snapshot_reads(exprs, rec, fld)
            # terminator conditions are separate from the statements
            for b in f.blocks.values():
                t = b.get("term")
                if t and t.get("cond") is not None:
                    reads += _snapshot_reads([t["cond"]], rec, fld)
            if reads:
                ctx.violated("SNAPSHOT", "SNAPSHOT:%s:%s.%s" % (f.name, rec, fld), f.where(), "%s reads `%s.%s`, the count taken when the instance node was set up, where the live count is `%s.%s`: "
                             "the test does not see records written since the Vdata was attached" % (f.name, rec, fld, live_rec, live_fld))
        n += stores
        ctx.holds("SNAPSHOT", "SNAPSHOT:%s.%s" % (rec, fld), "-", "stored at %d site(s), never read" % stores, nontrivial=False)
    ctx.floor("SNAPSHOT", 1, n, "(stores of the snapshot fields)")
    return n


# ---------------------------------------------------------------------------------------------------------------------
def rule_written_local_initialised(ctx):
    """INITWRITE (C01): bytes handed to the storage layer (`HP_write(file, &v, n)`, `fwrite(&v, ..)`) from a local variable are
    the content of the file; the local must have been given a value.  HPgetdiskblock and HIextend_file reserve space by writing
    one byte at the new end — that byte is what a never-written gap reads back as, and the format promises zeros."""
    prog = ctx.prog
    n = 0
    for f in prog.lib_funcs():
        if not f.rel.startswith("hdf/src/"):
            continue
        decl_init = {}
        assigned = set()
        for _b, _i, _s, x in f.nodes(True):
            if x[0] == "decl":
                for d in x[1]:
                    decl_init[d[0]] = d[2] is not None
            elif x[0] == "asg" and base_var(x[2]):
                assigned.add(base_var(x[2]))
            elif x[0] == "incdec" and base_var(x[3]):
                assigned.add(base_var(x[3]))
        for _b, _i, _s, c in f.calls():
            di = {"HP_write": 1, "fwrite": 0}.get(c[1])
            if di is None or len(c[3]) <= di:
                continue
            a = strip(c[3][di])
            if kind(a) != "addr" or kind(strip(a[1])) != "var" or strip(a[1])[2] != "l":
                continue
            v = strip(a[1])[1]
            if v not in decl_init:
                continue
            n += 1
            key = "INITWRITE:%s:%s" % (f.name, v)
            # filled through its address by another call before the write (e.g. an encoder)?
            filled = any(k[1] not in ("HP_write", "fwrite") and any(kind(strip(z)) == "addr" and base_var(z) == v for z in k[3]) and k[5] <= c[5] for _b2, _i2, _s2, k in f.calls())
            if decl_init[v] or v in assigned or filled:
                ctx.holds("INITWRITE", key, f.where(c[5]), "`%s` has a value when it is written" % v, nontrivial=True)
            else:
                ctx.violated("INITWRITE", key, f.where(c[5]), "`%s` is written to the file (%s) but never given a value: the file receives whatever the stack held — a reserved, "
                             "never-written byte must read as zero" % (v, render(c)[:50]))
    ctx.floor("INITWRITE", 2, n, "(locals written to the file through their address)")
    return n


# ---------------------------------------------------------------------------------------------------------------------
NULLABLE_STRINGS = {("vgroup_desc", "vgname"), ("vgroup_desc", "vgclass")}
STR_READERS = {"strcpy": [1], "strncpy": [1], "strlen": [0], "strcmp": [0, 1], "strncmp": [0, 1], "HIstrncpy": [1], "strcat": [1], "memcpy": [1]}


def rule_nullable_string_guarded(ctx):
    """NULLNAME (C08): the name and the class of a Vgroup are allocated strings and are NULL until they are set.  Wherever one of
    them is read as a C string (copied, measured, compared), a test of that very field against NULL encloses the use (an `if`
    around it, or the left operand of the `&&` / `?:` it sits in).  Most uses have the test; one that lacks it crashes on a
    Vgroup that was created but not yet named."""
    prog = ctx.prog
    n = 0
    for f in prog.lib_funcs():
        if not f.rel.endswith(("vgp.c", "vattr.c", "vg.c", "vparse.c", "vconv.c")):
            continue
        uses = []

        def mentions(e, rf):
            return any(y[0] == "mem" and (y[3], y[2]) == rf for y in walk(e, True))

        def vis(nn, st):
            exprs = [nn[1]] if nn[0] in ("s", "if", "while", "switch") else []
            for e in exprs:
                for c in calls_in(e, True):
                    for pos in STR_READERS.get(c[1], []):
                        if pos < len(c[3]):
                            a = strip(c[3][pos])
                            if kind(a) == "mem" and (a[3], a[2]) in NULLABLE_STRINGS:
                                rf = (a[3], a[2])
                                guarded = any(x[0] in ("if", "while") and mentions(x[1], rf) for x in st)
                                # the same expression tests the field before the call: `p != NULL && strcmp(p, ..)`, `p ? strlen(p) : 0`
                                for y in walk(e, True):
                                    if y[0] == "bin" and y[1] in ("&&", "||") and mentions(y[2], rf) and any(z is c for z in walk(y[3], True)):
                                        guarded = True
                                    if y[0] == "cond" and mentions(y[1], rf):
                                        guarded = True
                                if nn[0] == "if" and mentions(nn[1], rf) and not any(z is c for z in walk(nn[1], True)):
                                    guarded = True
                                uses.append((c, rf, guarded))
            return True
        ast_walk(f.raw.get("ast"), vis)
        for k, (c, rf, guarded) in enumerate(uses):
            n += 1
            key = "NULLNAME:%s:%s#%d" % (f.name, rf[1], k + 1)
            if guarded:
                ctx.holds("NULLNAME", key, f.where(c[5]), "`%s` is read by %s under a NULL test of that field" % (rf[1], c[1]), nontrivial=True)
            else:
                ctx.violated("NULLNAME", key, f.where(c[5]), "%s reads `%s` as a string without a NULL test of that field: a Vgroup that has no %s yet makes it dereference NULL" % (
                    c[1], rf[1], "name" if rf[1] == "vgname" else "class"))
    ctx.floor("NULLNAME", 6, n, "(string reads of a Vgroup's name or class)")
    return n


# ---------------------------------------------------------------------------------------------------------------------
def rule_annotation_length_kept(ctx):
    """ANNLEN (C18): the copy of an annotation has the length ANannlen reported for the original.  hrepack enlarges the length by one
    before reading a label (room for the terminating NUL ANreadann adds); that enlarged value must not be the length handed to
    ANwriteann, or every repack makes the label one byte longer."""
    prog = ctx.prog
    n = 0
    for f in prog.funcs:
        if "mfhdf/hrepack/" not in f.rel:
            continue
        lens = {strip(x[2])[1] for _b, _i, _s, x in f.nodes(True) if x[0] == "asg" and x[1] == "=" and kind(strip(x[2])) == "var" and kind(strip(x[3])) == "call" and strip(x[3])[1] == "ANannlen"}
        if not lens:
            continue
        bumped = {base_var(x[3]) for _b, _i, _s, x in f.nodes(True) if x[0] == "incdec" and x[1] == "++" and base_var(x[3]) in lens}
        bumped |= {base_var(x[2]) for _b, _i, _s, x in f.nodes(True) if x[0] == "asg" and x[1] == "+=" and base_var(x[2]) in lens}
        for _b, _i, _s, c in f.calls():
            if c[1] != "ANwriteann" or len(c[3]) < 3:
                continue
            n += 1
            key = "ANNLEN:%s" % f.name
            a = strip(c[3][2])
            if kind(a) == "var" and a[1] in bumped:
                ctx.violated("ANNLEN", key, f.where(c[5]), "ANwriteann is given `%s`, which was increased after ANannlen set it (room for the NUL when reading a label): the copy is one byte longer "
                             "than the original, and grows with every repack" % a[1])
            else:
                ctx.holds("ANNLEN", key, f.where(c[5]), "the length written is `%s`" % render(a)[:50], nontrivial=True)
    ctx.floor("ANNLEN", 1, n, "(ANwriteann calls in hrepack functions that query ANannlen)")
    return n


# ---------------------------------------------------------------------------------------------------------------------
def rule_reserved_test_reachable(ctx):
    """RESERVED (C18): hrepack must not copy the library's own bookkeeping objects (attribute Vdatas, dimension Vdatas, chunk
    tables, ...) as if they were user objects; it recognises them with is_reserved(class).  All class names that predicate knows
    are non-empty, so a call that sits under `class[0] == '\\0'` can never be true: the filter is dead and every attribute Vdata is
    copied a second time as a lone Vdata."""
    prog = ctx.prog
    n = 0
    for f in prog.funcs:
        if "mfhdf/hrepack/" not in f.rel:
            continue
        sites = []

        def vis(nn, st):
            exprs = [nn[1]] if nn[0] in ("s", "if", "while") else []
            for e in exprs:
                for c in calls_in(e, True):
                    if c[1] == "is_reserved" and c[3] and base_var(c[3][0]):
                        v = base_var(c[3][0])
                        dead = False
                        for a in st:
                            if a[0] != "if":
                                continue
                            for y in walk(a[1], True):
                                if y[0] == "bin" and y[1] == "==" and kind(strip(y[2])) == "idx" and base_var(y[2]) == v and is_int(strip(y[2])[2], 0) and is_int(y[3], 0):
                                    dead = True
                        sites.append((c, v, dead))
            return True
        ast_walk(f.raw.get("ast"), vis)
        for k, (c, v, dead) in enumerate(sites):
            n += 1
            key = "RESERVED:%s#%d" % (f.name, k + 1)
            if dead:
                ctx.violated("RESERVED", key, f.where(c[5]), "is_reserved(%s) is evaluated only when `%s[0] == '\\0'`, i.e. for an empty class, for which it is always false: "
                             "reserved objects are never filtered out here" % (v, v))
            else:
                ctx.holds("RESERVED", key, f.where(c[5]), "is_reserved(%s) is reachable for non-empty classes" % v, nontrivial=True)
    ctx.floor("RESERVED", 2, n, "(is_reserved calls in hrepack)")
    return n


# ---------------------------------------------------------------------------------------------------------------------
def rule_out_param_not_reseated(ctx):
    """OUTPARAM (C18): a pointer parameter through which a routine returns a value (`*p = v` somewhere in the routine) is never
    assigned itself.  `p = CONSTANT;` where the sibling branches write `*p = CONSTANT;` loses the result and, for the constant 0,
    turns the next `*p` into a NULL dereference."""
    prog = ctx.prog
    n = 0
    for f in prog.funcs:
        if not any(d in f.rel for d in ("mfhdf/hrepack/", "mfhdf/hdiff/", "mfhdf/hdp/")):
            continue
        ptr_params = {p[0] for p in f.params if "*" in str(p[1])}
        if not ptr_params:
            continue
        outs = {base_var(x[2]) for _b, _i, _s, x in f.nodes(True) if x[0] == "asg" and kind(strip(x[2])) == "deref" and base_var(x[2]) in ptr_params}
        for v in sorted(outs):
            n += 1
            key = "OUTPARAM:%s:%s" % (f.name, v)
            bad = [x for _b, _i, _s, x in f.nodes(True) if x[0] == "asg" and x[1] == "=" and kind(strip(x[2])) == "var" and strip(x[2])[1] == v and is_int(x[3])]
            if bad:
                ctx.violated("OUTPARAM", key, f.where(bad[0][4]), "`%s` assigns to the pointer parameter itself; everywhere else %s writes through it (`*%s = ...`): the result is lost and "
                             "a later `*%s` dereferences the constant" % (render(bad[0])[:40], f.name, v, v))
            else:
                ctx.holds("OUTPARAM", key, f.where(), "`%s` is only written through" % v, nontrivial=False)
    ctx.floor("OUTPARAM", 20, n, "(pointer out-parameters in the tools)")
    return n


# ---------------------------------------------------------------------------------------------------------------------
def rule_member_pair_compare(ctx):
    """MEMBERPAIR (C08): a Vgroup's members are (tag, ref) pairs kept in two parallel arrays.  A test whether a given member is
    present compares *both* components at the same index; a condition that looks at `ref[i]` alone takes any object with the
    same reference number — of whatever tag — for the member (insertions are refused as duplicates, deletions hit the wrong
    member)."""
    prog = ctx.prog
    n = 0
    for f in prog.lib_funcs():
        if not f.rel.endswith(("vgp.c", "vg.c", "vattr.c")):
            continue
        conds = []

        def vis(nn, st):
            if nn[0] in ("if", "while"):
                conds.append((nn[1], [a[1] for a in st if a[0] in ("if", "while")], nn[4] if nn[0] == "if" else nn[3]))
            elif nn[0] == "for" and nn[2] is not None:
                conds.append((nn[2], [a[1] for a in st if a[0] in ("if", "while")], nn[5] if len(nn) > 5 else 0))
            return True
        ast_walk(f.raw.get("ast"), vis)
        ordn = 0
        for c, outer, line in conds:
            for x in walk(c, True):
                if x[0] != "bin" or x[1] not in ("==", "!="):
                    continue
                for a in (x[2], x[3]):
                    ua = strip(a)
                    if kind(ua) == "idx" and (mem_field(ua[1]) or (0, 0)) == ("vgroup_desc", "ref"):
                        ordn += 1
                        n += 1
                        key = "MEMBERPAIR:%s#%d" % (f.name, ordn)
                        def ixname(e):
                            e = strip(e)
                            return render(strip(e[3])) if kind(e) == "incdec" else render(e)
                        ix = ixname(ua[2])
                        base = render(strip(strip(ua[1])[1]))
                        ok = False
                        for cc in [c] + outer:
                            for y in walk(cc, True):
                                if y[0] == "bin" and y[1] in ("==", "!="):
                                    for b in (y[2], y[3]):
                                        ub = strip(b)
                                        if kind(ub) == "idx" and (mem_field(ub[1]) or (0, 0)) == ("vgroup_desc", "tag") and ixname(ub[2]) == ix and render(strip(strip(ub[1])[1])) == base:
                                            ok = True
                        if ok:
                            ctx.holds("MEMBERPAIR", key, f.where(line), "`%s` is tested together with the tag at the same index" % render(x)[:50], nontrivial=True)
                        else:
                            ctx.violated("MEMBERPAIR", key, f.where(line), "`%s` identifies a member by its reference number alone; the tag at index `%s` is not compared: members of "
                                         "different tags that share a reference number are confused" % (render(x)[:60], ix))
    ctx.floor("MEMBERPAIR", 3, n, "(member look-ups over a Vgroup's tag/ref arrays)")
    return n


# ---------------------------------------------------------------------------------------------------------------------
def rule_internal_class_match(ctx):
    """INTERNALCLS (C08): the predicates that tell the library's own Vgroups and Vdatas from the user's (Visinternal,
    Vgisinternal, VSisinternal) compare the class with each entry of a table of reserved class names over the length of the
    *table entry*.  Measured over the length of the user's class instead, every user class that is a prefix of a reserved name
    ("Var", "Dim", "RI", "") is classified as internal, and such objects vanish from Vgetvgroups / VSgetvdatas."""
    prog = ctx.prog
    n = 0
    for f in prog.lib_funcs():
        if not f.rel.endswith(("vgp.c", "vio.c", "vg.c")):
            continue
        ordn = 0
        for _b, _i, _s, c in f.calls():
            if c[1] != "strncmp" or len(c[3]) < 3:
                continue
            tabs = [a for a in c[3][:2] if kind(strip(a)) == "idx" and kind(strip(strip(a)[1])) == "var" and strip(strip(a)[1])[2] in ("g", "s")]
            ln = strip(c[3][2])
            if not tabs or kind(ln) != "call" or ln[1] != "strlen" or not ln[3]:
                continue
            ordn += 1
            n += 1
            key = "INTERNALCLS:%s#%d" % (f.name, ordn)
            if render(strip(ln[3][0])) == render(strip(tabs[0])):
                ctx.holds("INTERNALCLS", key, f.where(c[5]), "compared over the length of the table entry `%s`" % render(strip(tabs[0]))[:40], nontrivial=True)
            else:
                ctx.violated("INTERNALCLS", key, f.where(c[5]), "`%s` compares over the length of `%s`, not of the reserved name `%s`: a class that is a prefix of a reserved name is taken "
                             "for internal" % (render(c)[:70], render(strip(ln[3][0]))[:30], render(strip(tabs[0]))[:30]))
    ctx.floor("INTERNALCLS", 2, n, "(comparisons against the tables of reserved class names)")
    return n


TAGREF_CALLS = {"DFdiput": (1, 2), "Vaddtagref": (1, 2), "Hstartread": (1, 2), "Hstartwrite": (1, 2), "Hstartaccess": (1, 2), "Hputelement": (1, 2),
                "Hgetelement": (1, 2), "Hlength": (1, 2), "Hexist": (1, 2), "Hoffset": (1, 2), "Hdeldd": (1, 2), "HDreuse_tagref": (1, 2),
                "Vinqtagref": (1, 2), "Vdeletetagref": (1, 2), "HDcheck_tagref": (1, 2), "Hdupdd": (1, 2), "HLcreate": (1, 2), "HCcreate": (1, 2),
                "HXcreate": (1, 2), "HMCcreate": (1, 2), "Hfind": (1, 2)}


def rule_tag_ref_of_one_pair(ctx):
    """TAGREFPAIR (C15, C09): an object is named by a tag *and* a reference, and the records of the raster and SD interfaces keep several
    such pairs side by side (`img_tag`/`img_ref`, `lut_tag`/`lut_ref`, `lut_dim.dim_tag`/`lut_dim.dim_ref`, ..).  Where a call takes a
    tag and a reference and both arguments are members of a record, they must be the two halves of one pair: the same record
    path and the same stem (`X_tag` with `X_ref`).  A reference taken from the neighbouring pair designates some other object —
    often an existing one, so nothing fails: the group simply points at the wrong palette or the wrong data."""
    import re
    prog = ctx.prog
    n = 0
    occ = {}

    def stem(name, what):
        return re.sub(what, "", name)

    for f in prog.lib_funcs():
        for _b, _i, s, c in f.calls():
            if c[1] not in TAGREF_CALLS:
                continue
            ti, ri = TAGREF_CALLS[c[1]]
            if len(c[3]) <= ri:
                continue
            t, r = strip(c[3][ti]), strip(c[3][ri])
            if kind(t) != "mem" or kind(r) != "mem":
                continue
            ft, fr = t[2], r[2]
            if "tag" not in ft or "ref" not in fr:
                continue
            n += 1
            key = "TAGREFPAIR:%s:%s" % (f.name, c[1])
            occ[key] = occ.get(key, 0) + 1
            if occ[key] > 1:
                key += "#%d" % occ[key]
            line = s.get("l", f.line)
            same_base = render(strip(t[1])) == render(strip(r[1]))
            same_stem = stem(ft, "tag") == stem(fr, "ref")
            if same_base and same_stem:
                ctx.holds("TAGREFPAIR", key, f.where(line), "`%s` / `%s` are the two halves of one pair" % (render(t)[:40], render(r)[:40]), nontrivial=True)
            else:
                ctx.violated("TAGREFPAIR", key, f.where(line), "%s() is given the tag `%s` with the reference `%s`, which belongs to another tag/ref pair of the record: the call names an object other than the one meant" % (c[1], render(t)[:50], render(r)[:50]))
    ctx.floor("TAGREFPAIR", 20, n, "(calls given a tag and a reference that are both record members)")
    return n


# ---------------------------------------------------------------------------------------------------------------------
def rule_comparator_width(ctx):
    """CMPWIDTH (C12, C08): the key comparators handed to tbbtdmake return the *sign* of a difference of two keys.  The
    difference is formed and returned in `int` (at least as wide as any key): narrowed to a shorter type, keys that lie half
    that type's range apart compare with the wrong sign, and because look-ups use the tree's in-line fast compare while
    insertions use the callback, elements are linked where no look-up reaches them (a user tag >= 0x8000 next to
    DFTAG_VERSION)."""
    from .facts import kind, strip, walk, render, calls_in
    prog = ctx.prog
    cmps = set()
    for f in prog.lib_funcs():
        for _b, _i, _s, c in f.calls():
            if c[1] == "tbbtdmake" and c[3]:
                a = strip(c[3][0])
                if kind(a) in ("fn", "var", "ref"):
                    cmps.add(a[1])
                elif kind(a) == "addr" and kind(strip(a[1])) in ("fn", "var", "ref"):
                    cmps.add(strip(a[1])[1])
    n = 0
    NARROW = ("int16", "int8", "short", "char", "uint8", "uint16", "signed char", "unsigned char", "unsigned short")
    for name in sorted(cmps):
        f = prog.func(name)
        if f is None:
            continue
        n += 1
        key = "CMPWIDTH:%s" % name
        bad = None
        for _b, _i, s, x in f.nodes(True):
            if x[0] == "cast" and any(x[1].strip() == t for t in NARROW):
                inner = strip(x[2])
                if kind(inner) == "bin" and inner[1] == "-":
                    bad = (s.get("l", f.line), x[1])
        if bad:
            ctx.violated("CMPWIDTH", key, f.where(bad[0]), "the key difference is narrowed to `%s` before it is returned: keys half that range apart order the wrong way round, and what the callback inserts the fast compare cannot find" % bad[1])
        else:
            ctx.holds("CMPWIDTH", key, f.where(), "the comparator forms and returns its key difference without narrowing it", nontrivial=True)
    ctx.floor("CMPWIDTH", 3, n, "(comparators handed to tbbtdmake)")
    return n


def rule_lookups_before_create(ctx):
    """LOOKFIRST (C12): HTPcreate enters a new tag/ref into the directory at once (descriptor claimed, reference marked used,
    block dirtied).  A routine that also needs an *existing* descriptor (HTPselect, failure = leave with an error) does that
    look-up first: a look-up that fails after the create leaves the half-made entry behind, and a refused Hdupdd has added a
    phantom object that Hexist, Hfind and Hnumber report and that survives close and reopen."""
    from .codec import ast_walk
    from .facts import calls_in
    prog = ctx.prog
    n = 0
    for f in prog.lib_funcs():
        ast = f.raw.get("ast")
        if not ast:
            continue
        names = [c[1] for _b, _i, _s, c in f.calls()]
        if "HTPcreate" not in names or "HTPselect" not in names:
            continue
        order = []
        ast_walk(ast, lambda nd, st: (order.append((nd, list(st))) if nd[0] in ("s", "if") and nd[1] is not None else None, True)[1])

        def exclusive(st_a, nd_a, st_b, nd_b):
            """are the two statements in different arms of one if?"""
            ca, cb = st_a + [nd_a], st_b + [nd_b]
            for i, anc in enumerate(st_a):
                if i < len(st_b) and st_b[i] is anc and anc[0] == "if":
                    arm_a = ca[i + 1] if i + 1 < len(ca) else None
                    arm_b = cb[i + 1] if i + 1 < len(cb) else None
                    if arm_a is not arm_b and arm_a in (anc[2], anc[3]) and arm_b in (anc[2], anc[3]):
                        return True
            return False

        created = None
        late = None
        for nd, st in order:
            for c in calls_in(nd[1], True):
                if c[1] == "HTPcreate" and created is None:
                    created = (nd, st)
                elif c[1] == "HTPselect" and created is not None and nd[0] == "if" and late is None and not exclusive(created[1], created[0], st, nd):
                    late = (nd, st)
        created = created[0] if created else None
        late = late[0] if late else None
        n += 1
        key = "LOOKFIRST:%s" % f.name
        undo = any(c in names for c in ("HTPdelete", "Hdeldd"))
        line = (late or created)[-3] if isinstance((late or created)[-3], int) else f.line
        if late is not None and not undo:
            ctx.violated("LOOKFIRST", key, f.where(line), "a descriptor look-up whose failure ends the routine comes after HTPcreate, and nothing deletes the created descriptor: a refused call leaves a phantom tag/ref in the directory")
        else:
            ctx.holds("LOOKFIRST", key, f.where(line), "every failing look-up of an existing descriptor precedes HTPcreate" + (" (or the created descriptor is deleted again)" if late is not None else ""), nontrivial=True)
    ctx.floor("LOOKFIRST", 1, n, "(routines that look up one descriptor and create another)")
    return n


def rule_fieldwise_copy_names(ctx):
    """SAMEFIELD (C04, C05): parameter records are handed from one layer to the next field by field
    (`cinfo.nbit.sign_ext = cdef->nbit.sign_ext; cinfo.nbit.fill_one = cdef->nbit.fill_one; ..`).  In such a run of
    assignments between the same two records, where destination and source fields carry the same names, no source field is
    used twice: an assignment whose source field differs from its destination field *and* is the source of a neighbouring
    assignment is a slip of the pen - a chunked n-bit data set created with fill_one = sign_ext reads back other values than
    the contiguous one made from the same parameters."""
    from .codec import ast_walk
    from .facts import kind, strip, walk, render
    prog = ctx.prog
    n = 0
    for f in prog.funcs:
        ast = f.raw.get("ast")
        if not ast:
            continue
        groups = []

        def vis(nd, st):
            if nd[0] == "block":
                run = {}
                for k in nd[1]:
                    if k[0] == "s" and kind(k[1]) == "asg" and k[1][1] == "=":
                        d, s_ = strip(k[1][2]), strip(k[1][3])
                        if kind(d) == "mem" and kind(s_) == "mem":
                            key = (render(strip(d[1])), render(strip(s_[1])))
                            run.setdefault(key, []).append((d[2], s_[2], k))
                for key, items in run.items():
                    if len(items) >= 3 and sum(1 for a, b, _k in items if a == b) >= 2:
                        groups.append((key, items))
            return True

        ast_walk(ast, vis)
        for gi, (key, items) in enumerate(groups, 1):
            n += 1
            k_ = "SAMEFIELD:%s#%d" % (f.name, gi)
            srcs = {}
            for a, b, nd in items:
                srcs.setdefault(b, []).append((a, nd))
            bad = None
            for b, lst in srcs.items():
                if len(lst) > 1:
                    for a, nd in lst:
                        if a != b:
                            bad = (a, b, nd)
            line = (bad[2] if bad else items[0][2])[-3]
            line = line if isinstance(line, int) else f.line
            if bad:
                ctx.violated("SAMEFIELD", k_, f.where(line), "`%s.%s` is copied from `%s.%s`, which is also the source of the like-named field next to it: one parameter is passed on twice and another not at all" % (key[0][:30], bad[0], key[1][:30], bad[1]))
            else:
                ctx.holds("SAMEFIELD", k_, f.where(line), "%d fields are copied from `%s` to `%s`, each source field once" % (len(items), key[1][:30], key[0][:30]), nontrivial=True)
    ctx.floor("SAMEFIELD", 5, n, "(field-by-field copies between two records)")
    return n
