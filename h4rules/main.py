import json
import os
import subprocess
import sys
import time
import traceback

from . import facts, report
from .facts import AnalysisBroken, VERIF


def setup():
    os.makedirs(os.path.join(VERIF, "bin"), exist_ok=True)
    src = os.path.join(VERIF, "tools", "h4x.cc")
    out = os.path.join(VERIF, "bin", "h4x")
    cxx = subprocess.check_output(["llvm-config-14", "--cxxflags"], text=True).split()
    cmd = ["clang++"] + cxx + ["-fno-rtti", "-O1", src, "-o", out,
                               "/usr/lib/llvm-14/lib/libclang-cpp.so.14", "/usr/lib/llvm-14/lib/libLLVM-14.so"]
    r = subprocess.run(cmd)
    return r.returncode


def run_property(prop, tier):
    from . import props
    t0 = time.time()
    spec = props.PROPS.get(prop) or getattr(props, "PENDING", {}).get(prop)
    if spec is None:
        print("unknown or unclaimed property %s" % prop)
        return 2
    prog = None
    ctx = None
    broken = None
    try:
        scope = spec.get("scope_thorough" if tier == "thorough" else "scope", "lib+tools")
        prog = facts.load(scope)
        ctx = report.Ctx(prop, tier, prog)
        for rule in spec["rules"]:
            try:
                rule(ctx)
            except AnalysisBroken as e:
                broken = "%s: %s" % (rule.__name__, e)
                break
    except AnalysisBroken as e:
        broken = str(e)
    except Exception:
        broken = "internal error: " + traceback.format_exc()[-1500:]
    if ctx is None:
        ctx = report.Ctx(prop, tier, prog or type("P", (), {"funcs": [], "n_units": 0})())
    if tier == "thorough" and broken is None and not os.environ.get("H4_LIVENESS_CHILD"):
        try:
            liveness(prop, ctx)
        except Exception:
            broken = "liveness pass failed: " + traceback.format_exc()[-800:]
    return report.finish(ctx, t0, spec["level"], spec["explanation"], spec["rule_text"], spec["trusted"],
                         spec["assumptions"], broken)


def liveness(prop, ctx):
    """thorough tier: every defect recorded as `fixed:` for this property is re-introduced in a throw-away copy of /repo's
    working tree (the fix commit's patch reverse-applied) and the quick analysis must report a violation there.  This shows
    on every thorough run that the rules still bite; a recorded fix that no longer fires makes the analysis 'broken'
    (exit 2).  Nothing is executed except the analysis itself; /repo is not touched."""
    import shutil
    import tempfile
    entries = []
    for ln in open(report.KNOWN_FILE):
        if not ln.startswith("fixed:") or ("property=%s " % prop) not in ln:
            continue
        parts = ln.split()
        commits = parts[2].split("+")
        entries.append((parts[2], commits, "[no static rule" in ln))
    if not entries:
        return
    cap = int(os.environ.get("H4_LIVENESS_MAX", "40"))
    tmp = tempfile.mkdtemp(prefix="h4live.")
    results = []
    try:
        src = os.path.join(tmp, "src")
        subprocess.run(["rsync", "-a", "--exclude", "_build", "--exclude", ".git", facts.REPO + "/", src + "/"], check=True)
        for label, commits, nostatic in entries[:cap]:
            if nostatic:
                results.append({"fix": label, "result": "no static rule (documented gap)"})
                continue
            patches = []
            ok = True
            for c in reversed(commits):
                pt = subprocess.run(["git", "-C", facts.REPO, "show", c, "--format=", "--", "."], capture_output=True, text=True).stdout
                r = subprocess.run(["patch", "-R", "-p1", "-s", "-f", "-d", src], input=pt, text=True, capture_output=True)
                if r.returncode != 0:
                    ok = False
                    break
                patches.append(pt)
            if not ok:
                for pt in reversed(patches):
                    subprocess.run(["patch", "-p1", "-s", "-f", "-d", src], input=pt, text=True, capture_output=True)
                subprocess.run(["rsync", "-a", "--exclude", "_build", "--exclude", ".git", facts.REPO + "/", src + "/"], check=True)
                results.append({"fix": label, "result": "skipped: the fix can no longer be reverse-applied (superseded)"})
                continue
            env = dict(os.environ, H4_REPO=src, H4_EVID_DIR=os.path.join(tmp, "ev"), H4_LIVENESS_CHILD="1")
            os.makedirs(env["H4_EVID_DIR"], exist_ok=True)
            r = subprocess.run([sys.executable, os.path.join(VERIF, "check"), prop, "--tier", "quick"], env=env, capture_output=True, text=True)
            first = ""
            lines = r.stdout.splitlines()
            for i, l in enumerate(lines):
                if l.startswith("VIOLATION") and i + 1 < len(lines):
                    first = " ".join(lines[i + 1].split()[:2])
                    break
            results.append({"fix": label, "result": "fires" if r.returncode == 1 else "MISSED (exit %d)" % r.returncode, "by": first})
            for pt in patches:
                subprocess.run(["patch", "-p1", "-s", "-f", "-d", src], input=pt, text=True, capture_output=True)
    finally:
        shutil.rmtree(tmp, ignore_errors=True)
    ctx.stats["liveness"] = results
    missed = [r for r in results if r["result"].startswith("MISSED")]
    for r in missed:
        ctx.unrecognised("LIVENESS", "LIVENESS:%s" % r["fix"], "-", "re-introducing the defect repaired by %s is no longer reported by this check" % r["fix"])


def main(argv):
    if not argv:
        print(__doc__)
        return 2
    if argv[0] == "--setup":
        return setup()
    tier = os.environ.get("VERIF_TIER", "quick")
    if "--tier" in argv:
        i = argv.index("--tier")
        tier = argv[i + 1]
        argv = argv[:i] + argv[i + 2:]
    if argv[0] == "--replay":
        d = json.load(open(argv[1]))
        prop = d["property"]
        key = d["instance"]["key"]
        rc = run_property(prop, d.get("tier", "quick"))
        ev = json.load(open(os.path.join(report.EVID_DIR, prop + ".json")))
        print("replayed instance %s: see VIOLATION lines above (exit %d)" % (key, rc))
        return rc
    if argv[0] == "--all":
        from . import props
        worst = 0
        for p in sorted(props.PROPS):
            rc = run_property(p, tier)
            worst = max(worst, rc) if 1 not in (worst, rc) else 1
        return worst
    return run_property(argv[0], tier)
