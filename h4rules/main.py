import json
import os
import subprocess
import sys
import time
import traceback

from . import facts, report
from .facts import AnalysisBroken, VERIF


def setup():
    os.makedirs(os.path.join(VERIF, "bin"), exist_ok=True)
    src = os.path.join(VERIF, "tools", "h4x.cc")
    out = os.path.join(VERIF, "bin", "h4x")
    cxx = subprocess.check_output(["llvm-config-14", "--cxxflags"], text=True).split()
    cmd = ["clang++"] + cxx + ["-fno-rtti", "-O1", src, "-o", out,
                               "/usr/lib/llvm-14/lib/libclang-cpp.so.14", "/usr/lib/llvm-14/lib/libLLVM-14.so"]
    r = subprocess.run(cmd)
    return r.returncode


def run_property(prop, tier):
    from . import props
    t0 = time.time()
    spec = props.PROPS.get(prop) or getattr(props, "PENDING", {}).get(prop)
    if spec is None:
        print("unknown or unclaimed property %s" % prop)
        return 2
    prog = None
    ctx = None
    broken = None
    try:
        scope = spec.get("scope_thorough" if tier == "thorough" else "scope", "lib+tools")
        prog = facts.load(scope)
        ctx = report.Ctx(prop, tier, prog)
        for rule in spec["rules"]:
            try:
                rule(ctx)
            except AnalysisBroken as e:
                broken = "%s: %s" % (rule.__name__, e)
                break
    except AnalysisBroken as e:
        broken = str(e)
    except Exception:
        broken = "internal error: " + traceback.format_exc()[-1500:]
    if ctx is None:
        ctx = report.Ctx(prop, tier, prog or type("P", (), {"funcs": [], "n_units": 0})())
    return report.finish(ctx, t0, spec["level"], spec["explanation"], spec["rule_text"], spec["trusted"],
                         spec["assumptions"], broken)


def main(argv):
    if not argv:
        print(__doc__)
        return 2
    if argv[0] == "--setup":
        return setup()
    tier = os.environ.get("VERIF_TIER", "quick")
    if "--tier" in argv:
        i = argv.index("--tier")
        tier = argv[i + 1]
        argv = argv[:i] + argv[i + 2:]
    if argv[0] == "--replay":
        d = json.load(open(argv[1]))
        prop = d["property"]
        key = d["instance"]["key"]
        rc = run_property(prop, d.get("tier", "quick"))
        ev = json.load(open(os.path.join(report.EVID_DIR, prop + ".json")))
        print("replayed instance %s: see VIOLATION lines above (exit %d)" % (key, rc))
        return rc
    if argv[0] == "--all":
        from . import props
        worst = 0
        for p in sorted(props.PROPS):
            rc = run_property(p, tier)
            worst = max(worst, rc) if 1 not in (worst, rc) else 1
        return worst
    return run_property(argv[0], tier)
