"""SIBSTALE (C01): inside a loop, a variable that only ever gets its value inside the loop body (an iteration-local) is read
in one arm of an if/else although only the *other* arm assigns it: the value used is the one a previous iteration left behind
(HLPread added the byte count of the previous block for a block that was never written).  The expected number of matches on
a correct tree is zero, so the matcher is run on a built-in positive example on every check."""
from .facts import kind, strip, walk, render, is_int
from .codec import ast_walk


def reads_writes(e):
    """(reads, plain writes, compound writes) of variables in expression e, evaluation-order-insensitive"""
    reads=set(); w=set(); cw=set()
    def go(x, lhs=False):
        x=strip(x)
        if not isinstance(x,list) or not x: return
        k=x[0]
        if k=='var':
            if not lhs: reads.add(x[1])
            return
        if k=='asg':
            t=strip(x[2])
            if kind(t)=='var':
                if x[1]=='=': w.add(t[1])
                else: cw.add(t[1]); reads.add(t[1])
            else: go(t)
            go(x[3]); return
        if k=='incdec':
            t=strip(x[3])
            if kind(t)=='var': cw.add(t[1]); reads.add(t[1])
            else: go(t)
            return
        if k=='decl':
            for d in x[1]:
                if d[2] is not None:
                    go(d[2]); w.add(d[0])
            return
        if k=='addr':
            t=strip(x[1])
            if kind(t)=='var': w.add(t[1]); return   # &v passed out: may define it
            go(t); return
        for c in x[1:]:
            if isinstance(c,list):
                if c and isinstance(c[0],str): go(c)
                else:
                    for d in c:
                        if isinstance(d,list): go(d)
    go(e)
    return reads,w,cw

def analyse(func):
    ast=func.raw.get('ast')
    if not ast: return []
    out=[]
    # collect per-variable assignment locations: inside which loops
    loops=[]
    def vis(n,st):
        if n[0] in ('for','while','do'): loops.append((n,list(st)))
        return True
    ast_walk(ast,vis)
    for lp,stack in loops:
        body = lp[4] if lp[0]=='for' else (lp[2] if lp[0]=='while' else lp[1])
        # variables plainly assigned in body
        assigned_in=set(); compound_in=set(); 
        def vb(n,st):
            for e in ([n[1]] if n[0] in ('s',) else ([n[1]] if n[0] in ('if','while','switch') and n[1] is not None else [])):
                r,w,cw=reads_writes(e); assigned_in.update(w); compound_in.update(cw)
            if n[0]=='for':
                for part in n[1:4]:
                    if part is not None:
                        r,w,cw=reads_writes(part); assigned_in.update(w); compound_in.update(cw)
            return True
        ast_walk(body,vb)
        cands = assigned_in - compound_in
        # iteration-local only: no plain/compound assignment and no read of the variable outside this loop
        outside_r=set(); outside_w=set()
        inside_nodes=set()
        def mark(n,st):
            inside_nodes.add(id(n)); return True
        ast_walk(lp,mark)
        def vo(n,st):
            if id(n) in inside_nodes: return False
            exprs=[]
            if n[0]=='s': exprs=[n[1]]
            elif n[0] in ('if','while','switch') and n[1] is not None: exprs=[n[1]]
            elif n[0]=='for': exprs=[x for x in n[1:4] if x is not None]
            for e in exprs:
                if kind(e)=='decl':
                    for d in e[1]:
                        if d[2] is not None and not is_int(strip(d[2])):
                            outside_w.add(d[0])
                            r,w,cw=reads_writes(d[2]); outside_r.update(r)
                    continue
                r,w,cw=reads_writes(e); outside_r.update(r); outside_w.update(w|cw)
            return True
        ast_walk(ast,vo)
        params={q[0] for q in func.params}
        cands = {v for v in cands if v not in outside_r and v not in outside_w and v not in params}
        # a variable that the loop body resets to a constant at its top level (`p = NULL;` after `free(p)`) has a known
        # value at the start of every iteration: reading it after a one-armed assignment is the reset idiom, not a stale read
        kids = body[1] if body and body[0]=='block' else [body]
        for k_ in kids:
            if k_ and k_[0]=='s':
                e_=strip(k_[1])
                if kind(e_)=='asg' and e_[1]=='=' and kind(strip(e_[2]))=='var' and is_int(strip(e_[3])):
                    cands.discard(strip(e_[2])[1])
        if not cands: continue
        # must-def walk
        final=[]
        partial=set()   # assigned in exactly one arm of an if/else of this iteration and not since
        def ends(n):
            """does control never fall out of the end of statement n?"""
            if n is None: return False
            if n[0] in ('continue','break','goto'): return True
            if n[0]=='s' and kind(n[1])=='ret': return True
            if n[0]=='block' and n[1]: return ends(n[1][-1])
            if n[0]=='if' and n[3] is not None: return ends(n[2]) and ends(n[3])
            return False
        def walk_stmt(n, must, pend):
            k=n[0]
            if k=='block':
                for c in n[1]: must=walk_stmt(c,must,pend)
                return must
            if k=='s':
                r,w,cw=reads_writes(n[1])
                for v in r:
                    if v in cands and v not in must:
                        if v in partial: final.append((v,n))
                        else: pend.append((v,n))
                partial.difference_update(w)
                return must|w
            if k=='if':
                r,w,cw=reads_writes(n[1])
                for v in r:
                    if v in cands and v not in must: pend.append((v,n))
                m0=must|w
                f1=[]; f2=[]
                m1=walk_stmt(n[2],set(m0),f1)
                m2=walk_stmt(n[3],set(m0),f2) if n[3] is not None else set(m0)
                for v,nn in f1:
                    (final if v in (m2-m0) else pend).append((v,nn))
                for v,nn in f2:
                    (final if v in (m1-m0) else pend).append((v,nn))
                e1, e2 = ends(n[2]), ends(n[3])
                if e1 and not e2: return m2
                if e2 and not e1: return m1
                if n[3] is not None and not e1 and not e2:
                    partial.update(((m1|m2)-(m1&m2)-m0) & cands)
                return m1&m2
            if k=='for':
                for part in n[1:3]:
                    if part is not None:
                        r,w,cw=reads_writes(part)
                        for v in r:
                            if v in cands and v not in must: pend.append((v,n))
                        must=must|w
                walk_stmt(n[4],set(must),pend)
                return must
            if k=='while':
                r,w,cw=reads_writes(n[1])
                for v in r:
                    if v in cands and v not in must: pend.append((v,n))
                walk_stmt(n[2],set(must|w),pend)
                return must
            if k=='do':
                return walk_stmt(n[1],must,pend)
            if k=='switch':
                walk_stmt(n[2],set(must),pend)
                return must
            if k in ('case','default'):
                return walk_stmt(n[2] if k=='case' else n[1], must, pend)
            if k=='label':
                return walk_stmt(n[2],must,pend) if len(n)>2 and isinstance(n[2],list) else must
            return must
        walk_stmt(body,set(),[])
        for v,n in final: out.append((v,n))
    return out



def rule_sibling_stale(ctx, files=None):
    # built-in positive example:  for (;;) { if (c) n = f(); else total += n; }
    n_ = ["var", "n", "l", "int"]
    ex_body = ["block", [["if", ["var", "c", "l", "int"],
                          ["s", ["asg", "=", n_, ["call", "f", None, [], "int", 1, 1, []], 1, "int"], 1, 1, []],
                          ["s", ["asg", "+=", ["var", "total", "l", "int"], n_, 2, "int"], 2, 1, []], 1, 1, []]], 1, 1, []]
    ex = ["block", [["while", ["int", 1], ex_body, 1, 1, []]], 1, 1, []]

    class _F:
        params = []
        raw = {"ast": ex}
    if [v for v, _ in analyse(_F)] != ["n"]:
        ctx.unrecognised("SIBSTALE", "SIBSTALE:selftest", "-", "the matcher no longer recognises its built-in positive example")
    n = 0
    for f in ctx.prog.lib_funcs():
        if files and not f.rel.endswith(tuple(files)):
            continue
        n += 1
        seen = set()
        for v, node in analyse(f):
            if v in seen:
                continue
            seen.add(v)
            ctx.violated("SIBSTALE", "SIBSTALE:%s:%s" % (f.name, v), f.where(), "`%s` gets its value only in one arm of an if/else inside a loop and is read in the other arm: "
                         "the value of an earlier iteration (or none) is used" % v)
    ctx.holds("SIBSTALE", "SIBSTALE:all", "-", "%d functions scanned: no iteration-local variable is read in the arm that does not assign it" % n, nontrivial=False)
    ctx.floor("SIBSTALE", 500, n, "(functions scanned)")
    return n
