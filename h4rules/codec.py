"""ENCODE/DECODE macro groups recovered from the structured (AST) view.

An expansion of INT32ENCODE(p, x) appears in the AST as a compound statement whose
opening brace is spelled by the macro: ["block", [...8 statements...], l, c, ["INT32ENCODE", ...]].
The value / target expressions are taken from the *resolved* first statement, never from text.
"""
from .facts import kind, strip, walk, path, render

CODEC = {
    "INT16ENCODE": (16, True, "enc"), "UINT16ENCODE": (16, False, "enc"),
    "INT32ENCODE": (32, True, "enc"), "UINT32ENCODE": (32, False, "enc"),
    "INT16DECODE": (16, True, "dec"), "UINT16DECODE": (16, False, "dec"),
    "INT32DECODE": (32, True, "dec"), "UINT32DECODE": (32, False, "dec"),
}
MACRO_CAST = {"INT16ENCODE", "UINT16ENCODE", "INT32ENCODE"}  # macros that wrap (i) in a cast before shifting


class Ev:
    __slots__ = ("name", "bits", "signed", "dir", "expr", "ptr", "line", "chain")

    def __repr__(self):
        return "%s(%s, %s)@%d" % (self.name, self.ptr, render(self.expr), self.line)


def _first_leaf(node):
    """first leaf statement tree inside an AST node"""
    if node[0] == "block":
        for c in node[1]:
            r = _first_leaf(c)
            if r is not None:
                return r
        return None
    if node[0] == "s":
        return node[1]
    return None


def codec_event(node):
    """AST block node -> Ev or None"""
    if node[0] != "block" or not node[4] or node[4][0] not in CODEC:
        return None
    name = node[4][0]
    bits, signed, d = CODEC[name]
    first = _first_leaf(node)
    if first is None or kind(first) != "asg":
        return None
    ev = Ev()
    ev.name, ev.bits, ev.signed, ev.dir, ev.line, ev.chain = name, bits, signed, d, node[2], node[4]
    if d == "enc":
        lhs = strip(first[2])
        ev.ptr = path(lhs[1]) if kind(lhs) == "deref" else None
        rhs = first[3]
        # (uint8)((CAST(i) >> k) & 0xff)
        e = strip(rhs)
        if kind(e) == "bin" and e[1] == "&":
            e = e[2]
        # do not strip user casts here: peel the shift, then exactly the macro's own cast
        while kind(e) == "cast" and False:
            e = e[2]
        e2 = e
        if kind(e2) == "bin" and e2[1] == ">>":
            e2 = e2[2]
        if name in MACRO_CAST and kind(e2) == "cast":
            e2 = e2[2]
        ev.expr = e2
    else:
        ev.expr = first[2]
        ev.ptr = None
        for n in walk(first[3], True):
            if n[0] == "deref":
                ev.ptr = path(n[1])
                break
    return ev


def ast_walk(node, fn, ctxstack=None):
    """pre-order walk over the structured view; fn(node, stack) may return False to not descend"""
    if ctxstack is None:
        ctxstack = []
    if not isinstance(node, list) or not node:
        return
    if fn(node, ctxstack) is False:
        return
    k = node[0]
    ctxstack.append(node)
    if k == "block":
        for c in node[1]:
            ast_walk(c, fn, ctxstack)
    elif k == "if":
        ast_walk(node[2], fn, ctxstack)
        if node[3] is not None:
            ast_walk(node[3], fn, ctxstack)
    elif k == "for":
        ast_walk(node[4], fn, ctxstack)
    elif k == "while":
        ast_walk(node[2], fn, ctxstack)
    elif k == "do":
        ast_walk(node[1], fn, ctxstack)
    elif k == "switch":
        ast_walk(node[2], fn, ctxstack)
    elif k == "case":
        ast_walk(node[2], fn, ctxstack)
    elif k == "default":
        ast_walk(node[1], fn, ctxstack)
    elif k == "label":
        ast_walk(node[2], fn, ctxstack)
    ctxstack.pop()


def codec_events(func):
    """all codec events of a function in source order, with their enclosing AST stack"""
    out = []

    def f(node, stack):
        ev = codec_event(node)
        if ev is not None:
            out.append((ev, list(stack)))
            return False
        return True

    ast_walk(func.raw.get("ast"), f)
    return out


def ast_exprs(node):
    """every expression tree (statements, conditions, for-headers) under an AST node"""
    out = []

    def f(n, st):
        k = n[0]
        if k == "s":
            out.append(n[1])
        elif k == "if" or k == "while" or k == "switch":
            out.append(n[1])
        elif k == "do":
            out.append(n[2])
        elif k == "for":
            for x in (n[1], n[2], n[3]):
                if x is not None:
                    out.append(x)
        return True

    ast_walk(node, f)
    return out


def ast_calls(node, into_seen=True):
    from .facts import calls_in
    for e in ast_exprs(node):
        for c in calls_in(e, into_seen):
            yield c
