"""C09 (structural clauses): the interlace permutation is described once.

ILSYM   In GRIil_convert the stride tables of the input and of the output buffer are set up by two switches over the
        interlace code.  Converting X->Y and Y->X are inverse permutations only if both switches describe each interlace
        identically: every arm of the `inil` switch must equal the arm of the `outil` switch for the same code after
        renaming in_* / inbuf to out_* / outbuf (casts ignored), every one of the three interlace codes must have an arm in
        both, and any other code must take the failing default.
ILRANGE GRreqimageil / GRreqlutil (the only setters of the requested interlace) refuse codes outside PIXEL..COMPONENT.
"""
import re
from .facts import kind, strip, walk, path, render, int_val, is_int, calls_in, mem_field
from .codec import ast_walk
from .rules_conv import switch_arms
from .flow import PathAnalysis, fail_values, classify_ret

IL_CODES = {0: "MFGR_INTERLACE_PIXEL", 1: "MFGR_INTERLACE_LINE", 2: "MFGR_INTERLACE_COMPONENT"}


def _norm(node):
    """rendering of an AST statement subtree with the in/out naming and casts removed"""
    out = []

    def r(e):
        e = strip(e)
        if not isinstance(e, list) or not e:
            return str(e)
        k = e[0]
        if k == "var":
            v = e[1]
            v = re.sub(r"^(in|out)_", "X_", v)
            v = re.sub(r"^(in|out)buf$", "Xbuf", v)
            return v
        if k == "int":
            return str(e[1])
        if k in ("bin", "asg"):
            return "(%s %s %s)" % (r(e[2]), e[1], r(e[3]))
        if k == "idx":
            return "%s[%s]" % (r(e[1]), r(e[2]))
        if k in ("deref", "addr", "un", "incdec"):
            return "%s(%s)" % (k if k != "un" else e[1], r(e[-3] if k == "incdec" else (e[2] if k == "un" else e[1])))
        if k == "mem":
            return "%s.%s" % (r(e[1]), e[2])
        if k == "call":
            return "%s(%s)" % (e[1], ",".join(r(a) for a in e[3]))
        if k == "cond":
            return "(%s?%s:%s)" % (r(e[1]), r(e[2]), r(e[3]))
        return k

    def stmt(n):
        k = n[0]
        if k == "s":
            out.append(r(n[1]))
        elif k == "block":
            for c in n[1]:
                stmt(c)
        elif k == "for":
            out.append("for(%s;%s;%s){" % (r(n[1]) if n[1] else "", r(n[2]) if n[2] else "", r(n[3]) if n[3] else ""))
            stmt(n[4])
            out.append("}")
        elif k in ("break", "nop"):
            pass
        else:
            out.append(k)
    stmt(node)
    return out


def rule_il_symmetry(ctx):
    prog = ctx.prog
    f = prog.func("GRIil_convert")
    if f is None:
        ctx.unrecognised("ILSYM", "ILSYM:GRIil_convert", "-", "GRIil_convert not found")
        return 0
    pn = [p[0] for p in f.params]
    sws = []

    def vis(n, st):
        if n[0] == "switch":
            c = strip(n[1])
            if kind(c) == "var" and c[1] in pn:
                sws.append((c[1], n))
        return True
    ast_walk(f.raw.get("ast"), vis)
    if len(sws) != 2:
        ctx.unrecognised("ILSYM", "ILSYM:GRIil_convert", f.where(), "expected two switches over interlace parameters, found %d" % len(sws))
        return 0
    tabs = []
    for v, sw in sws:
        t = {}
        dflt = None
        for labels, stmts, falls in switch_arms(sw):
            body = []
            for s in stmts:
                body += _norm(s)
            for l in labels:
                if l == "default":
                    dflt = stmts
                else:
                    t[l] = body
        tabs.append((v, t, dflt))
    n = 0
    (v1, t1, d1), (v2, t2, d2) = tabs
    for code, name in IL_CODES.items():
        n += 1
        key = "ILSYM:%s" % name
        if code not in t1 or code not in t2:
            ctx.violated("ILSYM", key, f.where(), "interlace %s has no arm in the switch over `%s`" % (name, v1 if code not in t1 else v2))
        elif t1[code] != t2[code]:
            diff = next((a, b) for a, b in zip(t1[code] + ["<end>"], t2[code] + ["<end>"]) if a != b)
            ctx.violated("ILSYM", key, f.where(), "the `%s` and `%s` switches describe %s differently (%s  vs  %s): converting to and from this interlace are no longer inverse permutations"
                         % (v1, v2, name, diff[0][:70], diff[1][:70]))
        else:
            ctx.holds("ILSYM", key, f.where(), "both switches set up the same stride table for %s (%d statements)" % (name, len(t1[code])), nontrivial=True)
    for v, t, d in tabs:
        n += 1
        key = "ILSYM:default:%s" % v
        extra = sorted(set(t) - set(IL_CODES))
        fails = False
        if d is not None:
            for s in d:
                def fv(nn, st):
                    nonlocal fails
                    if nn[0] == "s" and kind(nn[1]) == "asg" and kind(strip(nn[1][2])) == "var" and strip(nn[1][2])[1] == "ret_value" and is_int(nn[1][3]) and int_val(nn[1][3]) == -1:
                        fails = True
                    if nn[0] == "goto":
                        pass
                    return True
                ast_walk(s, fv)
        if extra:
            ctx.violated("ILSYM", key, f.where(), "the switch over `%s` has arms for unknown interlace codes %s" % (v, extra))
        elif not fails:
            ctx.violated("ILSYM", key, f.where(), "the switch over `%s` does not reject unknown interlace codes (default arm missing or not failing)" % v)
        else:
            ctx.holds("ILSYM", key, f.where(), "unknown codes take the failing default", nontrivial=False)
    # conditions outside the two switches must treat the two interlace parameters alike
    conds = []

    def visc(nn, st):
        if nn[0] in ("if", "while") and nn[1] is not None:
            conds.append(nn[1])
        return True
    ast_walk(f.raw.get("ast"), visc)
    (v1, _t1, _d1), (v2, _t2, _d2) = tabs
    for ci, c in enumerate(conds):
        atoms = {v1: set(), v2: set()}
        for x in walk(c, True):
            if x[0] == "bin" and x[1] in ("==", "!="):
                l, r = strip(x[2]), strip(x[3])
                if kind(l) == "var" and l[1] in atoms and is_int(r):
                    atoms[l[1]].add((x[1], int_val(r)))
                elif kind(r) == "var" and r[1] in atoms and is_int(l):
                    atoms[r[1]].add((x[1], int_val(l)))
        if not atoms[v1] and not atoms[v2]:
            continue
        n += 1
        key = "ILSYM:cond#%d" % (ci + 1)
        if atoms[v1] == atoms[v2]:
            ctx.holds("ILSYM", key, f.where(), "`%s` tests `%s` and `%s` against the same interlace codes" % (render(c)[:60], v1, v2), nontrivial=True)
        else:
            ctx.violated("ILSYM", key, f.where(), "`%s` treats the input and the output interlace differently (%s: %s, %s: %s): the end-of-line adjustment is applied for one direction of a conversion only"
                         % (render(c)[:70], v1, sorted(atoms[v1]), v2, sorted(atoms[v2])))
    ctx.floor("ILSYM", 6, n, "(interlace codes x 2 switches, symmetric conditions)")
    return n


class _ILRange(PathAnalysis):
    def __init__(self, prog, pname):
        super().__init__(prog)
        self.pname = pname
        self.bad = False
        self.stores = 0

    def init_user(self, func):
        return None

    def on_stmt(self, func, bid, idx, stmt, env, user):
        for x in walk(stmt["e"], True):
            if x[0] == "asg" and x[1] == "=" and kind(strip(x[3])) == "var" and strip(x[3])[1] == self.pname and mem_field(x[2]):
                self.stores += 1
                v = env.get(self.pname)
                ok = v is not None and ((v[0] == "c" and 0 <= v[1] <= 2) or (v[0] == "rng" and v[1] is not None and v[2] is not None and v[1] >= 0 and v[2] <= 2))
                if not ok:
                    self.bad = True
        return user


def rule_il_range(ctx):
    prog = ctx.prog
    n = 0
    for nm in ("GRreqimageil", "GRreqlutil"):
        f = prog.func(nm)
        if f is None:
            ctx.unrecognised("ILRANGE", "ILRANGE:%s" % nm, "-", "%s not found" % nm)
            continue
        pname = f.params[1][0]
        a = _ILRange(prog, pname)
        a.fails = fail_values(f, prog)
        a.run(f)
        n += a.stores
        if not a.stores:
            ctx.unrecognised("ILRANGE", "ILRANGE:%s" % nm, f.where(), "no store of the requested interlace found")
        elif a.bad:
            ctx.violated("ILRANGE", "ILRANGE:%s" % nm, f.where(), "the requested interlace `%s` is stored without having been confined to PIXEL..COMPONENT on that path" % pname)
        else:
            ctx.holds("ILRANGE", "ILRANGE:%s" % nm, f.where(), "`%s` is within 0..2 on every path that stores it" % pname, nontrivial=True)
    ctx.floor("ILRANGE", 2, n, "(stores of the requested interlace)")
    return n


def _shape(node):
    """statement shapes with integer constants, |=/&= and ~ abstracted: two arms that do 'the same thing with opposite bits'
    have equal shapes"""
    out = []

    def r(e):
        e = strip(e)
        if not isinstance(e, list) or not e:
            return str(e)
        k = e[0]
        if k == "var":
            return e[1]
        if k == "int":
            return "K"
        if k == "asg":
            op = "OP=" if e[1] in ("|=", "&=") else e[1]
            return "(%s %s %s)" % (r(e[2]), op, r(e[3]))
        if k == "bin":
            return "(%s %s %s)" % (r(e[2]), e[1], r(e[3]))
        if k == "un":
            return r(e[2]) if e[1] == "~" else "%s(%s)" % (e[1], r(e[2]))
        if k == "idx":
            return "%s[%s]" % (r(e[1]), r(e[2]))
        if k == "deref":
            return "*(%s)" % r(e[1])
        if k == "incdec":
            return "%s(%s)" % (e[1], r(e[3]))
        if k == "mem":
            return "%s.%s" % (r(e[1]), e[2])
        if k == "call":
            return "%s(%s)" % (e[1], ",".join(r(a) for a in e[3]))
        return k

    def stmt(n):
        k = n[0]
        if k == "s":
            out.append(r(n[1]))
        elif k == "block":
            for c in n[1]:
                stmt(c)
        elif k == "for":
            out.append("for(%s;%s;%s){" % (r(n[1]) if n[1] else "", r(n[2]) if n[2] else "", r(n[3]) if n[3] else ""))
            stmt(n[4])
            out.append("}")
        elif k in ("nop",):
            pass
        else:
            out.append(k)
    stmt(node)
    return out


def rule_signext_symmetry(ctx):
    """SIGNSYM (C05): the n-bit decoder extends the sign of a value by filling the bytes above the sign byte and the bits
    above the sign bit with ones or with zeroes.  Both fills must touch exactly the same bytes and bits: the `sign_bit == 1`
    arm and its else arm of HCIcnbit_decode are equal once constants, |=/&= and ~ are abstracted."""
    prog = ctx.prog
    f = prog.func("HCIcnbit_decode")
    if f is None:
        ctx.unrecognised("SIGNSYM", "SIGNSYM:HCIcnbit_decode", "-", "HCIcnbit_decode not found")
        return 0
    found = []

    def vis(n, st):
        if n[0] == "if" and n[3] is not None:
            c = strip(n[1])
            if kind(c) == "bin" and c[1] == "==" and kind(strip(c[2])) == "var" and strip(c[2])[1] == "sign_bit" and is_int(c[3]):
                found.append(n)
        return True
    ast_walk(f.raw.get("ast"), vis)
    if not found:
        ctx.unrecognised("SIGNSYM", "SIGNSYM:HCIcnbit_decode", f.where(), "no `if (sign_bit == 1) .. else ..` found")
        return 0
    for i, n in enumerate(found):
        a, b = _shape(n[2]), _shape(n[3])
        key = "SIGNSYM:HCIcnbit_decode#%d" % (i + 1)
        if a == b:
            ctx.holds("SIGNSYM", key, f.where(), "fill-with-ones and fill-with-zeroes arms have the same shape (%d statements)" % len(a), nontrivial=True)
        else:
            d = next((x, y) for x, y in zip(a + ["<end>"], b + ["<end>"]) if x != y)
            ctx.violated("SIGNSYM", key, f.where(), "the two sign-extension arms differ in shape (%s  vs  %s): negative and non-negative values are extended over different bytes/bits"
                         % (d[0][:70], d[1][:70]))
    return len(found)


def rule_import_compression(ctx):
    """CRDRV (C15, C09): GRIget_image_list builds the in-memory image records from three storage conventions — the GR Vgroup,
    the RIG raster group and ungrouped RI8/CI8/II8 elements.  In each of them the image data may be compressed (DFTAG_CI,
    DFTAG_CI8, DFTAG_II8); a record whose `use_cr_drvr` is never set is read as raw bytes.  Every arm of the import switch that
    stores `img_tag` for a new image therefore also contains a store `use_cr_drvr = 1` (conditional on the tag found)."""
    from .codec import ast_walk, ast_exprs
    from .facts import mem_field, is_int
    prog = ctx.prog
    f = prog.func("GRIget_image_list")
    if f is None:
        ctx.unrecognised("CRDRV", "CRDRV:GRIget_image_list", "-", "GRIget_image_list not found")
        return 0
    arms = []

    def vis(nn, st):
        if nn[0] == "case":
            sw = [a for a in st if a[0] == "switch"]
            if sw and "grp_tag" in render(sw[-1][1]) and not any(a[0] == "case" for a in st[st.index(sw[-1]):]):
                arms.append(nn)
        return True
    ast_walk(f.raw.get("ast"), vis)
    n = 0
    for arm in arms:
        stores_tag = stores_drv = False
        sub = []

        def v2(m, st):
            sub.append(m)
            return True
        ast_walk(arm[2], v2, [])
        # consecutive `case A: case B: stmt` labels nest; statements that follow the labelled one are siblings in the
        # enclosing block, so look at the whole remainder of the switch body up to the next top-level case
        for m in sub:
            if m[0] == "s":
                for x in walk(m[1], True):
                    if x[0] == "asg" and x[1] == "=":
                        mf = mem_field(x[2])
                        if mf and mf[1] == "img_tag" and mf[0] == "ri_info":
                            stores_tag = True
                        if mf and mf[1] == "use_cr_drvr" and not is_int(x[3], 0):
                            stores_drv = True
        if not stores_tag:
            continue
        n += 1
        lab = arm[1]
        lab = (lab.get("name") or str(lab.get("case"))) if isinstance(lab, dict) else render(lab)[:24]
        key = "CRDRV:GRIget_image_list:%s" % lab
        line = arm[3] if len(arm) > 3 else f.line
        if stores_drv:
            ctx.holds("CRDRV", key, f.where(line), "the arm can select the compressed-raster driver for the image it imports", nontrivial=True)
        else:
            ctx.violated("CRDRV", key, f.where(line), "this arm of the import switch creates image records (stores img_tag) but never sets use_cr_drvr: a compressed image of this "
                         "storage convention is handed to the application as its compressed bytes")
    ctx.floor("CRDRV", 3, n, "(arms of the import switch that create image records)")
    return n


def rule_rig_number_type(ctx):
    """RIGNT (C15): GR writes a raster-image group (RIG) next to its own Vgroup 'to guarantee compatibility with older software',
    i.e. so that DFR8/DF24 can read the image.  GRIupdateRIG does so exactly for the number types its guard lets through
    (`img_dim.nt != K` returns early) and writes that type into the ID record's NT element.  Each RIG reader (DFR8getrig,
    DFGRgetrig) rejects a RIG whose NT is not in the set it compares `ntstring[1]` with.  The writer's types must be a subset
    of every reader's, or the compatibility RIG is unreadable by the very interfaces it is written for."""
    from .codec import ast_walk
    from .facts import is_int, int_val
    prog = ctx.prog
    w = prog.func("GRIupdateRIG")
    if w is None:
        ctx.unrecognised("RIGNT", "RIGNT:GRIupdateRIG", "-", "GRIupdateRIG not found")
        return 0
    written = set()
    for _b, _i, _s, x in w.nodes(True):
        if x[0] == "bin" and x[1] == "!=" and is_int(x[3]) and any(y[0] == "mem" and y[2] == "nt" for y in walk(x[2], True)):
            written.add(int_val(x[3]))
    if not written:
        ctx.unrecognised("RIGNT", "RIGNT:GRIupdateRIG", w.where(), "no `img_dim.nt != <type>` guard found")
        return 0
    n = 0
    for f in prog.lib_funcs():
        if not f.rel.endswith(("dfr8.c", "dfgr.c")):
            continue
        acc = set()
        line = None
        for _b, _i, s, x in f.nodes(True):
            if x[0] == "bin" and x[1] == "!=" and is_int(x[3]) and kind(strip(x[2])) == "idx" and is_int(strip(x[2])[2], 1) and "ntstring" in render(strip(x[2])[1]):
                acc.add(int_val(x[3]))
                line = s.get("l")
        if not acc:
            continue
        n += 1
        key = "RIGNT:%s" % f.name
        missing = written - acc
        if missing:
            ctx.violated("RIGNT", key, f.where(line), "GRIupdateRIG writes RIGs whose number type is %s, but %s accepts only %s: the images GR stores for compatibility are "
                         "invisible to this interface" % (sorted(written), f.name, sorted(acc)))
        else:
            ctx.holds("RIGNT", key, f.where(line), "accepts %s, GR writes %s" % (sorted(acc), sorted(written)), nontrivial=True)
    ctx.floor("RIGNT", 2, n, "(RIG readers that test the number type)")
    return n


def rule_probe_tag(ctx):
    """PROBETAG (C15, C09): `if (Hexist(file, T, ref) == SUCCEED) { X->..tag = T'; X->..ref = ref; }` records where the element
    that was just found lives; T' must be the tag that was probed.  With different constants the record points at an element
    that was never looked for (a palette of another convention) and the one that exists is ignored."""
    from .codec import ast_walk, ast_exprs
    from .facts import calls_in, is_int, int_val, int_name, mem_field
    prog = ctx.prog
    n = 0
    for f in prog.lib_funcs():
        found = []

        def vis(nn, st):
            if nn[0] == "if":
                probes = [c for c in calls_in(nn[1], True) if c[1] == "Hexist" and len(c[3]) >= 2 and is_int(c[3][1])]
                if probes:
                    stores = [x for e in ast_exprs(nn[2]) for x in walk(e, True)
                              if x[0] == "asg" and x[1] == "=" and (mem_field(x[2]) or (0, ""))[1].endswith("tag") and is_int(x[3])]
                    if stores:
                        found.append((nn, probes[0], stores))
            return True
        ast_walk(f.raw.get("ast"), vis)
        for k, (nn, p, stores) in enumerate(found):
            n += 1
            key = "PROBETAG:%s#%d" % (f.name, k + 1)
            t = int_val(p[3][1])
            bad = [s for s in stores if int_val(s[3]) != t]
            if bad:
                ctx.violated("PROBETAG", key, f.where(bad[0][4]), "the branch is taken because an element with tag %s exists, but it records `%s`: the element found is ignored and one that "
                             "was not looked for is referenced" % (int_name(p[3][1]) or t, render(bad[0])[:50]))
            else:
                ctx.holds("PROBETAG", key, f.where(nn[4]), "probes and records %s" % (int_name(p[3][1]) or t), nontrivial=True)
    ctx.floor("PROBETAG", 2, n, "(existence probes whose branch records a tag)")
    return n


def _axis_refs(e, arr):
    """constant indices with which array `arr` is subscripted inside e"""
    from .facts import is_int, int_val, base_var
    out = set()
    for y in walk(e, True):
        if y[0] == "idx" and base_var(y[1]) == arr and is_int(y[2]):
            out.add(int_val(y[2]))
    return out


def rule_axis_stride(ctx):
    """AXISUSE (C09): region and stride addressing of images walks two nested loops, one per axis, each bounded by `count[axis]`.
    An offset that is advanced once per iteration of the loop over axis A moves along A, so a stride factor in that advance
    must be `stride[A]` (directly or through a local computed from it).  An advance of the row loop that uses the column
    stride reads or writes the wrong rows whenever the two strides differ."""
    from .codec import ast_walk
    from .facts import is_int, int_val, base_var
    prog = ctx.prog
    n = 0
    for fn in ("GRreadimage", "GRwriteimage"):
        f = prog.func(fn)
        if f is None:
            ctx.unrecognised("AXISUSE", "AXISUSE:%s" % fn, "-", "%s not found" % fn)
            continue
        # locals computed from stride[k]
        dep = {}
        for _b, _i, _s, x in f.nodes(True):
            if x[0] == "asg" and x[1] == "=" and kind(strip(x[2])) == "var":
                r = _axis_refs(x[3], "stride")
                if r:
                    dep.setdefault(strip(x[2])[1], set()).update(r)
        loops = []

        def vis(nn, st):
            if nn[0] == "for" and nn[2] is not None:
                ax = _axis_refs(nn[2], "count")
                if len(ax) == 1:
                    loops.append((nn, next(iter(ax))))
            return True
        ast_walk(f.raw.get("ast"), vis)
        for k, (lp, ax) in enumerate(loops):
            body = lp[4]
            stmts = body[1] if body[0] == "block" else [body]
            for st_ in stmts:
                if st_[0] != "s":
                    continue
                e = strip(st_[1])
                if kind(e) != "asg" or e[1] != "+=":
                    continue
                used = set(_axis_refs(e[3], "stride"))
                for y in walk(e[3], True):
                    if y[0] == "var" and y[1] in dep:
                        used |= dep[y[1]]
                if not used:
                    continue
                n += 1
                key = "AXISUSE:%s:%s#%d" % (fn, base_var(e[2]) or "?", k + 1)
                if used == {ax}:
                    ctx.holds("AXISUSE", key, f.where(e[4]), "advance per iteration over count[%d] uses stride[%d]" % (ax, ax), nontrivial=True)
                else:
                    ctx.violated("AXISUSE", key, f.where(e[4]), "`%s` is executed once per iteration of the loop over count[%d] but its stride factor comes from stride[%s]: "
                                 "with different strides per axis the wrong rows/columns are addressed" % (render(e)[:70], ax, ",".join(str(u) for u in sorted(used))))
    ctx.floor("AXISUSE", 3, n, "(stride-dependent advances in the axis loops of GRreadimage/GRwriteimage)")
    return n


def rule_record_from_one_subrecord(ctx):
    """ONEREC (C09): GRIupdatemeta writes two dimension records, one describing the palette (from `lut_dim`) and one describing
    the image (from `img_dim`); both have the same layout and are encoded by two look-alike runs of ENCODE macros, each ended
    by the Hputelement that stores the record.  Every value encoded in one run comes from one and the same sub-record; a field
    taken from the other one (the image's component count in the palette's record) is a wrong description of the object."""
    from .codec import codec_events
    from .facts import calls_in
    prog = ctx.prog
    f = prog.func("GRIupdatemeta")
    if f is None:
        ctx.unrecognised("ONEREC", "ONEREC:GRIupdatemeta", "-", "GRIupdatemeta not found")
        return 0
    puts = sorted(c[5] for _b, _i, _s, c in f.calls() if c[1] == "Hputelement")
    runs = {}
    for ev, st in codec_events(f):
        if ev.dir != "enc":
            continue
        nxt = next((l for l in puts if l >= ev.line), None)
        subs = {y[2] for y in walk(ev.expr, True) if y[0] == "mem" and y[2] in ("img_dim", "lut_dim")}
        if nxt is not None and subs:
            runs.setdefault(nxt, []).append((ev.line, subs))
    n = 0
    for k, (put, evs) in enumerate(sorted(runs.items())):
        n += 1
        key = "ONEREC:GRIupdatemeta#%d" % (k + 1)
        allsubs = set().union(*(s for _l, s in evs))
        if len(allsubs) == 1:
            ctx.holds("ONEREC", key, f.where(put), "%d values, all from `%s`" % (len(evs), next(iter(allsubs))), nontrivial=True)
        else:
            counts = {s: sum(1 for _l, ss in evs if s in ss) for s in allsubs}
            odd = min(counts, key=counts.get)
            line = next(l for l, ss in evs if odd in ss)
            ctx.violated("ONEREC", key, f.where(line), "the record stored at line %d is encoded from `%s` except for a value taken from `%s` (line %d): the record describes one object with "
                         "a property of the other" % (put, max(counts, key=counts.get), odd, line))
    ctx.floor("ONEREC", 2, n, "(dimension records encoded by GRIupdatemeta)")
    return n


def rule_row_length_factor(ctx):
    """ROWLEN (C09): images are stored row by row; the byte offset of row y is y * xdim * pixel size.  In GRreadimage and GRwriteimage
    every product that scales a row index or row step (`start[YDIM]`, `stride[YDIM]`) into an offset uses the row length `xdim`
    — never `ydim`, which gives the same number only for square images."""
    from .facts import is_int, int_val, base_var
    prog = ctx.prog
    n = 0
    for fn in ("GRreadimage", "GRwriteimage"):
        f = prog.func(fn)
        if f is None:
            ctx.unrecognised("ROWLEN", "ROWLEN:%s" % fn, "-", "%s not found" % fn)
            continue
        seen = set()

        def factors(e):
            e = strip(e)
            if kind(e) == "bin" and e[1] == "*":
                return factors(e[2]) + factors(e[3])
            return [e]
        for _b, _i, s, x in f.nodes(True):
            if x[0] != "bin" or x[1] != "*":
                continue
            fs = factors(x)
            rowidx = [a for a in fs if kind(a) == "idx" and base_var(a[1]) in ("start", "stride") and is_int(a[2]) and int_val(a[2]) == 1]
            if not rowidx:
                continue
            r = render(x)
            if any(r in o and r != o for o in seen) or r in seen:
                continue
            seen.add(r)
            dims = {y[2] for a in fs for y in walk(a, True) if y[0] == "mem" and y[2] in ("xdim", "ydim")}
            if not dims:
                continue
            n += 1
            key = "ROWLEN:%s#%d" % (fn, len(seen))
            if dims == {"xdim"}:
                ctx.holds("ROWLEN", key, f.where(s.get("l")), "`%s` scales the row index by xdim" % r[:60], nontrivial=True)
            else:
                ctx.violated("ROWLEN", key, f.where(s.get("l")), "`%s` scales a row index by %s instead of the row length xdim: on a non-square image the region lands at the wrong offset" % (r[:70], "/".join(sorted(dims))))
    ctx.floor("ROWLEN", 3, n, "(row-index products in GRreadimage/GRwriteimage)")
    return n


def rule_interlace_direction(ctx):
    """ILDIR (C04, C09): image data is stored pixel-interlaced.  A read converts *from* pixel interlace *to* the interlace the
    application requested (`im_il`, set by GRreqimageil; `lut_il` for palettes); a write converts from the interlace the image was
    created with (`img_dim.il`) to pixel interlace.  Every GRIil_convert call in a GRread* routine therefore has PIXEL as its
    input interlace and the requested interlace as its output, every call in a GRwrite* routine the creation interlace as input
    and PIXEL as output — for whole-image and whole-chunk access alike, or the two return different component orders."""
    from .facts import is_int, int_val
    prog = ctx.prog
    n = 0
    for f in prog.lib_funcs():
        if not f.rel.endswith("mfgr.c") or not (f.name.startswith("GRread") or f.name.startswith("GRwrite")):
            continue
        ordn = 0
        for _b, _i, _s, c in f.calls():
            if c[1] != "GRIil_convert" or len(c[3]) < 4:
                continue
            ordn += 1
            n += 1
            key = "ILDIR:%s#%d" % (f.name, ordn)
            inil, outil = strip(c[3][1]), strip(c[3][3])
            fld = lambda e: (mem_field(e) or (0, None))[1]
            if f.name.startswith("GRread"):
                ok = is_int(inil) and int_val(inil) == 0 and fld(outil) in ("im_il", "lut_il")
                want = "PIXEL -> im_il / lut_il"
            else:
                ok = fld(inil) == "il" and is_int(outil) and int_val(outil) == 0
                want = "img_dim.il -> PIXEL"
            if ok:
                ctx.holds("ILDIR", key, f.where(c[5]), "converts %s" % want, nontrivial=True)
            else:
                ctx.violated("ILDIR", key, f.where(c[5]), "`%s` converts %s -> %s where %s is required: this access path returns (or stores) the components in another order than "
                             "its sibling" % (render(c)[:50], render(inil)[:25], render(outil)[:25], want))
    ctx.floor("ILDIR", 4, n, "(interlace conversions in the GR read/write routines)")
    return n


def rule_interlace_shortcut(ctx):
    """ILSHORT (C15, C09): GRIil_convert re-orders a buffer between pixel, line and component interlace.  Its only shortcut — copy
    the buffer unchanged — is right exactly when input and output interlace are the same; for any two different schemes some
    buffer shape (one pixel wide, one line high) still needs the components regrouped.  The condition that guards the plain copy
    is evaluated with `inil != outil` and everything else unknown: it must come out false."""
    from .codec import ast_walk
    from .facts import kind, strip, walk, render, calls_in
    from .rules_coders import _eval_guard
    prog = ctx.prog
    f = prog.func("GRIil_convert")
    if f is None or not f.raw.get("ast"):
        ctx.unrecognised("ILSHORT", "ILSHORT:GRIil_convert", "-", "GRIil_convert not found")
        return 0
    ps = [q[0] for q in f.params]
    ils = [p for p, q in zip(ps, f.params) if "gr_interlace_t" in (q[1] if len(q) > 1 else "")]
    scal = [q[0] for q in f.params if len(q) > 1 and q[1] in ("int32", "int", "intn") ]
    ncomp = scal[0] if scal else None
    guards = []

    def vis(nd, st):
        if nd[0] == "if":
            arm = nd[2]
            kids = arm[1] if arm[0] == "block" else [arm]
            if kids and kids[0][0] == "s" and any(c[1] in ("memcpy", "memmove") for c in calls_in(kids[0][1], True)) and len(kids) == 1:
                guards.append(nd)
        return True

    ast_walk(f.raw["ast"], vis)
    n = 0
    for g in guards:
        n += 1
        key = "ILSHORT:GRIil_convert#%d" % n
        line = g[-3] if isinstance(g[-3], int) else f.line
        if len(ils) != 2:
            ctx.unrecognised("ILSHORT", key, f.where(line), "the two interlace parameters were not recognised")
            continue

        def val(leaf):
            if kind(leaf) == "var" and leaf[1] == ils[0]:
                return 0
            if kind(leaf) == "var" and leaf[1] == ils[1]:
                return 1
            if kind(leaf) == "var" and leaf[1] == ncomp:
                return 3  # with a single component every scheme is the same layout: the claim is about multi-component pixels
            return None

        v = _eval_guard(g[1], val)
        if v == 0:
            ctx.holds("ILSHORT", key, f.where(line), "the plain copy is taken only when `%s == %s` (`%s` is false for different interlaces whatever the buffer shape)" % (ils[0], ils[1], render(g[1])[:60]), nontrivial=True)
        else:
            ctx.violated("ILSHORT", key, f.where(line), "the guard `%s` of the plain copy can hold although `%s != %s`: a buffer that needs its components regrouped is returned unconverted" % (render(g[1])[:80], ils[0], ils[1]))
    ctx.floor("ILSHORT", 1, n, "(plain-copy shortcuts in GRIil_convert)")
    return n


def rule_axis_guards_independent(ctx, funcs=("GRwriteimage", "GRreadimage")):
    """AXISGUARD (C09): sub-sampling is decided per axis: a stride greater than 1 along X means gaps inside a row, along Y it means
    whole rows between the rows that are transferred.  In GRwriteimage/GRreadimage a decision taken on one axis' stride
    (`stride[YDIM] > 1` -> rows must be filled) must not sit inside the arm of a test on the *other* axis' stride: nested there, a
    write that sub-samples only in Y never fills the skipped rows of a new image.  Instances: every test of `a[XDIM]` / `a[YDIM]`
    against a constant, checked against the tests that enclose it."""
    from .codec import ast_walk
    from .facts import kind, strip, walk, render, int_name, is_int, base_var
    prog = ctx.prog
    n = 0

    def axis_tests(c):
        out = set()
        for x in walk(c, True):
            if x[0] == "bin" and x[1] in (">", ">=", "<", "<=", "==", "!="):
                for a, o in ((x[2], x[3]), (x[3], x[2])):
                    a = strip(a)
                    if kind(a) == "idx" and int_name(a[2]) in ("XDIM", "YDIM") and is_int(o):
                        out.add((base_var(a), int_name(a[2])))
        return out

    for fn in funcs:
        f = prog.func(fn)
        if f is None or not f.raw.get("ast"):
            ctx.unrecognised("AXISGUARD", "AXISGUARD:%s" % fn, "-", "%s not found" % fn)
            continue
        k = [0]

        def vis(nd, st):
            nonlocal n
            if nd[0] != "if":
                return True
            mine = axis_tests(nd[1])
            if len({ax for _a, ax in mine}) != 1:
                return True
            arr, ax = next(iter(mine))
            k[0] += 1
            n += 1
            key = "AXISGUARD:%s#%d" % (fn, k[0])
            line = nd[-3] if isinstance(nd[-3], int) else f.line
            chain = st + [nd]
            for i, s_ in enumerate(st):
                if s_[0] == "if" and chain[i + 1] is s_[2]:
                    outer = axis_tests(s_[1])
                    if any(a2 == arr and ax2 != ax for a2, ax2 in outer) and not any(a2 == arr and ax2 == ax for a2, ax2 in outer):
                        ctx.violated("AXISGUARD", key, f.where(line), "the decision `%s` on the %s axis is taken only inside the arm of `%s`, a test on the other axis: a transfer that sub-samples along %s alone never reaches it" %
                                     (render(nd[1])[:50], ax, render(s_[1])[:50], ax))
                        return True
            ctx.holds("AXISGUARD", key, f.where(line), "`%s` is not nested under a test of the other axis" % render(nd[1])[:60], nontrivial=True)
            return True

        ast_walk(f.raw["ast"], vis)
    ctx.floor("AXISGUARD", 3, n, "(per-axis tests in GRwriteimage/GRreadimage)")
    return n


def rule_image_record_fill_flag(ctx):
    """FILLFLAG (C09): whether GRwriteimage lays down fill values around a partial write is gated by two facts: the image has no data
    yet, and its record carries `fill_img`.  An image that is stored the new way (an RI Vgroup — its record gets `ri_ref` from
    that group's reference, not the DFREF_WILDCARD of RIG/RI8 imports, which always come with data) can exist without data in
    any session, so every place that builds such a record — GRcreate and the loader GRIget_image_list — must set the flag.
    Built without it, the first partial write of a later session fails (seek past the end of the empty element) or leaves the
    rest of the image zero."""
    from .codec import ast_walk
    from .facts import kind, strip, walk, render, mem_field, is_int, int_name
    prog = ctx.prog
    n = 0
    for f in prog.lib_funcs():
        if not f.rel.endswith("hdf/src/mfgr.c") or not f.raw.get("ast"):
            continue
        blocks = []
        ast_walk(f.raw["ast"], lambda nd, st: (blocks.append(nd) if nd[0] == "block" else None, True)[1])
        k = 0
        for b in blocks:
            builds = None
            flag = False
            for kid in b[1]:
                if kid[0] != "s":
                    continue
                for x in walk(kid[1], True):
                    if x[0] == "asg" and x[1] == "=" and mem_field(x[2]) == ("ri_info", "ri_ref") and int_name(x[3]) != "DFREF_WILDCARD" and not is_int(x[3]):
                        builds = kid
                    if x[0] == "asg" and x[1] == "=" and mem_field(x[2]) == ("ri_info", "fill_img"):
                        flag = True
            if builds is None:
                continue
            # only records under construction: the same block also gives the record its attribute tree
            if not any(kid[0] == "s" and any(x[0] == "asg" and (mem_field(x[2]) or (0, 0))[1] in ("lattree", "lattr_count") for x in walk(kid[1], True)) for kid in b[1]):
                continue
            k += 1
            n += 1
            key = "FILLFLAG:%s#%d" % (f.name, k)
            line = builds[-3] if isinstance(builds[-3], int) else f.line
            if flag:
                ctx.holds("FILLFLAG", key, f.where(line), "the record of a new-style image is built with `fill_img` set", nontrivial=True)
            else:
                ctx.violated("FILLFLAG", key, f.where(line), "%s builds the record of a new-style image without setting `fill_img`: if the image has no data yet, its first partial write is not filled" % f.name)
    ctx.floor("FILLFLAG", 2, n, "(places that build the record of a new-style image)")
    return n


def rule_interlace_gate_matches(ctx):
    """ILGATE (C09, C04): a GR read or write routine converts only when the application-side interlace is not pixel interlace, and
    tests that first: `if (X != MFGR_INTERLACE_PIXEL) { .. GRIil_convert(.., Y ..) .. }`.  The interlace the gate tests (X) must be
    the very interlace the conversion inside it converts to or from (Y); a gate on another field (the image's own interlace on
    a read, where the *requested* one matters) skips the conversion exactly when the two differ, and the caller gets pixel
    interlaced data where another layout was asked for."""
    from .codec import ast_walk
    from .facts import kind, strip, walk, render, calls_in, is_int, int_val
    prog = ctx.prog
    n = 0
    for f in prog.lib_funcs():
        if not f.rel.endswith("mfgr.c") or not (f.name.startswith("GRread") or f.name.startswith("GRwrite")) or not f.raw.get("ast"):
            continue
        found = []

        def vis(nd, st):
            exprs = [nd[1]] if nd[0] in ("s", "if") and nd[1] is not None else []
            for e in exprs:
                for c in calls_in(e, True):
                    if c[1] == "GRIil_convert" and len(c[3]) >= 4:
                        found.append((c, nd, list(st)))
            return True

        ast_walk(f.raw["ast"], vis)
        k = 0
        for c, nd, st in found:
            side = [a for a in (strip(c[3][1]), strip(c[3][3])) if not is_int(a)]
            if len(side) != 1:
                continue
            Y = render(side[0])
            gates = []
            chain = st + [nd]
            for i, s_ in enumerate(st):
                if s_[0] == "if" and chain[i + 1] is s_[2]:
                    g = strip(s_[1])
                    if kind(g) == "bin" and g[1] == "!=" and is_int(g[3]) and int_val(g[3]) == 0 and "il" in render(g[2]):
                        gates.append(g)
            if not gates:
                continue
            k += 1
            n += 1
            key = "ILGATE:%s#%d" % (f.name, k)
            X = render(strip(gates[-1][2]))
            if X == Y:
                ctx.holds("ILGATE", key, f.where(c[5]), "the conversion to/from `%s` is gated by a test of `%s`" % (Y, X), nontrivial=True)
            else:
                ctx.violated("ILGATE", key, f.where(c[5]), "the conversion to/from `%s` is gated by `%s != MFGR_INTERLACE_PIXEL`: when the two interlaces differ it is skipped (or done) at the wrong time" % (Y, X))
    ctx.floor("ILGATE", 3, n, "(gated interlace conversions in the GR read/write routines)")
    return n


def rule_gr_access_matches_direction(ctx):
    """GRPERM (C09, C14): the GR routines open an image's access element on demand through GRIgetaid(ri, perm).  A routine that only
    reads pixels (GRread*) asks for read access — a request for write access fails on a file opened read-only, so the read would
    work or fail depending on whether some other call opened the element first.  A routine that writes (GRwrite*) either calls
    GRIgetaid(.., DFACC_WRITE) unconditionally (it upgrades an element opened for reading) or tests `acc_perm & DFACC_WRITE`
    before it reuses an element that is already open."""
    from .codec import ast_walk
    from .facts import kind, strip, walk, render, is_int, int_val, calls_in
    prog = ctx.prog
    n = 0
    for f in prog.lib_funcs():
        if not f.rel.endswith("hdf/src/mfgr.c") or not (f.name.startswith("GRread") or f.name.startswith("GRwrite")) or not f.raw.get("ast"):
            continue
        sites = []

        def vis(nd, st):
            exprs = [nd[1]] if nd[0] in ("s", "if") and nd[1] is not None else []
            for e in exprs:
                for c in calls_in(e, True):
                    if c[1] == "GRIgetaid" and len(c[3]) > 1 and is_int(c[3][1]):
                        sites.append((c, nd, list(st)))
            return True

        ast_walk(f.raw["ast"], vis)
        for k, (c, nd, st) in enumerate(sites):
            n += 1
            key = "GRPERM:%s#%d" % (f.name, k + 1)
            perm = int_val(c[3][1])
            line = c[5] if len(c) > 5 and isinstance(c[5], int) else f.line
            if f.name.startswith("GRread"):
                if perm & 2:
                    ctx.violated("GRPERM", key, f.where(line), "%s, which only reads, asks GRIgetaid for write access: on a read-only file the call fails unless another routine opened the element before" % f.name)
                else:
                    ctx.holds("GRPERM", key, f.where(line), "a reading routine asks for read access", nontrivial=True)
            else:
                if not (perm & 2):
                    ctx.violated("GRPERM", key, f.where(line), "%s, which writes, asks GRIgetaid for read access only" % f.name)
                    continue
                gates = [s_ for s_ in st if s_[0] == "if"]
                reuse_unchecked = False
                for g in gates:
                    r = render(g[1])
                    if "img_aid" in r and "acc_perm" not in r:
                        reuse_unchecked = True
                if reuse_unchecked:
                    ctx.violated("GRPERM", key, f.where(line), "%s requests write access only when no access element is open (`%s`): an element that was opened for reading is reused for writing" % (f.name, render(gates[-1][1])[:50]))
                else:
                    ctx.holds("GRPERM", key, f.where(line), "a writing routine obtains write access unconditionally or after testing the permission of the open element", nontrivial=True)
    ctx.floor("GRPERM", 4, n, "(GRIgetaid requests in the GR read/write routines)")
    return n


def rule_existence_through_open_aid(ctx):
    """OPENLEN (C09): "does this image have data yet?" decides between reading the element and handing out the fill value, and
    between overwriting a region and laying down a new filled image.  The length recorded in the file for the image's tag/ref
    answers that only when no access element is open on it: a compressed image being written keeps its data in the coder
    and its recorded length stays 0 until the access ends.  Every `Hlength(.., X->img_tag, X->img_ref)` in the GR interface is
    therefore preceded, in its routine, by a test of `X->img_aid` (the open access element is asked instead when there is one)."""
    from .codec import ast_walk
    from .facts import calls_in, mem_field
    prog = ctx.prog
    n = 0
    for f in prog.lib_funcs():
        ast = f.raw.get("ast")
        if not ast or not f.rel.endswith("hdf/src/mfgr.c"):
            continue
        order = []

        def vis(nd, st):
            if nd[0] in ("s", "if", "while", "switch") and nd[1] is not None:
                order.append(nd)
            return True

        ast_walk(ast, vis)
        seen_aid = False
        k = 0
        for nd in order:
            if nd[0] == "if":
                for x in walk(nd[1], True):
                    if x[0] == "mem" and x[2] == "img_aid":
                        seen_aid = True
            for c in calls_in(nd[1], True):
                if c[1] == "Hlength" and len(c[3]) > 2 and any(x[0] == "mem" and x[2] == "img_ref" for x in walk(c[3][2], True)):
                    k += 1
                    n += 1
                    key = "OPENLEN:%s#%d" % (f.name, k)
                    line = nd[-3] if isinstance(nd[-3], int) else f.line
                    if seen_aid:
                        ctx.holds("OPENLEN", key, f.where(line), "the recorded length of the image element is consulted after a test of img_aid", nontrivial=True)
                    else:
                        ctx.violated("OPENLEN", key, f.where(line), "the recorded length of the image's element decides whether data exists, with no test of img_aid before it: while a compressed image is open for writing that length is still 0 and written pixels are taken for absent")
    ctx.floor("OPENLEN", 1, n, "(Hlength calls on an image's data element)")
    return n


def rule_id_record_interlace(ctx):
    """DISKIL (C15, C09): GR stores every image pixel-interlaced - GRwriteimage converts the caller's buffer to
    MFGR_INTERLACE_PIXEL before it writes - while `img_dim.il` remembers the interlace the *user* created the image with.  The
    image dimension record (DFTAG_ID) describes the bytes in the file for every reader, the single-file DF24 interface
    included, so the routine that builds it encodes the constant MFGR_INTERLACE_PIXEL, never `img_dim.il`: with the user's
    interlace in the record GR still reads its own images correctly (it ignores the field) and DF24getimage returns
    scrambled components."""
    from .facts import calls_in, int_name
    prog = ctx.prog
    n = 0
    for f in prog.lib_funcs():
        if not f.rel.endswith("hdf/src/mfgr.c"):
            continue
        writes_id = any(c[1] == "Hputelement" and len(c[3]) > 1 and int_name(c[3][1]) == "DFTAG_ID" for _b, _i, _s, c in f.calls())
        if not writes_id:
            continue
        n += 1
        key = "DISKIL:%s" % f.name
        reads_user_il = None
        has_const = False
        for _b, _i, s, x in f.nodes(True):
            if x[0] == "mem" and x[2] == "il" and render(strip(x[1])).endswith("img_dim"):
                reads_user_il = s.get("l", f.line)
            if x[0] == "int" and int_name(x) == "MFGR_INTERLACE_PIXEL":
                has_const = True
        if reads_user_il:
            ctx.violated("DISKIL", key, f.where(reads_user_il), "the routine that writes the DFTAG_ID record reads `img_dim.il` (the interlace the image was created with): the record then describes pixel-interlaced bytes as line- or component-interlaced")
        else:
            ctx.holds("DISKIL", key, f.where(), "the DFTAG_ID record is built without consulting the interlace the image was created with", nontrivial=True)
    ctx.floor("DISKIL", 1, n, "(builders of the image dimension record)")
    return n


def rule_data_length_positive(ctx):
    """HASDATA (C09): "the image has data" means that the length of its data element is *positive*.  GRsetcompress creates the
    compressed element at once with length 0, so for a compressed image `>= 0` is true before anything was written: the first
    partial write is then taken for a write into an existing image, the fill-around-the-block path is skipped, and the
    unwritten pixels are whatever the coder produces.  Every comparison of GRIdata_length() (or of Hlength of the image
    element) that decides this is `> 0`."""
    from .facts import calls_in
    prog = ctx.prog
    n = 0
    for f in prog.lib_funcs():
        if not f.rel.endswith("hdf/src/mfgr.c"):
            continue
        k = 0
        for _b, _i, s, x in f.nodes(True):
            if x[0] != "bin" or x[1] not in (">", ">=", "<", "<=", "==", "!="):
                continue
            l, r = strip(x[2]), strip(x[3])
            if kind(l) == "call" and l[1] == "GRIdata_length" and is_int(r):
                op, c = x[1], int_val(r)
            elif kind(r) == "call" and r[1] == "GRIdata_length" and is_int(l):
                op, c = {"<": ">", "<=": ">=", ">": "<", ">=": "<=", "==": "==", "!=": "!="}[x[1]], int_val(l)
            else:
                continue
            k += 1
            n += 1
            key = "HASDATA:%s#%d" % (f.name, k)
            line = s.get("l", f.line)
            if (op == ">" and c == 0) or (op == ">=" and c == 1) or (op == "<=" and c == 0) or (op == "<" and c == 1):
                ctx.holds("HASDATA", key, f.where(line), "`%s`: an element of length 0 counts as no data" % render(x)[:50], nontrivial=True)
            else:
                ctx.violated("HASDATA", key, f.where(line), "`%s` takes an element of length 0 for image data: a compressed image has such an element from GRsetcompress on, before its first write" % render(x)[:50])
    ctx.floor("HASDATA", 2, n, "(decisions whether an image has data)")
    return n


def rule_whole_image_seek(ctx):
    """WHOLESEEK (C09): the access element of an image stays open for as long as the image id lives, and its position is wherever
    the previous read or write left it.  The whole-image arms of GRreadimage and GRwriteimage (`if (whole_image == TRUE)`)
    therefore position the element at offset 0 before their single transfer; without the seek a second whole-image write
    through the same id is appended behind the first and the image keeps its old pixels."""
    from .codec import ast_walk
    from .facts import calls_in
    from .rules_loops import seq_of
    prog = ctx.prog
    n = 0
    for f in prog.lib_funcs():
        ast = f.raw.get("ast")
        if not ast or not f.rel.endswith("hdf/src/mfgr.c"):
            continue
        arms = []

        def vis(nd, st):
            if nd[0] == "if" and nd[1] is not None and any(x[0] == "var" and x[1] == "whole_image" for x in walk(nd[1], True)):
                arms.append(nd)
            return True

        ast_walk(ast, vis)
        for k, nd in enumerate(arms, 1):
            seq = seq_of(nd[2])
            xfer = None
            seek0 = False
            for e, _k in seq:
                for c in calls_in(e, True):
                    if c[1] == "Hseek" and len(c[3]) > 1 and is_int(c[3][1], 0) and xfer is None:
                        seek0 = True
                    if c[1] in ("Hread", "Hwrite") and xfer is None:
                        xfer = c[1]
                        ok = seek0
            if xfer is None:
                continue
            n += 1
            key = "WHOLESEEK:%s#%d" % (f.name, k)
            line = nd[-3] if isinstance(nd[-3], int) else f.line
            if ok:
                ctx.holds("WHOLESEEK", key, f.where(line), "the whole-image arm seeks to offset 0 before its %s" % xfer, nontrivial=True)
            else:
                ctx.violated("WHOLESEEK", key, f.where(line), "the whole-image arm does its %s without first seeking to offset 0: the transfer happens wherever the previous access to the still open element ended" % xfer)
    ctx.floor("WHOLESEEK", 2, n, "(whole-image transfers)")
    return n
